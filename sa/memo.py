"""Cross-call memoisation keyed by objects whose equality ignores what the memoised code reads.

`functools.lru_cache` / `functools.cache` on a function (or a module-level dict used as a pool through
`POOL.setdefault(k, v)` / `POOL.get(k)` / `k in POOL`) identify a call by `hash`/`==` of its arguments for the life
of the process.  When an argument is an instance of a repository class whose `__eq__` leaves out some of its state
(`field(compare=False)`, an explicit `__eq__` over identifiers only), two different objects - another structure's
residue with the same numbering, the same atom in another conformer, a strand with the same span in another molecule -
hit the same entry.  If the memoised function reads the left-out state, the second caller gets the first caller's
answer: the output depends on the history of the process, not on the input.

Facts computed per class (dataclass machinery read from the ast):
    fields      annotated class attributes (inherited ones included), or `self.x = ...` of __init__ for plain classes
    covered     fields that take part in equality in full:
                  generated dataclass __eq__  -> every field without field(compare=False)
                  explicit __eq__             -> the fields it mentions directly as `self.f` (values derived through
                                                 properties or str(self) do not cover a field)
                  no __eq__ (plain class / eq=False) -> identity: nothing can collide, the key is sound
Facts computed per memo site:
    reads       fields of the key object that the memoised function reads, through attribute access, methods and
                properties of the class (closure over `self.<member>`), and through repository callees it hands the
                object to (bounded depth); an unresolvable use counts as reading everything
Violation: reads - covered is not empty (for pools: the pooled value itself is an object of such a class and any
field is uncovered - the caller receives another object's uncovered fields).

The rule is attributed to a property when the memoised function is reachable from that property's entry points in
the call graph restricted to the modules the entry's module (transitively) imports.
"""
from __future__ import annotations

import ast
from typing import Dict, Iterable, List, Optional, Set, Tuple

from . import astq
from .model import FuncInfo, Repo, norm

MEMO_DECORATORS = ("lru_cache", "cache")

# entry points whose behaviour each property talks about
ENTRIES: Dict[str, List[Tuple[str, str]]] = {
    "C01": [("common", "BpSeq.dot_bracket"), ("common", "BpSeq.convert_to_dot_bracket"), ("common", "BpSeq.fcfs"), ("common", "BpSeq.all_dot_brackets"), ("common", "BpSeq.from_dotbracket"), ("common", "BpSeq.from_string"), ("common", "DotBracket.*")],
    "C02": [("common", "BpSeq.convert_to_dot_bracket"), ("common", "BpSeq.dot_bracket")],
    "C03": [("annotator", "find_pairs")],
    "C04": [("annotator", "find_stackings")],
    "C05": [("annotator", "find_pairs"), ("annotator", "find_stackings"), ("annotator", "extract_base_interactions")],
    "C06": [("tertiary", "Mapping2D3D.*")],
    "C07": [("common", "BpSeq.elements"), ("motif_extractor", "main")],
    "C08": [("parser", "read_3d_structure")],
    "C09": [("parser_v2", "write_pdb"), ("parser_v2", "write_cif"), ("parser_v2", "parse_pdb_atoms"), ("parser_v2", "parse_cif_atoms")],
    "C10": [("parser_v2", "fit_to_pdb"), ("parser_v2", "can_write_pdb")],
    "C11": [("annotator", "find_pairs"), ("annotator", "find_stackings"), ("annotator", "extract_base_interactions")],
    "C12": [("common", "BpSeq.*"), ("common", "DotBracket.*")],
    "C13": [("common", "BpSeq.convert_to_dot_bracket"), ("common", "BpSeq.fcfs")],
    "C15": [("parser", "read_3d_structure"), ("parser_v2", "parse_pdb_atoms"), ("parser_v2", "parse_cif_atoms"), ("tertiary_v2", "Structure.*"), ("tertiary_v2", "Residue.*")],
    "C16": [("common", "BpSeq.all_dot_brackets")],
    "C17": [("clashfinder", "find_clashes"), ("clashfinder", "main")],
    "C18": [("tertiary", "torsion_angle"), ("tertiary", "Residue3D.chi"), ("tertiary", "calculate_torsion_angle_coords"), ("tertiary_v2", "calculate_torsion_angle"), ("tertiary_v2", "Structure.torsion_angles"), ("annotator", "detect_cis_trans")],
    "C19": [("adapter", "parse_fr3d_output"), ("adapter", "parse_dssr_output")],
    "C20": [("transformer", "copy_from_to"), ("transformer", "replace_value"), ("transformer", "main")],
}

ALL = "<everything>"


class Classes:
    def __init__(self, repo: Repo):
        self.repo = repo
        self.home: Dict[str, Tuple[str, ast.ClassDef]] = {}
        for m, mod in repo.modules.items():
            for name, c in mod.classes.items():
                self.home.setdefault(name, (m, c))

    def find(self, module: str, name: str) -> Optional[Tuple[str, ast.ClassDef]]:
        mod = self.repo.modules.get(module)
        if mod is not None and name in mod.classes:
            return module, mod.classes[name]
        if mod is not None and name in mod.imports:
            src, orig = mod.imports[name]
            sm = src.split(".")[-1]
            if sm in self.repo.modules and (orig or name) in self.repo.modules[sm].classes:
                return sm, self.repo.modules[sm].classes[orig or name]
        return self.home.get(name)

    def bases(self, module: str, c: ast.ClassDef) -> List[Tuple[str, ast.ClassDef]]:
        out = []
        for b in c.bases:
            nm = b.id if isinstance(b, ast.Name) else (b.attr if isinstance(b, ast.Attribute) else None)
            if nm:
                r = self.find(module, nm)
                if r is not None:
                    out.append(r)
        return out

    def mro(self, module: str, c: ast.ClassDef) -> List[Tuple[str, ast.ClassDef]]:
        out = [(module, c)]
        for bm, bc in self.bases(module, c):
            for x in self.mro(bm, bc):
                if x not in out:
                    out.append(x)
        return out

    @staticmethod
    def dataclass_args(c: ast.ClassDef) -> Optional[Dict[str, object]]:
        for d in c.decorator_list:
            f = d.func if isinstance(d, ast.Call) else d
            nm = f.id if isinstance(f, ast.Name) else (f.attr if isinstance(f, ast.Attribute) else None)
            if nm == "dataclass":
                kw = {}
                if isinstance(d, ast.Call):
                    for k in d.keywords:
                        if isinstance(k.value, ast.Constant):
                            kw[k.arg] = k.value.value
                return kw
        return None

    def own_fields(self, c: ast.ClassDef) -> Dict[str, bool]:
        """field name -> takes part in generated equality (compare flag)."""
        out: Dict[str, bool] = {}
        if self.dataclass_args(c) is not None:
            for b in c.body:
                if isinstance(b, ast.AnnAssign) and isinstance(b.target, ast.Name):
                    if "ClassVar" in norm(b.annotation):
                        continue
                    cmp_ = True
                    v = b.value
                    if isinstance(v, ast.Call) and astq.callee_name(v) == "field":
                        for k in v.keywords:
                            if k.arg == "compare" and isinstance(k.value, ast.Constant) and k.value.value is False:
                                cmp_ = False
                    out[b.target.id] = cmp_
        else:
            for b in c.body:
                if isinstance(b, ast.FunctionDef) and b.name == "__init__":
                    for n in ast.walk(b):
                        if isinstance(n, (ast.Assign, ast.AnnAssign)):
                            tgts = n.targets if isinstance(n, ast.Assign) else [n.target]
                            for t in tgts:
                                if isinstance(t, ast.Attribute) and isinstance(t.value, ast.Name) and t.value.id == "self":
                                    out[t.attr] = True
        return out

    def fields(self, module: str, c: ast.ClassDef) -> Dict[str, bool]:
        out: Dict[str, bool] = {}
        for m, k in reversed(self.mro(module, c)):
            out.update(self.own_fields(k))
        return out

    def member(self, module: str, c: ast.ClassDef, name: str) -> Optional[ast.FunctionDef]:
        for m, k in self.mro(module, c):
            for b in k.body:
                if isinstance(b, ast.FunctionDef) and b.name == name:
                    return b
        return None

    def equality(self, module: str, c: ast.ClassDef) -> Tuple[str, Set[str]]:
        """('identity', {}) | ('generated', covered) | ('explicit', covered)."""
        fields = self.fields(module, c)
        for m, k in self.mro(module, c):
            for b in k.body:
                if isinstance(b, ast.FunctionDef) and b.name == "__eq__":
                    cov = set()
                    for n in ast.walk(b):
                        if isinstance(n, ast.Attribute) and isinstance(n.value, ast.Name) and n.value.id == "self" and n.attr in fields:
                            cov.add(n.attr)
                    return "explicit", cov
            da = self.dataclass_args(k)
            if da is not None and da.get("eq", True) is not False:
                # the generated __eq__ of this dataclass compares the fields known at this level of the hierarchy
                known = {}
                for mm, kk in reversed(self.mro(m, k)):
                    known.update(self.own_fields(kk))
                return "generated", {f for f, cmp_ in known.items() if cmp_}
        return "identity", set()

    def reads_of_member(self, module: str, c: ast.ClassDef, name: str, seen: Optional[Set[str]] = None) -> Set[str]:
        """Fields of `self` that evaluating member `name` (field, property, method) may read."""
        seen = set() if seen is None else seen
        fields = self.fields(module, c)
        if name in seen:
            return set()
        seen.add(name)
        fn = self.member(module, c, name)
        out: Set[str] = set()
        if name in fields:
            out.add(name)
        if fn is None:
            return out
        for n in ast.walk(fn):
            if isinstance(n, ast.Attribute) and isinstance(n.value, ast.Name) and n.value.id == "self":
                out |= self.reads_of_member(module, c, n.attr, seen)
            elif isinstance(n, ast.Call) and isinstance(n.func, ast.Name) and n.func.id in ("str", "repr", "hash") and n.args and isinstance(n.args[0], ast.Name) and n.args[0].id == "self":
                out |= self.reads_of_member(module, c, {"str": "__str__", "repr": "__repr__", "hash": "__hash__"}[n.func.id], seen)
        return out


_PURE_BUILTINS = {"len", "isinstance", "id", "type", "print", "bool"}
_DUNDER = {"str": "__str__", "repr": "__repr__", "hash": "__hash__"}


def _ann_class(cls: Classes, module: str, ann: Optional[ast.AST]) -> Optional[Tuple[str, ast.ClassDef]]:
    if ann is None:
        return None
    for n in ast.walk(ann):
        nm = n.id if isinstance(n, ast.Name) else (n.value if isinstance(n, ast.Constant) and isinstance(n.value, str) else None)
        if isinstance(nm, str) and nm.isidentifier():
            r = cls.find(module, nm)
            if r is not None:
                return r
    return None


def reads_of_param(repo: Repo, cls: Classes, fi: FuncInfo, param: str, owner: Tuple[str, ast.ClassDef], depth: int = 3) -> Set[str]:
    om, oc = owner
    out: Set[str] = set()
    par = astq.parents(fi.node)
    for n in ast.walk(fi.node):
        if not (isinstance(n, ast.Name) and n.id == param and isinstance(n.ctx, ast.Load)):
            continue
        p = par.get(id(n))
        if isinstance(p, ast.Attribute) and p.value is n:
            out |= cls.reads_of_member(om, oc, p.attr)
            continue
        if isinstance(p, ast.Compare):
            # ==, <, in ...: the class' own comparison members
            for nm in ("__eq__", "__lt__"):
                out |= cls.reads_of_member(om, oc, nm) & set()  # comparisons read what equality covers or ordering keys: not cached state
            continue
        if isinstance(p, ast.Call) and n in p.args:
            f = p.func
            if isinstance(f, ast.Name) and f.id in _PURE_BUILTINS:
                continue
            if isinstance(f, ast.Name) and f.id in _DUNDER:
                out |= cls.reads_of_member(om, oc, _DUNDER[f.id])
                continue
            callee = None
            if isinstance(f, ast.Name):
                try:
                    hm, hn = repo.const_home(fi.module.name, f.id)
                    if repo.has_func(hm, hn):
                        callee = repo.func(hm, hn)
                except Exception:
                    callee = None
            if callee is not None and depth > 0:
                idx = p.args.index(n)
                args = [a.arg for a in callee.node.args.args]
                if idx < len(args):
                    out |= reads_of_param(repo, cls, callee, args[idx], owner, depth - 1)
                    continue
            out.add(ALL)
            continue
        if isinstance(p, (ast.Return, ast.Tuple, ast.List, ast.Dict, ast.Set, ast.Subscript, ast.keyword, ast.Starred, ast.Assign)):
            out.add(ALL)
    return out


def memo_sites(repo: Repo, cls: Classes):
    """('func', FuncInfo, decorator) for memoised functions; ('pool', FuncInfo, call node, pool name) for module-level pools."""
    for fi in repo.all_funcs():
        decs = [d for d in fi.decorators if d in MEMO_DECORATORS]
        if decs:
            yield ("func", fi, decs[0], None)
        mod = fi.module
        for n in ast.walk(fi.node):
            if isinstance(n, ast.Call) and isinstance(n.func, ast.Attribute) and isinstance(n.func.value, ast.Name) and n.func.attr in ("setdefault", "get") and n.args:
                pool = n.func.value.id
                if pool in mod.consts and _is_dict(mod.consts[pool]) and not astq.assignments(fi.node, pool):
                    yield ("pool", fi, n, pool)


def dict_memo_sites(repo: Repo):
    """Module-level dicts used as a memo by plain subscripting: `k in MEMO` / `MEMO.get(k)` / `MEMO[k]` to look an answer up and
    `MEMO[k] = v` to store it, inside one function.  Yields (FuncInfo, store statement, pool name, key expression)."""
    for fi in repo.all_funcs():
        mod = fi.module
        stores = []
        for n in ast.walk(fi.node):
            if isinstance(n, ast.Assign) and len(n.targets) == 1 and isinstance(n.targets[0], ast.Subscript) and isinstance(n.targets[0].value, ast.Name):
                pool = n.targets[0].value.id
                if pool in mod.consts and _is_dict(mod.consts[pool]) and not astq.assignments(fi.node, pool):
                    stores.append((n, pool))
        for st, pool in stores:
            looked_up = False
            for n in ast.walk(fi.node):
                if isinstance(n, ast.Compare) and any(isinstance(o, (ast.In, ast.NotIn)) for o in n.ops) and any(isinstance(c, ast.Name) and c.id == pool for c in n.comparators):
                    looked_up = True
                elif isinstance(n, ast.Subscript) and isinstance(n.ctx, ast.Load) and isinstance(n.value, ast.Name) and n.value.id == pool:
                    looked_up = True
                elif isinstance(n, ast.Call) and isinstance(n.func, ast.Attribute) and isinstance(n.func.value, ast.Name) and n.func.value.id == pool and n.func.attr in ("get", "setdefault", "pop"):
                    looked_up = True
            if looked_up:
                key = st.targets[0].slice
                for _ in range(3):
                    if isinstance(key, ast.Name):
                        d = astq.single_def(fi.node, key.id)
                        if d is None:
                            break
                        key = d
                yield fi, st, pool, key


def key_covers(cls: "Classes", owner: Tuple[str, ast.ClassDef], key: ast.AST, param: str) -> Optional[Set[str]]:
    """Fields of the object `param` that the key expression determines: `hash(p)` -> what __hash__ reads, `p.attr` -> what that
    member reads, `p` itself -> what equality covers, `str(p)`/`repr(p)` likewise through the dunder.  None: p is not in the key."""
    om, oc = owner
    par = astq.parents(key)
    out: Set[str] = set()
    seen = False
    for n in ast.walk(key):
        if not (isinstance(n, ast.Name) and n.id == param):
            continue
        seen = True
        p = par.get(id(n))
        if isinstance(p, ast.Attribute) and p.value is n:
            out |= cls.reads_of_member(om, oc, p.attr)
        elif isinstance(p, ast.Call) and isinstance(p.func, ast.Name) and p.func.id in _DUNDER and n in p.args:
            out |= cls.reads_of_member(om, oc, _DUNDER[p.func.id])
        elif isinstance(p, ast.Call) and isinstance(p.func, ast.Name) and p.func.id == "id":
            out |= set(cls.fields(om, oc))  # the object itself (address): nothing of another object can collide while it lives
        else:
            how, covered = cls.equality(om, oc)
            out |= set(cls.fields(om, oc)) if how == "identity" else covered
    return out if seen else None


def _derived_from(fi: FuncInfo, key: ast.AST, param: str) -> bool:
    """The key mentions a local whose value is computed (transitively) from `param`."""
    dep: Set[str] = {param}
    changed = True
    while changed:
        changed = False
        for n in astq.walk_no_nested(fi.node):
            tgts: List[ast.AST] = []
            val = None
            if isinstance(n, ast.Assign):
                tgts, val = list(n.targets), n.value
            elif isinstance(n, (ast.AnnAssign, ast.AugAssign)) and n.value is not None:
                tgts, val = [n.target], n.value
            elif isinstance(n, (ast.For, ast.AsyncFor)):
                tgts, val = [n.target], n.iter
            if val is None:
                continue
            if any(isinstance(x, ast.Name) and x.id in dep for x in ast.walk(val)):
                for t in tgts:
                    for nm in astq.target_names(t):
                        if nm not in dep:
                            dep.add(nm)
                            changed = True
    dep.discard(param)
    return any(isinstance(x, ast.Name) and x.id in dep for x in ast.walk(key))


def _is_dict(e: ast.AST) -> bool:
    return isinstance(e, ast.Dict) or (isinstance(e, ast.Call) and astq.callee_name(e) in ("dict", "defaultdict", "OrderedDict", "WeakValueDictionary"))


def _value_class(cls: Classes, fi: FuncInfo, e: ast.AST) -> Optional[Tuple[str, ast.ClassDef]]:
    """Class of the object an expression evaluates to, when it is visibly a constructor call or an annotated name."""
    seen = 0
    while isinstance(e, ast.Name) and seen < 4:
        d = astq.single_def(fi.node, e.id)
        if d is None:
            for a in fi.node.args.args:
                if a.arg == e.id:
                    return _ann_class(cls, fi.module.name, a.annotation)
            return None
        e = d
        seen += 1
    if isinstance(e, ast.Call):
        nm = e.func.id if isinstance(e.func, ast.Name) else None
        if nm:
            return cls.find(fi.module.name, nm)
    return None


def findings(repo: Repo):
    """All memo sites whose key leaves out state: (FuncInfo, node, message, key)."""
    cls = Classes(repo)
    out = []
    n_sites = 0
    for kind, fi, a, b in memo_sites(repo, cls):
        n_sites += 1
        if kind == "func":
            params = [x.arg for x in fi.node.args.args]
            for i, p in enumerate(params):
                owner = None
                if i == 0 and p == "self" and fi.cls is not None:
                    owner = (fi.module.name, fi.cls)
                else:
                    owner = _ann_class(cls, fi.module.name, fi.node.args.args[i].annotation)
                if owner is None:
                    continue
                how, covered = cls.equality(*owner)
                if how == "identity":
                    continue
                fields = cls.fields(*owner)
                reads = reads_of_param(repo, cls, fi, p, owner)
                missing = (set(fields) - covered) if ALL in reads else ((reads & set(fields)) - covered)
                if missing:
                    out.append(
                        (
                            fi,
                            fi.node,
                            f"`@{a}` memoises {fi.qualname} per hash/== of `{p}`: {owner[1].name} ({how} __eq__ over {sorted(covered)}) does not compare {sorted(missing)}, which the function reads"
                            f"{' (the object is handed on)' if ALL in reads else ''}: another object with the same identifiers but other {sorted(missing)[0]} gets the first one's cached answer for the rest of the process",
                            f"memo:{fi.qualname}:{p}",
                        )
                    )
        else:
            call, pool = a, b
            key_cls = _value_class(cls, fi, call.args[0])
            val_cls = _value_class(cls, fi, call.args[1]) if call.func.attr == "setdefault" and len(call.args) > 1 else key_cls
            for owner, what in ((key_cls, "key"), (val_cls, "value")):
                if owner is None:
                    continue
                how, covered = cls.equality(*owner)
                if how == "identity":
                    continue
                missing = set(cls.fields(*owner)) - covered
                if missing and what == "key":
                    out.append(
                        (
                            fi,
                            call,
                            f"`{norm(call)[:70]}` pools objects in the module-level `{pool}` by hash/== of a {owner[1].name}, whose ({how}) __eq__ does not compare {sorted(missing)}: "
                            f"a later object with equal {sorted(covered)} is replaced by the first one and carries its {sorted(missing)} for the rest of the process",
                            f"pool:{fi.qualname}:{pool}",
                        )
                    )
                    break
    for fi, st, pool, key in dict_memo_sites(repo):
        n_sites += 1
        for a in fi.node.args.args:
            owner = (fi.module.name, fi.cls) if (a.arg == "self" and fi.cls is not None) else _ann_class(cls, fi.module.name, a.annotation)
            if owner is None:
                continue
            fields = set(cls.fields(*owner))
            reads = reads_of_param(repo, cls, fi, a.arg, owner)
            reads = fields if ALL in reads else (reads & fields)
            covered = key_covers(cls, owner, key, a.arg)
            if covered is None and _derived_from(fi, key, a.arg):
                # the key is built from locals computed from this object (e.g. the region triples of `self`): which part of
                # the object they determine is not read here - nothing is claimed (the property's own history rules decide)
                continue
            missing = reads - (covered or set())
            if missing:
                out.append(
                    (
                        fi,
                        st,
                        f"`{norm(st)[:80]}` memoises {fi.qualname} in the module-level dict `{pool}` under the key `{norm(key)[:70]}`, which "
                        + (f"determines only {sorted(covered)} of `{a.arg}`" if covered is not None else f"does not contain `{a.arg}` at all")
                        + f" while the memoised computation reads {sorted(missing)} of that {owner[1].name}: another object with the same identifiers but other {sorted(missing)[0]} "
                        f"(another structure, model or conformer met later in the same process) gets the first one's stored answer",
                        f"dictmemo:{fi.qualname}:{pool}:{a.arg}",
                    )
                )
                break
    return out, n_sites


def _import_closure(repo: Repo, module: str) -> Set[str]:
    seen: Set[str] = set()
    todo = [module]
    while todo:
        m = todo.pop()
        if m in seen or m not in repo.modules:
            continue
        seen.add(m)
        for nm, (src, orig) in repo.modules[m].imports.items():
            parts = src.split(".")
            if parts[0] == "rnapolis" and len(parts) > 1:
                todo.append(parts[1])
            elif src == "rnapolis" and orig:
                todo.append(orig)
    return seen


def relevant(repo: Repo, pid: str) -> Optional[Set[Tuple[str, str]]]:
    from .callgraph import CallGraph

    ents = ENTRIES.get(pid)
    if not ents:
        return None
    cg = CallGraph(repo)
    entries: List[Tuple[str, str]] = []
    mods: Set[str] = set()
    for m, q in ents:
        if m not in repo.modules:
            continue
        mods |= _import_closure(repo, m)
        if q.endswith(".*"):
            entries += [(m, k) for k in repo.modules[m].funcs if k.startswith(q[:-1])]
        elif q in repo.modules[m].funcs:
            entries.append((m, q))
    reach = cg.reachable(entries)
    return {(m, q) for m, q in reach if m in mods}


def identity_findings(repo: Repo):
    """Record classes whose equality leaves out an identity field, or whose explicit hash reads a field equality ignores."""
    import json
    import os

    cls = Classes(repo)
    spec_path = os.path.join(os.path.dirname(os.path.dirname(os.path.abspath(__file__))), "spec", "identity.json")
    payload = json.load(open(spec_path))["payload"]
    out = []
    n = 0
    for m, mod in sorted(repo.modules.items()):
        for name, c in sorted(mod.classes.items()):
            if cls.dataclass_args(c) is None:
                continue
            n += 1
            how, covered = cls.equality(m, c)
            if how == "identity":
                continue
            fields = cls.fields(m, c)
            derived = _derived_fields(c)
            ident = [f for f in fields if f not in payload.get(f"{m}.{name}", []) and f not in derived]
            missing = [f for f in ident if f not in covered]
            site = cls.member(m, c, "__eq__") or c
            if missing:
                out.append((m, c, site, f"{name}.__eq__ ({how}) compares {sorted(covered)} and leaves out {missing}: two different {name} objects of one input that differ only there become equal - they merge in every set, dict key, `in` test and `==` the code uses, so one of them silently takes the place of the other", f"identity:{name}:{','.join(missing)}"))
            h = cls.member(m, c, "__hash__")
            if h is not None:
                hf = {x.attr for x in ast.walk(h) if isinstance(x, ast.Attribute) and isinstance(x.value, ast.Name) and x.value.id == "self" and x.attr in fields}
                extra = sorted(hf - covered)
                if extra:
                    out.append((m, c, h, f"{name}.__hash__ reads {extra}, which {name}.__eq__ does not compare: equal objects hash differently, so set and dict look-ups miss them", f"hash-eq:{name}:{','.join(extra)}"))
    return out, n


def _derived_fields(c: ast.ClassDef) -> Set[str]:
    """Fields declared with init=False (filled by __post_init__ from the other fields): not part of the identity."""
    out: Set[str] = set()
    for b in c.body:
        if isinstance(b, ast.AnnAssign) and isinstance(b.target, ast.Name) and isinstance(b.value, ast.Call) and astq.callee_name(b.value) == "field":
            for k in b.value.keywords:
                if k.arg == "init" and isinstance(k.value, ast.Constant) and k.value.value is False:
                    out.add(b.target.id)
    return out


def _classes_used(repo: Repo, cls: Classes, funcs: Set[Tuple[str, str]]) -> Set[Tuple[str, str]]:
    """Record classes a set of functions works with: named in their code (constructor, annotation, isinstance), the classes those
    functions are methods of, and - transitively - the declared types of the fields of such classes and their base classes."""
    seen: Set[Tuple[str, str]] = set()
    todo: List[Tuple[str, ast.ClassDef]] = []
    for m, q in funcs:
        if m not in repo.modules or q not in repo.modules[m].funcs:
            continue
        fi = repo.modules[m].funcs[q]
        if fi.cls is not None:
            todo.append((m, fi.cls))
        for n in ast.walk(fi.node):
            nm = n.id if isinstance(n, ast.Name) else (n.value if isinstance(n, ast.Constant) and isinstance(n.value, str) and n.value.isidentifier() else None)
            if isinstance(nm, str):
                r = cls.find(m, nm)
                if r is not None:
                    todo.append(r)
    while todo:
        m, c = todo.pop()
        if (m, c.name) in seen:
            continue
        seen.add((m, c.name))
        for bm, bc in cls.bases(m, c):
            todo.append((bm, bc))
        for b in c.body:
            if isinstance(b, ast.AnnAssign):
                for n in ast.walk(b.annotation):
                    nm = n.id if isinstance(n, ast.Name) else (n.value if isinstance(n, ast.Constant) and isinstance(n.value, str) and n.value.isidentifier() else None)
                    if isinstance(nm, str):
                        r = cls.find(m, nm)
                        if r is not None:
                            todo.append(r)
    return seen


def check(chk, pid: str) -> None:
    """Cross-cutting rules `memo-key-state` and `identity-equality`, attributed to `pid` through reachability."""
    _check_memo(chk, pid)
    _check_identity(chk, pid)


def _check_identity(chk, pid: str) -> None:
    repo = chk.repo
    if repo is None or pid not in ENTRIES:
        return
    rule = "identity-equality"
    chk.robust.add(rule)
    try:
        import json
        import os

        found, n = identity_findings(repo)
        spec_path = os.path.join(os.path.dirname(os.path.dirname(os.path.abspath(__file__))), "spec", "identity.json")
        users = json.load(open(spec_path)).get("properties", {})
    except Exception as e:  # never a verdict
        chk.error(rule, "-", f"identity analysis failed: {type(e).__name__}: {e}")
        return
    k = 0
    for m, c, site, msg, key in found:
        # a class the table does not know (new record class): attributed through the classes the property's reachable code names
        listed = users.get(f"{m}.{c.name}")
        if listed is None:
            try:
                hit = (m, c.name) in _classes_used(repo, Classes(repo), relevant(repo, pid) or set())
            except Exception:
                hit = False
        else:
            hit = pid in listed
        if hit:
            k += 1
            mod = repo.modules[m]
            chk.violation(rule, f"{mod.relpath}:{getattr(site, 'lineno', c.lineno)} {c.name}", msg, f"{m}:{c.name}:{key}")
    if k == 0:
        chk.ok(rule, "package", f"{n} record classes; every one this property's code works with compares all of its identity fields (spec/identity.json lists the payload fields), and no explicit __hash__ reads a field __eq__ ignores")


def _check_memo(chk, pid: str) -> None:
    """Cross-cutting rule `memo-key-state`, attributed to `pid` through reachability."""
    repo = chk.repo
    if repo is None or pid not in ENTRIES:
        return
    rule = "memo-key-state"
    chk.robust.add(rule)
    try:
        found, n_sites = findings(repo)
        rel = relevant(repo, pid) or set()
    except Exception as e:  # never a verdict
        chk.error(rule, "-", f"memo analysis failed: {type(e).__name__}: {e}")
        return
    n = 0
    for fi, node, msg, key in found:
        # nested helpers are reached through their enclosing function
        q = fi.qualname.split(".<locals>.")[0]
        if (fi.module.name, fi.qualname) in rel or (fi.module.name, q) in rel:
            n += 1
            chk.violation(rule, fi.site(node), msg, f"{fi.module.name}:{fi.qualname}:{key}")
    if n == 0:
        chk.ok(rule, "package", f"{n_sites} process-wide memo site(s) in the package; none reachable from this property's entry points is keyed by an object whose equality omits state the memoised code reads")
