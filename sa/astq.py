"""Small AST query helpers: pattern matching with metavariables, walkers, def-use lookups."""
from __future__ import annotations

import ast
import re
from typing import Callable, Dict, Iterable, Iterator, List, Optional, Sequence, Tuple

_META = re.compile(r"^[A-Z][A-Z0-9]*_$")
_cache: Dict[str, ast.AST] = {}


def parse_pattern(src: str) -> ast.AST:
    if src not in _cache:
        tree = ast.parse(src)
        if len(tree.body) != 1:
            raise ValueError("pattern must be one statement/expression")
        node = tree.body[0]
        if isinstance(node, ast.Expr):
            node = node.value
        _cache[src] = node
    return _cache[src]


class Binds(dict):
    """Result of a successful match: truthy even when no metavariable was bound."""

    def __bool__(self) -> bool:
        return True


def match(node: ast.AST, pattern: str, binds: Optional[Dict[str, ast.AST]] = None) -> Optional[Dict[str, ast.AST]]:
    """Structural match of `node` against `pattern`; names like A_, IDX_ are metavariables
    (bind any expression, equal text on repetition), `___` matches anything."""
    b = Binds(binds or {})
    pat = parse_pattern(pattern)
    if isinstance(node, ast.Expr) and not isinstance(pat, ast.stmt):
        node = node.value
    return b if _m(node, pat, b) else None


def _m(n, p, b) -> bool:
    if isinstance(p, ast.Name):
        if p.id == "___":
            return True
        if _META.match(p.id):
            if not isinstance(n, ast.AST):
                return False
            if p.id in b:
                return same(b[p.id], n)
            b[p.id] = n
            return True
    if isinstance(p, ast.arg) and isinstance(n, ast.arg) and _META.match(p.arg):
        nm = ast.Name(id=n.arg, ctx=ast.Load())
        if p.arg in b:
            return same(b[p.arg], nm)
        b[p.arg] = nm
        return True
    if type(n) is not type(p):
        return False
    for f in p._fields:
        if f in ("ctx", "type_comment", "kind"):
            continue
        pv, nv = getattr(p, f, None), getattr(n, f, None)
        if isinstance(pv, list):
            if not isinstance(nv, list) or len(pv) != len(nv):
                return False
            for a, c in zip(nv, pv):
                if isinstance(c, ast.AST):
                    if not _m(a, c, b):
                        return False
                elif a != c:
                    return False
        elif isinstance(pv, ast.AST):
            if not isinstance(nv, ast.AST) or not _m(nv, pv, b):
                return False
        else:
            if pv != nv:
                return False
    return True


def same(a: ast.AST, b: ast.AST) -> bool:
    return ast.unparse(a) == ast.unparse(b)


def text(n: ast.AST) -> str:
    return ast.unparse(n)


def find(node: ast.AST, pattern: str) -> List[Tuple[ast.AST, Dict[str, ast.AST]]]:
    out = []
    for n in ast.walk(node):
        b = match(n, pattern)
        if b is not None:
            out.append((n, b))
    return out


def walk_no_nested(node: ast.AST) -> Iterator[ast.AST]:
    """ast.walk that does not descend into nested function/class definitions or lambdas."""
    stack = [node]
    first = True
    while stack:
        n = stack.pop()
        if not first and isinstance(n, (ast.FunctionDef, ast.AsyncFunctionDef, ast.ClassDef, ast.Lambda)):
            continue
        first = False
        yield n
        stack.extend(reversed(list(ast.iter_child_nodes(n))))


def calls(node: ast.AST, name: Optional[str] = None) -> List[ast.Call]:
    """Calls under node, in source order; `name` matches the last component (f, x.f, a.b.f)."""
    out = []
    for n in ast.walk(node):
        if isinstance(n, ast.Call):
            if name is None or callee_name(n) == name:
                out.append(n)
    out.sort(key=lambda c: (c.lineno, c.col_offset))
    return out


def callee_name(c: ast.Call) -> Optional[str]:
    f = c.func
    if isinstance(f, ast.Name):
        return f.id
    if isinstance(f, ast.Attribute):
        return f.attr
    return None


def dotted(n: ast.AST) -> Optional[str]:
    if isinstance(n, ast.Name):
        return n.id
    if isinstance(n, ast.Attribute):
        base = dotted(n.value)
        return None if base is None else f"{base}.{n.attr}"
    return None


def names(node: ast.AST) -> List[str]:
    return [n.id for n in ast.walk(node) if isinstance(n, ast.Name)]


def parents(root: ast.AST) -> Dict[int, ast.AST]:
    p: Dict[int, ast.AST] = {}
    for n in ast.walk(root):
        for c in ast.iter_child_nodes(n):
            p[id(c)] = n
    return p


def target_names(t: ast.AST) -> List[str]:
    if isinstance(t, ast.Name):
        return [t.id]
    if isinstance(t, (ast.Tuple, ast.List)):
        out = []
        for e in t.elts:
            out.extend(target_names(e))
        return out
    if isinstance(t, ast.Starred):
        return target_names(t.value)
    return []


def assignments(func: ast.AST, name: str) -> List[Tuple[ast.stmt, Optional[ast.expr]]]:
    """All bindings of local `name` in func (Assign, AnnAssign, AugAssign, For target, With as,
    comprehension targets excluded).  For tuple targets the value is the whole right-hand side."""
    out = []
    for n in walk_no_nested(func):
        if isinstance(n, ast.Assign):
            for t in n.targets:
                if name in target_names(t):
                    out.append((n, n.value))
        elif isinstance(n, ast.AnnAssign):
            if name in target_names(n.target):
                out.append((n, n.value))
        elif isinstance(n, ast.AugAssign):
            if name in target_names(n.target):
                out.append((n, None))
        elif isinstance(n, (ast.For, ast.AsyncFor)):
            if name in target_names(n.target):
                out.append((n, None))
        elif isinstance(n, ast.With):
            for it in n.items:
                if it.optional_vars is not None and name in target_names(it.optional_vars):
                    out.append((n, None))
        elif isinstance(n, ast.NamedExpr):
            if name in target_names(n.target):
                out.append((n, n.value))
    return out


def single_def(func: ast.AST, name: str) -> Optional[ast.expr]:
    """Value expression if `name` is bound exactly once by a simple `name = expr`."""
    a = assignments(func, name)
    if len(a) == 1 and isinstance(a[0][0], (ast.Assign, ast.AnnAssign)):
        st = a[0][0]
        tgt = st.targets[0] if isinstance(st, ast.Assign) else st.target
        if isinstance(tgt, ast.Name):
            return a[0][1]
    return None


def unpack_component(func: ast.AST, name: str) -> Optional[Tuple[ast.expr, int, int]]:
    """If `name` is bound (once) by tuple unpacking `a, name, c = rhs`, return (rhs, index, arity)."""
    found = []
    for st, val in assignments(func, name):
        if isinstance(st, ast.Assign):
            for t in st.targets:
                if isinstance(t, (ast.Tuple, ast.List)):
                    for i, e in enumerate(t.elts):
                        if isinstance(e, ast.Name) and e.id == name:
                            found.append((st.value, i, len(t.elts)))
                        elif name in target_names(e):
                            return None
                elif isinstance(t, ast.Name) and t.id == name:
                    return None
        else:
            return None
    return found[0] if len(found) == 1 else None


def const_str_elts(node: ast.AST) -> Optional[List[str]]:
    if isinstance(node, (ast.List, ast.Tuple, ast.Set)):
        out = []
        for e in node.elts:
            if isinstance(e, ast.Constant) and isinstance(e.value, str):
                out.append(e.value)
            else:
                return None
        return out
    return None


def first_assign(func: ast.AST, name: str) -> Optional[ast.expr]:
    """Value of the first plain `name = expr` binding (later augmented assignments allowed)."""
    for st, val in assignments(func, name):
        if isinstance(st, (ast.Assign, ast.AnnAssign)) and val is not None:
            tgt = st.targets[0] if isinstance(st, ast.Assign) else st.target
            if isinstance(tgt, ast.Name):
                return val
        return None
    return None
