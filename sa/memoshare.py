"""Process-wide memoisation that hands one mutable object to every caller (cross-cutting rule `memo-shared-result`).

`functools.lru_cache` / `functools.cache` return, for equal arguments, *the very object* the first call produced.  That is
harmless for values nobody can change (str, int, float, tuple of those, frozen records) and it is a defect of a different
kind when the object is mutable - a DataFrame, a list, a dict, a set, an instance of a non-frozen class - and reaches code
that may edit it: the next caller with an equal argument gets the edited object, so what the function returns for an
input depends on what earlier callers did with *their* result (the history of the process), not on the input.

Facts computed per memoised function F (sa/memo.py finds the sites; this module never looks at the key):
    result type   from the return annotation (library types by name: DataFrame, Series, ndarray, ...; typing containers;
                  repository classes through their dataclass header), else from the return expressions (displays,
                  comprehensions, constructors, the result type of repository callees - bounded depth)
    mutable       list / dict / set / DataFrame-like / non-frozen repository class (a tuple is as mutable as its members)
    handed out    F is public, or a chain of repository functions that *return* F's result ends in a public one
                  (`return F(x)`, `y = F(x) ... return y`): code outside the package owns the object then
    edited        a repository function that binds F's result to a name and stores into it (`r[k] = v`, `r.attr = v`,
                  `r.append(...)`, `r.sort()`, any call with `inplace=True`, augmented assignment)
Violation: mutable and (handed out or edited).  A result type that cannot be established is an ANALYSIS-ERROR (fail closed).

Attribution to a property as in sa/memo.py: F is reachable from the property's entry points.
"""
from __future__ import annotations

import ast
from typing import Dict, List, Optional, Set, Tuple

from . import astq
from .memo import ENTRIES, MEMO_DECORATORS, relevant
from .model import FuncInfo, Repo, norm

# library / typing names whose instances can be changed in place
MUTABLE_NAMES = {
    "DataFrame": "DataFrame", "Series": "Series", "ndarray": "numpy array", "Index": "Index", "list": "list", "List": "list", "dict": "dict", "Dict": "dict", "set": "set", "Set": "set",
    "bytearray": "bytearray", "defaultdict": "dict", "DefaultDict": "dict", "OrderedDict": "dict", "Counter": "dict", "deque": "deque", "Deque": "deque", "OrderedSet": "ordered set",
    "MutableMapping": "mapping", "MutableSequence": "sequence", "MutableSet": "set", "StringIO": "text buffer", "TextIO": "file", "IO": "file", "DataCategory": "mmCIF category", "DataContainer": "mmCIF container",
}
IMMUTABLE_NAMES = {"str", "int", "float", "bool", "bytes", "None", "NoneType", "complex", "frozenset", "FrozenSet", "Fraction", "Decimal", "Path", "range", "type", "Callable"}
MUTABLE_CALLS = {"list", "dict", "set", "sorted", "bytearray", "defaultdict", "Counter", "deque", "OrderedSet", "OrderedDict"}
MUTABLE_LIB_CALLS = {("pd", "DataFrame"), ("pd", "Series"), ("pd", "concat"), ("pd", "read_csv"), ("pd", "merge"), ("pandas", "DataFrame"), ("np", "array"), ("np", "zeros"), ("np", "ones"), ("np", "empty"), ("np", "asarray"), ("numpy", "array"), ("copy", "copy"), ("copy", "deepcopy")}
IMMUTABLE_CALLS = {"str", "int", "float", "bool", "len", "sum", "abs", "round", "repr", "hash", "ord", "chr", "frozenset", "bytes", "format", "isinstance", "any", "all", "divmod", "pow"}
IN_PLACE_METHODS = {"append", "extend", "insert", "remove", "pop", "clear", "sort", "reverse", "add", "discard", "update", "setdefault", "popitem", "drop_duplicates_inplace", "fill"}

MUT, IMM, UNK = "mutable", "immutable", "unknown"
Verdict = Tuple[str, str]  # (MUT | IMM | UNK, what)


def _join(vs: List[Verdict]) -> Verdict:
    for v in vs:
        if v[0] == MUT:
            return v
    for v in vs:
        if v[0] == UNK:
            return v
    return vs[0] if vs else (UNK, "no return value found")


class Shares:
    def __init__(self, repo: Repo):
        self.repo = repo
        self.by_name: Dict[str, List[FuncInfo]] = {}
        for fi in repo.all_funcs():
            self.by_name.setdefault(fi.node.name, []).append(fi)

    # ---- what a class / annotation / expression is --------------------------------------------------------------
    def class_kind(self, module: str, name: str) -> Optional[Verdict]:
        try:
            hm, hn = self.repo.const_home(module, name)
            c = self.repo.modules[hm].classes.get(hn)
        except Exception:
            c = None
        if c is None:
            return None
        bases = {ast.unparse(b).split(".")[-1] for b in c.bases}
        if bases & {"Enum", "IntEnum", "StrEnum", "Flag"}:
            return (IMM, f"Enum {hn}")
        for d in c.decorator_list:
            if isinstance(d, ast.Call) and ast.unparse(d.func).split(".")[-1] == "dataclass" and any(k.arg == "frozen" and isinstance(k.value, ast.Constant) and k.value.value is True for k in d.keywords):
                # a frozen record is as mutable as what its fields hold
                vs = [self.annotation(hm, b.annotation) for b in c.body if isinstance(b, ast.AnnAssign)]
                bad = [v for v in vs if v[0] == MUT]
                return (MUT, f"frozen {hn} holding a {bad[0][1]}") if bad else (IMM, f"frozen dataclass {hn}")
        if bases & {"NamedTuple"}:
            return (IMM, f"NamedTuple {hn}")
        return (MUT, f"{hn} object")

    def annotation(self, module: str, a: Optional[ast.AST]) -> Verdict:
        if a is None:
            return (UNK, "no annotation")
        if isinstance(a, ast.Constant):
            if a.value is None:
                return (IMM, "None")
            if isinstance(a.value, str):
                try:
                    return self.annotation(module, ast.parse(a.value, mode="eval").body)
                except SyntaxError:
                    return (UNK, a.value)
        if isinstance(a, (ast.Name, ast.Attribute)):
            nm = a.id if isinstance(a, ast.Name) else a.attr
            if nm in MUTABLE_NAMES:
                return (MUT, MUTABLE_NAMES[nm])
            if nm in IMMUTABLE_NAMES:
                return (IMM, nm)
            if nm in ("tuple", "Tuple"):
                return (UNK, "tuple of unknown members")
            k = self.class_kind(module, nm)
            return k if k is not None else (UNK, f"type {ast.unparse(a)}")
        if isinstance(a, ast.BinOp) and isinstance(a.op, ast.BitOr):  # X | None
            return _join([self.annotation(module, a.left), self.annotation(module, a.right)])
        if isinstance(a, ast.Subscript):
            head = ast.unparse(a.value).split(".")[-1]
            args = list(a.slice.elts) if isinstance(a.slice, ast.Tuple) else [a.slice]
            if head in MUTABLE_NAMES:
                return (MUT, MUTABLE_NAMES[head])
            if head in ("Optional", "Union", "Tuple", "tuple", "Final", "Annotated"):
                vs = [self.annotation(module, x) for x in args if not (isinstance(x, ast.Constant) and x.value is Ellipsis)]
                v = _join(vs)
                return (v[0], f"tuple holding a {v[1]}") if head in ("Tuple", "tuple") and v[0] == MUT else v
            if head in ("FrozenSet", "frozenset", "Type", "Callable", "Literal"):
                return (IMM, head)
            if head in ("Sequence", "Iterable", "Collection", "Mapping", "Iterator", "Generator"):
                return (MUT, f"{head} (a list / dict / generator in practice)")
        return (UNK, f"annotation {ast.unparse(a)[:40]}")

    def result(self, fi: FuncInfo, depth: int = 0, busy: Tuple = ()) -> Verdict:
        key = (fi.module.name, fi.qualname)
        if key in busy or depth > 4:
            return (UNK, "recursive")
        v = self.annotation(fi.module.name, fi.node.returns)
        if v[0] != UNK:
            return v
        rets = [n.value for n in astq.walk_no_nested(fi.node) if isinstance(n, ast.Return) and n.value is not None]
        if not rets:
            return (IMM, "None")
        return _join([self.expr(fi, r, depth, busy + (key,)) for r in rets])

    def expr(self, fi: FuncInfo, e: ast.AST, depth: int, busy: Tuple, seen: Tuple = ()) -> Verdict:
        if isinstance(e, (ast.Constant, ast.JoinedStr, ast.Compare)) or (isinstance(e, ast.UnaryOp) and isinstance(e.op, ast.Not)):
            return (IMM, "constant")
        if isinstance(e, (ast.List, ast.ListComp)):
            return (MUT, "list")
        if isinstance(e, (ast.Dict, ast.DictComp)):
            return (MUT, "dict")
        if isinstance(e, (ast.Set, ast.SetComp)):
            return (MUT, "set")
        if isinstance(e, ast.GeneratorExp):
            return (MUT, "generator (consumed by its first user)")
        if isinstance(e, ast.Tuple):
            v = _join([self.expr(fi, x, depth, busy, seen) for x in e.elts]) if e.elts else (IMM, "()")
            return (v[0], f"tuple holding a {v[1]}") if v[0] == MUT else v
        if isinstance(e, ast.IfExp):
            return _join([self.expr(fi, e.body, depth, busy, seen), self.expr(fi, e.orelse, depth, busy, seen)])
        if isinstance(e, ast.BoolOp):
            return _join([self.expr(fi, x, depth, busy, seen) for x in e.values])
        if isinstance(e, ast.BinOp):
            vs = [self.expr(fi, e.left, depth, busy, seen), self.expr(fi, e.right, depth, busy, seen)]
            if all(v[0] == IMM for v in vs):
                return (IMM, "arithmetic")
            return _join(vs)
        if isinstance(e, ast.UnaryOp):
            return self.expr(fi, e.operand, depth, busy, seen)
        if isinstance(e, ast.Name):
            if e.id in seen:
                return (UNK, e.id)
            for a in fi.node.args.args + fi.node.args.kwonlyargs:
                if a.arg == e.id:
                    return self.annotation(fi.module.name, a.annotation)
            vals = [s.value for s in astq.walk_no_nested(fi.node) if isinstance(s, ast.Assign) and any(isinstance(t, ast.Name) and t.id == e.id for t in s.targets)]
            vals += [s.value for s in astq.walk_no_nested(fi.node) if isinstance(s, ast.AnnAssign) and isinstance(s.target, ast.Name) and s.target.id == e.id and s.value is not None]
            if vals:
                return _join([self.expr(fi, v, depth, busy, seen + (e.id,)) for v in vals])
            return (UNK, f"name {e.id}")
        if isinstance(e, ast.Call):
            f = e.func
            if isinstance(f, ast.Name):
                if f.id in MUTABLE_CALLS:
                    return (MUT, MUTABLE_NAMES.get(f.id, f.id))
                if f.id in IMMUTABLE_CALLS:
                    return (IMM, f.id)
                if f.id == "tuple":
                    return (UNK, "tuple of unknown members")
                k = self.class_kind(fi.module.name, f.id)
                if k is not None:
                    return k
                targets = self._resolve(fi, f.id)
                if targets:
                    return _join([self.result(g, depth + 1, busy) for g in targets])
                return (UNK, f"call of {f.id}")
            if isinstance(f, ast.Attribute):
                base = ast.unparse(f.value)
                if (base, f.attr) in MUTABLE_LIB_CALLS:
                    return (MUT, "DataFrame" if base in ("pd", "pandas") else "array")
                if f.attr in ("copy", "deepcopy", "tolist", "to_dict", "to_frame", "reset_index", "astype", "fillna", "dropna", "sort_values", "groupby", "split", "splitlines", "keys", "values", "items"):
                    return (MUT, f"result of .{f.attr}()")
                if f.attr in ("strip", "lstrip", "rstrip", "lower", "upper", "join", "format", "replace", "ljust", "rjust", "zfill", "title", "startswith", "endswith", "isdigit", "isalpha", "find", "index", "count", "hexdigest", "digest", "encode", "decode", "getvalue", "read"):
                    return (IMM, f"result of .{f.attr}()")
                targets = [g for g in self.by_name.get(f.attr, []) if g.cls is not None]
                if targets:
                    return _join([self.result(g, depth + 1, busy) for g in targets])
                return (UNK, f"call of .{f.attr}()")
        if isinstance(e, ast.Subscript):
            return (UNK, f"element `{ast.unparse(e)[:40]}`")
        if isinstance(e, ast.Attribute):
            return (UNK, f"attribute `{ast.unparse(e)[:40]}`")
        return (UNK, type(e).__name__)

    def _resolve(self, fi: FuncInfo, name: str) -> List[FuncInfo]:
        m = fi.module
        if name in m.funcs:
            return [m.funcs[name]]
        imp = m.imports.get(name)
        if imp and imp[1] is not None:
            mod = imp[0].split(".")[-1]
            if mod in self.repo.modules and imp[1] in self.repo.modules[mod].funcs:
                return [self.repo.modules[mod].funcs[imp[1]]]
        return []

    # ---- where the shared object goes -------------------------------------------------------------------------------
    def callers(self, target: FuncInfo) -> List[Tuple[FuncInfo, ast.Call]]:
        out = []
        for fi in self.repo.all_funcs():
            if fi is target:
                continue
            for n in astq.walk_no_nested(fi.node):
                if isinstance(n, ast.Call):
                    nm = n.func.id if isinstance(n.func, ast.Name) else (n.func.attr if isinstance(n.func, ast.Attribute) else None)
                    if nm != target.node.name:
                        continue
                    if isinstance(n.func, ast.Name) and target.cls is None and any(g is target for g in self._resolve(fi, nm)):
                        out.append((fi, n))
                    elif isinstance(n.func, ast.Attribute) and (target.cls is not None or ast.unparse(n.func.value).split(".")[-1] == target.module.name):
                        out.append((fi, n))
        return out

    @staticmethod
    def _bound_names(fi: FuncInfo, call: ast.Call) -> Set[str]:
        """Names of fi that hold the call's result (direct assignment, then plain aliases)."""
        names: Set[str] = set()
        for s in astq.walk_no_nested(fi.node):
            if isinstance(s, ast.Assign) and s.value is call:
                names |= {t.id for t in s.targets if isinstance(t, ast.Name)}
            elif isinstance(s, ast.AnnAssign) and s.value is call and isinstance(s.target, ast.Name):
                names.add(s.target.id)
            elif isinstance(s, ast.NamedExpr) and s.value is call:
                names.add(s.target.id)
        changed = True
        while changed:
            changed = False
            for s in astq.walk_no_nested(fi.node):
                if isinstance(s, ast.Assign) and isinstance(s.value, ast.Name) and s.value.id in names:
                    for t in s.targets:
                        if isinstance(t, ast.Name) and t.id not in names:
                            names.add(t.id)
                            changed = True
        return names

    def returns_it(self, fi: FuncInfo, call: ast.Call) -> bool:
        names = self._bound_names(fi, call)

        def carries(e: ast.AST) -> bool:
            if e is call or (isinstance(e, ast.Name) and e.id in names):
                return True
            if isinstance(e, (ast.Tuple, ast.List)):
                return any(carries(x) for x in e.elts)
            if isinstance(e, ast.IfExp):
                return carries(e.body) or carries(e.orelse)
            if isinstance(e, ast.BoolOp):
                return any(carries(x) for x in e.values)
            return False

        return any(isinstance(r, ast.Return) and r.value is not None and carries(r.value) for r in astq.walk_no_nested(fi.node))

    def edits(self, fi: FuncInfo, call: ast.Call) -> List[ast.AST]:
        names = self._bound_names(fi, call)
        out: List[ast.AST] = []

        def root(e: ast.AST) -> Optional[str]:
            while isinstance(e, (ast.Subscript, ast.Attribute)):
                e = e.value
            return e.id if isinstance(e, ast.Name) else None

        for s in astq.walk_no_nested(fi.node):
            if isinstance(s, (ast.Assign, ast.AugAssign, ast.Delete)):
                tg = s.targets if isinstance(s, (ast.Assign, ast.Delete)) else [s.target]
                for t in tg:
                    if isinstance(t, (ast.Subscript, ast.Attribute)) and root(t) in names:
                        out.append(s)
                    elif isinstance(s, ast.AugAssign) and isinstance(t, ast.Name) and t.id in names:
                        out.append(s)
            elif isinstance(s, ast.Call) and isinstance(s.func, ast.Attribute):
                r = root(s.func.value)
                on_call = any(n is call for n in ast.walk(s.func.value))
                if (r in names or on_call) and (s.func.attr in IN_PLACE_METHODS or any(k.arg == "inplace" and isinstance(k.value, ast.Constant) and k.value.value is True for k in s.keywords)):
                    out.append(s)
        return out

    def exposure(self, target: FuncInfo) -> Tuple[List[str], List[Tuple[FuncInfo, ast.AST]]]:
        """(public functions that hand the object out, in-package edits of it)"""
        public: List[str] = []
        edits: List[Tuple[FuncInfo, ast.AST]] = []
        seen: Set[Tuple[str, str]] = set()
        todo = [target]
        while todo:
            f = todo.pop()
            k = (f.module.name, f.qualname)
            if k in seen:
                continue
            seen.add(k)
            if _is_public(f):
                public.append(f"{f.module.name}.{f.qualname}")
            for g, call in self.callers(f):
                for e in self.edits(g, call):
                    edits.append((g, e))
                if self.returns_it(g, call):
                    todo.append(g)
        return public, edits


def _is_public(fi: FuncInfo) -> bool:
    parts = fi.qualname.split(".")
    return not any(p.startswith("_") and not (p.startswith("__") and p.endswith("__")) for p in parts) and "<locals>" not in fi.qualname


def findings(repo: Repo):
    """[(FuncInfo, kind, message, key)] with kind 'violation' | 'error' | 'ok', one per memoised function of the package."""
    sh = Shares(repo)
    out = []
    for fi in repo.all_funcs():
        decs = [d for d in fi.decorators if d in MEMO_DECORATORS]
        if not decs:
            continue
        v = sh.result(fi)
        name = f"{fi.module.name}.{fi.qualname}"
        if v[0] == IMM:
            out.append((fi, "ok", f"`@{decs[0]}` on {name}: the memoised value ({v[1]}) cannot be changed by the callers that share it", "memo-shared"))
            continue
        if v[0] == UNK:
            out.append((fi, "error", f"`@{decs[0]}` on {name}: what the memoised function returns could not be established ({v[1]}); whether the callers share a mutable object is undecided", "memo-shared"))
            continue
        public, edits = sh.exposure(fi)
        if not public and not edits:
            out.append((fi, "ok", f"`@{decs[0]}` on {name}: the memoised {v[1]} stays inside the package and no function edits it in place", "memo-shared"))
            continue
        via = ""
        if public:
            others = [p for p in public if p != name]
            via = f"it is handed out by {', '.join(sorted(others)[:3])}" if others else "it is returned to code outside the package"
        ed = ""
        if edits:
            g, e = edits[0]
            ed = f"{'; ' if via else ''}{g.module.name}.{g.qualname} edits it in place (`{norm(e)[:60]}`)"
        out.append(
            (
                fi,
                "violation",
                f"`@{decs[0]}` memoises {name}, whose result is a mutable {v[1]}: every call with an equal argument returns the very same object; {via}{ed} - "
                "an edit of the returned object (a column assignment, a renaming, `inplace=True`, append) is what the next call with the same input returns, so the output depends on the history of the process, not on the input",
                "memo-shared",
            )
        )
    # module-level dicts used as a memo by plain subscripting (sa/memo.py:dict_memo_sites): the stored object is what every later
    # caller with an equal key receives
    try:
        from .memo import dict_memo_sites

        sites = list(dict_memo_sites(repo))
    except Exception:
        sites = []
    done: Set[Tuple[str, str, str]] = set()
    for fi, st, pool, key in sites:
        k3 = (fi.module.name, fi.qualname, pool)
        if k3 in done:
            continue
        done.add(k3)
        name = f"{fi.module.name}.{fi.qualname}"
        v = sh.annotation(fi.module.name, fi.node.returns)
        if v[0] == UNK:
            v = sh.expr(fi, st.value, 0, ((fi.module.name, fi.qualname),))
        hands_out = any(
            isinstance(r, ast.Return) and r.value is not None and any(isinstance(n, ast.Name) and n.id == pool for n in ast.walk(r.value)) or (isinstance(r, ast.Return) and isinstance(r.value, ast.Name) and isinstance(st.value, ast.Name) and r.value.id == st.value.id)
            for r in astq.walk_no_nested(fi.node)
        )
        if not hands_out:
            continue  # the dict is a registry, not a memo of the function's answer
        if v[0] == IMM:
            out.append((fi, "ok", f"{name} memoises its answer in the module-level dict `{pool}`: the stored value ({v[1]}) cannot be changed by the callers that share it", f"memo-shared:{pool}"))
            continue
        if v[0] == UNK:
            out.append((fi, "error", f"{name} memoises its answer in the module-level dict `{pool}`: what is stored could not be established ({v[1]}); whether the callers share a mutable object is undecided", f"memo-shared:{pool}"))
            continue
        public, edits = sh.exposure(fi)
        if not public and not edits:
            out.append((fi, "ok", f"{name} memoises a {v[1]} in `{pool}`: it stays inside the package and no function edits it in place", f"memo-shared:{pool}"))
            continue
        others = [p_ for p_ in public if p_ != name]
        via = (f"it is handed out by {', '.join(sorted(others)[:3])}" if others else "it is returned to code outside the package") if public else ""
        ed = f"{'; ' if via else ''}{edits[0][0].module.name}.{edits[0][0].qualname} edits it in place (`{norm(edits[0][1])[:60]}`)" if edits else ""
        out.append(
            (
                fi,
                "violation",
                f"`{norm(st)[:70]}` keeps the answer of {name}, a mutable {v[1]}, in the module-level dict `{pool}` and later calls with an equal key return that very object; {via}{ed} - "
                "an edit of the returned object is what the next call with the same input returns, so the output depends on the history of the process, not on the input",
                f"memo-shared:{pool}",
            )
        )
    return out


def check(chk, pid: str) -> None:
    """Cross-cutting rule `memo-shared-result`, attributed to `pid` through reachability from its entry points."""
    repo = chk.repo
    if repo is None or pid not in ENTRIES:
        return
    rule = "memo-shared-result"
    chk.robust.add(rule)
    try:
        found = findings(repo)
        rel = relevant(repo, pid) or set()
    except Exception as e:  # never a verdict
        chk.error(rule, "-", f"memo sharing analysis failed: {type(e).__name__}: {e}")
        return
    n = 0
    for fi, kind, msg, key in found:
        q = fi.qualname.split(".<locals>.")[0]
        if (fi.module.name, fi.qualname) not in rel and (fi.module.name, q) not in rel:
            continue
        n += 1
        if kind == "violation":
            chk.violation(rule, fi.where, msg, f"{fi.module.name}:{fi.qualname}:{key}")
        elif kind == "error":
            chk.error(rule, fi.where, msg)
        else:
            chk.ok(rule, fi.where, msg)
    if n == 0:
        chk.ok(rule, "package", f"{len(found)} memoised function(s) in the package, none reachable from this property's entry points")
