"""The abstract world a fragment is evaluated in (sa/blockeval.py, sa/consteval.py `world=`).

A rule that evaluates a fragment on representatives of its input classes hands the evaluator stand-ins for the *global*
names the fragment (and the module-level tables it reads) refers to:

* `EnumStub`      - an Enum class: `E[name]` (KeyError), `E(value)` (ValueError), `E.name`, `E.__members__`, iteration in
                    definition order, `len`, membership; members are `EnumMember`s = the tuple `(class, name)` with `.name` / `.value`.
* `record_stub`   - a dataclass constructor: positional/keyword arguments and defaults are bound to the declared fields (base
                    classes first); the value is a `Record` = the tuple `(class, *field values)` with attribute access by field name.
* `Obj`           - a plain object with the attributes the rule gives it (a structure with `.residues`, a residue with `.full_name`).
* `TextFile`      - an opened text file (`with open(p) as f: for line in f` / `f.read()` / `f.readlines()`).
* `function_stub` - a module-level function of the repository as a callable on folded values: its *ast* is evaluated by BlockEval
                    in the same world (callees are inlined ast, never executed code - DESIGN 1.2 item 4).

`build(repo, module)` collects all of them for the names visible in one module.  Nothing of the repository is imported or run.
"""
from __future__ import annotations

import ast
from typing import Any, Callable, Dict, List, Optional, Tuple

from sa.consteval import Folder


class EnumMember(tuple):
    """(class name, member name); compares equal to the plain tuple, so expectations can be written as tuples."""

    _folder_stub = True

    def __new__(cls, c: str, k: str, v: Any = None):
        self = tuple.__new__(cls, (c, k))
        self._value = v
        return self

    @property
    def name(self) -> str:
        return self[1]

    @property
    def value(self) -> Any:
        return self._value

    def __repr__(self) -> str:
        return f"{self[0]}.{self[1]}"


class EnumStub:
    """Enum class stand-in: E[name] (KeyError), E.name, E(value) (ValueError), E.__members__, iteration, len, membership."""

    _folder_stub = True

    def __init__(self, cls: str, members: Dict[str, Any]):
        object.__setattr__(self, "_cls", cls)
        object.__setattr__(self, "_members", {k: EnumMember(cls, k, v) for k, v in members.items()})
        by_value: Dict[Any, EnumMember] = {}
        for k, v in members.items():
            try:
                by_value.setdefault(v, self._members[k])  # aliases resolve to the first member with the value, like Enum
            except TypeError:
                pass
        object.__setattr__(self, "_by_value", by_value)
        object.__setattr__(self, "__members__", self._members)
        object.__setattr__(self, "__name__", cls)
        for k in members:
            object.__setattr__(self, k, self._members[k])

    def __getitem__(self, k):
        return self._members[k]

    def __call__(self, v):
        try:
            hit = v in self._by_value
        except TypeError:
            hit = False
        if not hit:
            raise ValueError(f"{v!r} is not a valid {self._cls}")
        return self._by_value[v]

    def __contains__(self, x):
        return isinstance(x, tuple) and x in self._members.values()

    def __iter__(self):
        return iter(self._members.values())

    def __len__(self):
        return len(self._members)

    def __repr__(self) -> str:
        return f"<enum {self._cls}>"


class Record(tuple):
    """(class name, *field values) with attribute access by field name."""

    _folder_stub = True

    def __new__(cls, name: str, fields: Tuple[str, ...], values: Tuple[Any, ...]):
        self = tuple.__new__(cls, (name,) + tuple(values))
        self._fields = tuple(fields)
        return self

    def __getattr__(self, a: str):
        f = tuple.__getattribute__(self, "__dict__").get("_fields", ())
        if a in f:
            return self[1 + f.index(a)]
        raise AttributeError(a)

    def __repr__(self) -> str:
        return f"{self[0]}({', '.join(repr(v) for v in self[1:])})"


class Obj:
    """A plain object with the attributes the rule gives it; compares by identity, prints by its label."""

    _folder_stub = True

    def __init__(self, label: str, **attrs: Any):
        self._label = label
        for k, v in attrs.items():
            setattr(self, k, v)

    def __repr__(self) -> str:
        return self._label


class TextFile:
    """An opened text file over a fixed text: iteration yields the lines with their line ends."""

    _folder_stub = True
    _blockeval_context = True

    def __init__(self, text: str):
        self.text = text

    def __iter__(self):
        return iter(self.text.splitlines(keepends=True))

    def read(self):
        return self.text

    def readlines(self):
        return list(self)

    def close(self):
        return None


def keyworded(fn: Callable) -> Callable:
    """Mark a rule-supplied callable as accepting keyword arguments (Folder passes them through)."""
    fn._folder_keywords = True  # type: ignore[attr-defined]
    return fn


def opener(files: Dict[str, str]) -> Callable:
    """`open(path, ...)` over a fixed set of texts (a path that is not listed raises FileNotFoundError, like open)."""

    def _open(path, *a, **k):
        if path not in files:
            raise FileNotFoundError(path)
        return TextFile(files[path])

    return keyworded(_open)


# ---- reading the repository -------------------------------------------------------------------------------------------
def _is_enum(c: ast.ClassDef) -> bool:
    return any(ast.unparse(b).split(".")[-1] in ("Enum", "IntEnum", "StrEnum", "Flag", "IntFlag") for b in c.bases)


def _is_dataclass(c: ast.ClassDef) -> bool:
    for d in c.decorator_list:
        if isinstance(d, ast.Call):
            d = d.func
        if ast.unparse(d).split(".")[-1] == "dataclass":
            return True
    return False


def enum_stub(repo, module: str, name: str) -> EnumStub:
    mem: Dict[str, Any] = {}
    for k, v in repo.enum_members(module, name).items():
        if k.startswith("_"):
            # sunder/dunder names are not members - except the `_0` .. `_9` style of BR / BPh, which are (single underscore + non-underscore end)
            if k.startswith("__") or k.endswith("_"):
                continue
        mem[k] = Folder(repo, module).try_fold(v)
    return EnumStub(name, mem)


def dataclass_fields(repo, module: str, name: str, _seen: Optional[set] = None) -> List[Tuple[str, Optional[ast.expr], str]]:
    """[(field, default expression or None, module of the class that declares it)] - base classes of the package first."""
    _seen = _seen or set()
    if (module, name) in _seen:
        return []
    _seen.add((module, name))
    c = repo.cls(module, name)
    out: List[Tuple[str, Optional[ast.expr], str]] = []
    for b in c.bases:
        if isinstance(b, ast.Name):
            try:
                hm, hn = repo.const_home(module, b.id)
            except Exception:
                continue
            if hn in repo.module(hm).classes and _is_dataclass(repo.module(hm).classes[hn]):
                out.extend(dataclass_fields(repo, hm, hn, _seen))
    for st in c.body:
        if isinstance(st, ast.AnnAssign) and isinstance(st.target, ast.Name) and "ClassVar" not in ast.unparse(st.annotation):
            out = [f for f in out if f[0] != st.target.id] + [(st.target.id, st.value, module)]
    return out


def record_stub(repo, module: str, name: str) -> Callable:
    fields = dataclass_fields(repo, module, name)
    names = tuple(f[0] for f in fields)

    def make(*args, **kw):
        if len(args) > len(names):
            raise TypeError(f"{name}() takes {len(names)} positional arguments but {len(args)} were given")
        vals: Dict[str, Any] = dict(zip(names, args))
        for k, v in kw.items():
            if k not in names:
                raise TypeError(f"{name}() got an unexpected keyword argument '{k}'")
            if k in vals:
                raise TypeError(f"{name}() got multiple values for argument '{k}'")
            vals[k] = v
        for f, default, home in fields:
            if f not in vals:
                if default is None:
                    raise TypeError(f"{name}() missing required argument: '{f}'")
                vals[f] = Folder(repo, home).fold(default)
        return Record(name, names, tuple(vals[f] for f in names))

    make.__name__ = name
    return keyworded(make)


def function_stub(repo, module: str, qualname: str, world: Dict[str, Any], state: Optional[Dict[str, int]] = None) -> Callable:
    """The function as a callable on folded values: parameters bound like a call, body evaluated by BlockEval in `world`
    (the dict object is read at call time, so functions that call each other can be registered one after the other)."""
    from sa.blockeval import BlockEval, Unknown

    fi = repo.func(module, qualname)
    a = fi.node.args
    state = state if state is not None else {"depth": 0}

    def call(*vals, **kw):
        if a.vararg or a.kwarg or a.posonlyargs:
            raise Unknown(f"signature of {qualname}")
        if any(d not in ("staticmethod",) for d in fi.decorators):
            raise Unknown(f"decorated function {qualname}")
        params = [x.arg for x in a.args] + [x.arg for x in a.kwonlyargs]
        if len(vals) > len(a.args):
            raise TypeError(f"{qualname}() takes {len(a.args)} positional arguments but {len(vals)} were given")
        env: Dict[str, Any] = dict(zip([x.arg for x in a.args], vals))
        for k, v in kw.items():
            if k not in params or k in env:
                raise TypeError(f"{qualname}() got an unexpected or repeated keyword argument '{k}'")
            env[k] = v
        defaults: Dict[str, ast.expr] = dict(zip([x.arg for x in a.args][len(a.args) - len(a.defaults) :], a.defaults))
        defaults.update({x.arg: d for x, d in zip(a.kwonlyargs, a.kw_defaults) if d is not None})
        for p in params:
            if p not in env:
                if p not in defaults:
                    raise TypeError(f"{qualname}() missing required argument: '{p}'")
                cache = state.get("defaults")  # a process model (sa/procstate.py): a default is evaluated once, at definition time, and shared by all calls
                if cache is None:
                    env[p] = Folder(repo, module, world=world).fold(defaults[p])
                else:
                    if (qualname, p) not in cache:
                        cache[(qualname, p)] = Folder(repo, module, world=world).fold(defaults[p])
                    env[p] = cache[(qualname, p)]
        if state["depth"] > 12:
            raise Unknown(f"call depth in {qualname}")
        state["depth"] += 1
        ev = BlockEval(repo, module, env, world=world, max_steps=20000)
        try:
            kind, val = ev.run(fi.node.body)
        except Unknown:
            raise
        except Exception as ex:
            # where the exception left the evaluated code: (function, line, statement) of the innermost evaluated function - for messages only
            if not hasattr(ex, "_sa_origin") and ev.trace:
                st = ev.trace[-1]
                try:
                    ex._sa_origin = (qualname, getattr(st, "lineno", None), ast.unparse(st).split("\n")[0][:90])  # type: ignore[attr-defined]
                except Exception:
                    pass
            raise
        finally:
            state["depth"] -= 1
        return val if kind == "return" else None

    call.__name__ = qualname
    return keyworded(call)


def build(repo, module: str, functions: bool = True, extra: Optional[Dict[str, Any]] = None, state: Optional[Dict[str, Any]] = None) -> Dict[str, Any]:
    """Stand-ins for every Enum class and dataclass visible in `module` (defined there or imported from the package) and,
    with `functions`, for every undecorated module-level function of `module`; `extra` (rule stubs) wins.
    `state` (optional) is the bookkeeping shared by the function stubs: {"depth": 0} and, for a process model, "defaults": {}."""
    m = repo.module(module)
    world: Dict[str, Any] = {}
    for name in list(m.imports) + list(m.classes):
        try:
            hm, hn = repo.const_home(module, name)
        except Exception:
            continue
        c = repo.module(hm).classes.get(hn)
        if c is None:
            continue
        if _is_enum(c):
            world[name] = enum_stub(repo, hm, hn)
        elif _is_dataclass(c):
            world[name] = record_stub(repo, hm, hn)
    if functions:
        state = state if state is not None else {"depth": 0}
        state.setdefault("depth", 0)
        for q, fi in m.funcs.items():
            if "." not in q and not fi.decorators:
                world[q] = function_stub(repo, module, q, world, state)
    world.update(extra or {})
    return world
