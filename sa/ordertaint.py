"""A8: iteration-order taint (hash-seed determinism).

A *source* is any construct that turns an unordered container (set / frozenset) into a sequence:
   for x in S, comprehension over S, list/tuple/iter/next/enumerate/zip/map/filter/reversed(S), "".join(S),
   itertools.*(S), *S, S.pop(), sorted/min/max(S, key=...) (ties keep set order).
The source is harmless when the iteration order of S cannot depend on PYTHONHASHSEED, i.e. when the
element type of S is hash-stable (ints, floats, tuples/frozensets of such).  Elements that are str, Enum
members, objects whose hash reaches a str, identity-hashed objects - or of *unknown* type - make it a
report (fail closed).  Sanitisers: sorted/min/max without key, len/in/sum/any/all, set algebra, set()/frozenset().
"""
from __future__ import annotations

import ast
from dataclasses import dataclass
from typing import List, Optional, Tuple

from . import astq
from .model import FuncInfo
from .types import UNK, FuncTypes, Types, elem

ORDER_EXPOSING_CALLS = {"list", "tuple", "iter", "next", "enumerate", "zip", "map", "filter", "reversed", "OrderedSet", "deque"}
KEYED = {"sorted", "min", "max"}
SANITISERS = {"sorted", "min", "max", "len", "sum", "any", "all", "set", "frozenset", "bool", "Counter"}


@dataclass
class Source:
    node: ast.AST
    container: ast.AST
    how: str
    elem_type: object
    stable: Optional[bool]
    key: Optional[ast.AST] = None
    partial: str = ""  # sorted/min/max without key over a set whose elements are only partially ordered: the reason


def partial_order_reason(types: Types, t, depth: int = 0) -> str:
    """'' when `<` on values of type t orders everything `==` distinguishes; otherwise why not.  A class of the package with a
    hand-written __lt__ that does not read every field its equality compares (Residue3D: order by model / chain / number / insertion
    code, equality by all fields) leaves unequal values unordered: sorted() is stable, so such ties keep the order of its input."""
    if depth > 3 or not isinstance(t, tuple):
        return ""
    if t[0] == "tuple":
        for x in t[1]:
            r = partial_order_reason(types, x, depth + 1)
            if r:
                return r
        return ""
    if t[0] in ("tupleof", "list", "frozenset"):
        return partial_order_reason(types, t[1], depth + 1)
    if t[0] != "cls":
        return ""
    repo = types.repo
    seen = []
    todo = [(t[1], t[2])]
    lt = None
    fields: List[str] = []
    while todo:
        m, c = todo.pop(0)
        if (m, c) in seen or m not in repo.modules or c not in repo.modules[m].classes:
            continue
        seen.append((m, c))
        node = repo.modules[m].classes[c]
        if lt is None:
            own = [b for b in node.body if isinstance(b, ast.FunctionDef) and b.name == "__lt__"]
            if own:
                lt = (c, own[0])
        fields += [b.target.id for b in node.body if isinstance(b, ast.AnnAssign) and isinstance(b.target, ast.Name) and "ClassVar" not in ast.unparse(b.annotation)]
        for b in node.bases:
            bt = types._cls(m, ast.unparse(b).split(".")[-1].split("[")[0])
            if isinstance(bt, tuple):
                todo.append((bt[1], bt[2]))
    if lt is None or not fields:
        return ""
    if any(isinstance(b, ast.FunctionDef) and b.name == "__eq__" for m, c in seen[:1] for b in repo.modules[m].classes[c].body):
        return ""  # explicit equality: judged by the identity-equality rule
    read = sorted({n.attr for n in ast.walk(lt[1]) if isinstance(n, ast.Attribute) and isinstance(n.value, ast.Name) and n.value.id in ("self", "other")})
    if set(fields) <= set(read):
        return ""
    return f"`{lt[0]}.__lt__` compares ({', '.join(read)}) while equality of {t[2]} compares its fields ({', '.join(fields)}): two different {t[2]} objects can be unordered"


def is_set(t) -> bool:
    return isinstance(t, tuple) and t[0] in ("set", "frozenset")


def find_sources(types: Types, fi: FuncInfo) -> Tuple[List[Source], int]:
    """(order-exposing uses of set-typed values in fi, number of set-typed expressions seen)."""
    ft = FuncTypes(types, fi)
    out: List[Source] = []
    n_sets = 0

    def chk(container: ast.AST, node: ast.AST, how: str, key: Optional[ast.AST] = None) -> None:
        nonlocal n_sets
        t = ft.of(container)
        t = ft._refine(container, t)
        if not is_set(t):
            return
        n_sets += 1
        et = t[1]
        out.append(Source(node, container, how, et, types.stable(et), key))

    for n in astq.walk_no_nested(fi.node):
        if isinstance(n, (ast.For, ast.AsyncFor)):
            chk(n.iter, n, "for loop over a set")
        elif isinstance(n, (ast.ListComp, ast.GeneratorExp, ast.DictComp)):
            for g in n.generators:
                chk(g.iter, n, "comprehension over a set")
        elif isinstance(n, ast.SetComp):
            pass  # set -> set: order not exposed
        elif isinstance(n, ast.Starred):
            chk(n.value, n, "unpacking *set")
        elif isinstance(n, ast.Call):
            name = astq.callee_name(n)
            d = astq.dotted(n.func) or ""
            if isinstance(n.func, ast.Name) and name in ORDER_EXPOSING_CALLS:
                for a in n.args:
                    chk(a, n, f"{name}(set)")
            elif isinstance(n.func, ast.Name) and name in KEYED:
                key = next((k.value for k in n.keywords if k.arg == "key"), None)
                if key is not None:
                    for a in n.args[:1]:
                        chk(a, n, f"{name}(set, key=...) keeps set order among ties", key)
                else:
                    # without a key the order is the elements' own `<`: total for numbers, strings and tuples of such - not for a class
                    # whose __lt__ reads less than its equality
                    for a in n.args[:1]:
                        t = ft._refine(a, ft.of(a))
                        if is_set(t):
                            why = partial_order_reason(types, t[1])
                            if why:
                                n_sets += 1
                                out.append(Source(n, a, f"{name}(set) under a partial order keeps set order among unordered elements", t[1], types.stable(t[1]), None, why))
            elif d.startswith("itertools."):
                for a in n.args:
                    if isinstance(a, ast.Starred):
                        continue
                    chk(a, n, f"{d}(set)")
            elif isinstance(n.func, ast.Attribute) and name == "join":
                for a in n.args:
                    chk(a, n, "str.join(set)")
            elif isinstance(n.func, ast.Attribute) and name == "pop" and not n.args:
                chk(n.func.value, n, "set.pop()")
            elif isinstance(n.func, ast.Attribute) and name in ("extend", "writerows", "writelines"):
                for a in n.args:
                    chk(a, n, f".{name}(set)")
    # sets of sets iterated through product(*unique): the Starred case covers `*unique` only if unique is a set;
    # lists of sets: each member set is iterated by itertools.product(*L)
    for n in astq.walk_no_nested(fi.node):
        if isinstance(n, ast.Call) and (astq.dotted(n.func) or "").startswith("itertools."):
            for a in n.args:
                if isinstance(a, ast.Starred):
                    t = ft._refine(a.value, ft.of(a.value))
                    if isinstance(t, tuple) and t[0] == "list" and is_set(ft._refine_elem(a.value, t) if hasattr(ft, "_refine_elem") else t[1]):
                        inner = t[1]
                        # element type of the member sets: from adds to `<list>[-1]`
                        et = inner[1]
                        if et == UNK:
                            for k2, v in ft.adds.items():
                                if k2.startswith(ast.unparse(a.value) + "["):
                                    et = v
                        n_sets += 1
                        out.append(Source(n, a.value, f"{astq.dotted(n.func)}(*list of sets)", et, types.stable(et)))
    return out, n_sets


def nondeterministic_calls(fi: FuncInfo) -> List[Tuple[ast.AST, str]]:
    """id(), hash(), random.*, time/now, os.environ-dependent values feeding anything."""
    out = []
    if fi.node.name in ("__hash__", "__eq__"):
        return out
    for n in astq.walk_no_nested(fi.node):
        if isinstance(n, ast.Call):
            d = astq.dotted(n.func) or ""
            if d in ("id", "hash") and isinstance(n.func, ast.Name):
                out.append((n, f"{d}() value"))
            elif d.startswith("random.") or d.startswith("numpy.random.") or d.startswith("np.random.") or d in ("uuid.uuid4", "uuid.uuid1"):
                out.append((n, f"{d}"))
            elif d in ("time.time", "time.time_ns", "datetime.now", "datetime.datetime.now", "datetime.utcnow", "os.getpid", "os.urandom"):
                out.append((n, f"{d}"))
    return out
