"""A7: effects and aliasing - which functions may write state reachable from their receiver/arguments.

Alias kinds of a value, relative to the roots (receiver `self` and parameters):
   R  the value is (part of) an object reachable from a root: any mutation of it changes the root's state
   S  a *fresh* container/object whose elements/fields alias reachable objects
      (x.copy(), list(x), x[a:b], sorted(x), filter(f, x), [e for e in x], Cls(x))
      - mutating the container itself is harmless, its elements are R
   SS a fresh container whose elements are themselves fresh containers of reachable objects
      ([[e] for e in x], [list(g) for g in groups]): an element of it is S, so appending to `stems[-1]` is harmless
   None  fresh
Name kinds are joined flow-insensitively over all bindings (R > S > None), so an alias is never lost.
Interprocedural: repo callees are summarised per tuple of argument kinds (memoised, depth-bounded).
"""
from __future__ import annotations

import ast
from dataclasses import dataclass
from typing import Dict, List, Optional, Tuple

from . import astq
from .model import FuncInfo, Repo

MUTATORS = {
    "append", "extend", "insert", "remove", "pop", "clear", "sort", "reverse", "update", "add", "discard",
    "setdefault", "popitem", "__setitem__", "__delitem__", "difference_update", "intersection_update", "symmetric_difference_update",
}
COPIERS = {"list", "sorted", "reversed", "filter", "tuple", "set", "frozenset", "iter", "enumerate", "zip", "map", "dict"}
FRESH_CALLS = {"groupby", "deepcopy", "len", "str", "int", "float", "bool", "range", "sum", "min", "max", "any", "all", "repr", "hash", "join", "format"}
STR_METHODS = set(dir(str)) | set(dir(int)) | set(dir(float))
RANK = {None: 0, "SS": 1, "S": 2, "R": 3}


def _fresh_display(e: ast.AST) -> bool:
    """The expression builds a new container every time it is evaluated (a display, a comprehension, a copying call)."""
    if isinstance(e, (ast.List, ast.Tuple, ast.Set, ast.ListComp, ast.SetComp, ast.Dict, ast.DictComp)):
        return True
    return isinstance(e, ast.Call) and isinstance(e.func, ast.Name) and e.func.id in ("list", "sorted", "set", "tuple", "dict")


def join(a: Optional[str], b: Optional[str]) -> Optional[str]:
    return a if RANK[a] >= RANK[b] else b


@dataclass
class Write:
    node: ast.AST
    what: str
    via: str = ""


IMMUTABLE_ANN = {"int", "str", "float", "bool", "None", "bytes", "complex"}


def ann_immutable(a: str) -> bool:
    a = a.strip().strip("'\"")
    if a in IMMUTABLE_ANN:
        return True
    for pre in ("Optional[", "Union[", "Tuple[", "tuple["):
        if a.startswith(pre) and a.endswith("]"):
            inner, depth, parts, cur = a[len(pre) : -1], 0, [], ""
            for ch in inner:
                if ch == "[":
                    depth += 1
                if ch == "]":
                    depth -= 1
                if ch == "," and depth == 0:
                    parts.append(cur)
                    cur = ""
                else:
                    cur += ch
            parts.append(cur)
            return all(ann_immutable(x) or x.strip() == "..." for x in parts)
    return False


class Effects:
    def __init__(self, repo: Repo):
        self.repo = repo
        self._memo: Dict[Tuple[str, str, Tuple], Tuple[List[Write], Optional[str]]] = {}
        self._active: set = set()
        # attribute name -> True if every declaration of that name in the repo (dataclass field or
        # property return annotation) has an immutable type: reading it cannot hand out shared mutable state
        decl: Dict[str, List[bool]] = {}
        self.enum_classes = set()
        for m in repo.modules.values():
            for cname, c in m.classes.items():
                if any("Enum" in ast.unparse(b) for b in c.bases):
                    self.enum_classes.add(cname)
        for m in repo.modules.values():
            for cname, c in m.classes.items():
                for b in c.body:
                    if isinstance(b, ast.AnnAssign) and isinstance(b.target, ast.Name):
                        decl.setdefault(b.target.id, []).append(self._ann_ok(ast.unparse(b.annotation)))
                    elif isinstance(b, ast.FunctionDef) and any(ast.unparse(d).split(".")[-1] in ("property", "cached_property") for d in b.decorator_list):
                        decl.setdefault(b.name, []).append(b.returns is not None and self._ann_ok(ast.unparse(b.returns)))
        self.immutable_attrs = {k for k, v in decl.items() if v and all(v)}
        self.field_ann: Dict[Tuple[str, int], bool] = {}

    def _ann_ok(self, a: str) -> bool:
        a = a.strip()
        if a in self.enum_classes:
            return True
        if a.startswith("Optional[") and a[9:-1].strip() in self.enum_classes:
            return True
        return ann_immutable(a)

    def ctor_param_immutable(self, fi: FuncInfo, call: ast.Call) -> List[bool]:
        """Per positional field of a repo dataclass constructor: is the declared type immutable?"""
        try:
            hm, hn = self.repo.const_home(fi.module.name, call.func.id)
            c = self.repo.modules[hm].classes[hn]
        except Exception:
            return []
        out = []
        for b in c.body:
            if isinstance(b, ast.AnnAssign) and isinstance(b.target, ast.Name):
                out.append(self._ann_ok(ast.unparse(b.annotation)))
        return out

    # ------------------------------------------------------------------
    def analyse(self, fi: FuncInfo, arg_kinds: Optional[Dict[str, Optional[str]]] = None, depth: int = 0) -> Tuple[List[Write], Optional[str]]:
        """(writes through roots, kind of the return value)."""
        params = [a.arg for a in fi.node.args.args + fi.node.args.kwonlyargs]
        if fi.node.args.vararg:
            params.append(fi.node.args.vararg.arg)
        kinds = {p: "R" for p in params} if arg_kinds is None else {p: arg_kinds.get(p) for p in params}
        key = (fi.module.name, fi.qualname, tuple(sorted(kinds.items())))
        if key in self._memo:
            return self._memo[key]
        if key in self._active or depth > 6:
            return [], "R" if any(kinds.values()) else None
        self._active.add(key)
        try:
            res = _FuncEffects(self, fi, kinds, depth).run()
        finally:
            self._active.discard(key)
        self._memo[key] = res
        return res

    def resolve_callee(self, fi: FuncInfo, call: ast.Call) -> Optional[Tuple[FuncInfo, bool]]:
        """(callee, has_receiver) for calls that resolve to a repo function/method/constructor."""
        f = call.func
        repo = self.repo
        mod = fi.module.name
        if isinstance(f, ast.Name):
            try:
                hm, hn = repo.const_home(mod, f.id)
            except Exception:
                return None
            m = repo.modules[hm]
            if hn in m.funcs and "." not in hn:
                return m.funcs[hn], False
            return None
        if isinstance(f, ast.Attribute):
            if isinstance(f.value, ast.Name) and f.value.id == "self" and fi.cls is not None:
                q = f"{fi.cls.name}.{f.attr}"
                if q in fi.module.funcs:
                    return fi.module.funcs[q], True
            if isinstance(f.value, ast.Name):
                try:
                    hm, hn = repo.const_home(mod, f.value.id)
                    m = repo.modules[hm]
                    if hn in m.classes and f"{hn}.{f.attr}" in m.funcs:
                        callee = m.funcs[f"{hn}.{f.attr}"]
                        static = "staticmethod" in callee.decorators or "classmethod" in callee.decorators
                        return callee, not static and False
                except Exception:
                    pass
        return None

    def resolve_by_name(self, call: ast.Call) -> List[FuncInfo]:
        """Receiver of unknown type: every repo method of that name (sound over-approximation)."""
        if not isinstance(call.func, ast.Attribute):
            return []
        name = call.func.attr
        out = []
        for m in self.repo.modules.values():
            for q, f in m.funcs.items():
                if f.cls is not None and f.node.name == name and "<locals>" not in q:
                    out.append(f)
        return out

    def is_constructor(self, fi: FuncInfo, call: ast.Call) -> bool:
        f = call.func
        name = f.id if isinstance(f, ast.Name) else None
        if name is None:
            return False
        try:
            hm, hn = self.repo.const_home(fi.module.name, name)
            return hn in self.repo.modules[hm].classes
        except Exception:
            return False


class _FuncEffects:
    def __init__(self, eng: Effects, fi: FuncInfo, kinds: Dict[str, Optional[str]], depth: int):
        self.eng, self.fi, self.depth = eng, fi, depth
        self.env: Dict[str, Optional[str]] = dict(kinds)
        self.params = set(kinds)
        self.writes: List[Write] = []
        self.is_init = fi.node.name in ("__init__", "__post_init__")

    def run(self) -> Tuple[List[Write], Optional[str]]:
        # fixpoint on name kinds (flow-insensitive join)
        for _ in range(4):
            before = dict(self.env)
            self._bindings()
            if self.env == before:
                break
        self._collect()
        ret: Optional[str] = None
        for n in astq.walk_no_nested(self.fi.node):
            if isinstance(n, ast.Return) and n.value is not None:
                ret = join(ret, self.kind(n.value))
        return self.writes, ret

    # -- kinds ----------------------------------------------------------------------------
    def kind(self, e: Optional[ast.AST]) -> Optional[str]:
        if e is None:
            return None
        if isinstance(e, ast.Name):
            return self.env.get(e.id)
        if isinstance(e, ast.Attribute):
            if e.attr in self.eng.immutable_attrs:
                return None
            k = self.kind(e.value)
            return "R" if k in ("R", "S") else None
        if isinstance(e, ast.Subscript):
            k = self.kind(e.value)
            if k is None:
                return None
            if isinstance(e.value, ast.Attribute) and e.value.attr in self.eng.immutable_attrs:
                return None
            if isinstance(e.slice, ast.Slice):
                return "SS" if k == "SS" else "S"
            return "S" if k == "SS" else "R"
        if isinstance(e, ast.Starred):
            return self.kind(e.value)
        if isinstance(e, (ast.Tuple, ast.List, ast.Set)):
            k = None
            for x in e.elts:
                k = join(k, self.kind(x))
            return "S" if k else None
        if isinstance(e, ast.IfExp):
            return join(self.kind(e.body), self.kind(e.orelse))
        if isinstance(e, ast.BoolOp):
            k = None
            for v in e.values:
                k = join(k, self.kind(v))
            return k
        if isinstance(e, ast.NamedExpr):
            return self.kind(e.value)
        if isinstance(e, (ast.ListComp, ast.SetComp, ast.GeneratorExp)):
            saved = dict(self.env)
            try:
                for g in e.generators:
                    ik = self.kind(g.iter)
                    self._bind_target(g.target, ("S" if ik == "SS" else "R") if ik else None)
                ek = self.kind(e.elt)
                if ek in ("S", "SS") and _fresh_display(e.elt):
                    return "SS"
                return "S" if ek else None
            finally:
                self.env = saved
        if isinstance(e, ast.DictComp):
            saved = dict(self.env)
            try:
                for g in e.generators:
                    self._bind_target(g.target, "R" if self.kind(g.iter) else None)
                return "S" if (self.kind(e.key) or self.kind(e.value)) else None
            finally:
                self.env = saved
        if isinstance(e, ast.Lambda):
            return None
        if isinstance(e, ast.Call):
            return self._call_kind(e)
        return None

    def _call_kind(self, c: ast.Call) -> Optional[str]:
        name = astq.callee_name(c)
        args = list(c.args) + [k.value for k in c.keywords]
        any_alias = None
        for a in args:
            any_alias = join(any_alias, self.kind(a))
        if isinstance(c.func, ast.Attribute):
            recv_k = self.kind(c.func.value)
            if name == "copy" and not c.args:
                return "S" if recv_k else None
            if name in ("get", "pop", "setdefault", "__getitem__") and recv_k:
                return "R"
            if name in ("values", "items", "keys") and recv_k:
                return "S"
            if name in FRESH_CALLS:
                return None
        if isinstance(c.func, ast.Name):
            if name in FRESH_CALLS:
                return None
            if name in COPIERS:
                return "S" if any_alias else None
            if name == "next":
                return "R" if any_alias else None
        r = self.eng.resolve_callee(self.fi, c)
        if r is not None:
            callee, has_recv = r
            ak = self._arg_kinds(callee, c, has_recv)
            _, ret = self.eng.analyse(callee, ak, self.depth + 1)
            return ret
        if self.eng.is_constructor(self.fi, c):
            imm = self.eng.ctor_param_immutable(self.fi, c)
            shared = None
            for i, a in enumerate(c.args):
                if self.kind(a) and not (i < len(imm) and imm[i]):
                    shared = "S"
            for kw in c.keywords:
                if self.kind(kw.value):
                    shared = "S"
            return shared
        # receiver of unknown type: join over every repo method of that name
        if isinstance(c.func, ast.Attribute) and self.kind(c.func.value):
            cands = self.eng.resolve_by_name(c)
            if cands:
                k = None
                for callee in cands:
                    ak = self._arg_kinds(callee, c, True)
                    _, ret = self.eng.analyse(callee, ak, self.depth + 1)
                    k = join(k, ret)
                return k
            return "R" if name not in FRESH_CALLS and name not in STR_METHODS else None
        return None

    def _arg_kinds(self, callee: FuncInfo, c: ast.Call, has_recv: bool) -> Dict[str, Optional[str]]:
        params = [a.arg for a in callee.node.args.args]
        out: Dict[str, Optional[str]] = {}
        pos = list(params)
        if has_recv and pos:
            out[pos[0]] = self.kind(c.func.value) if isinstance(c.func, ast.Attribute) else None
            pos = pos[1:]
        elif pos and pos[0] in ("self", "cls") and "staticmethod" not in callee.decorators:
            pos = pos[1:]
        for p, a in zip(pos, c.args):
            out[p] = self.kind(a)
        for k in c.keywords:
            if k.arg:
                out[k.arg] = self.kind(k.value)
        return out

    # -- bindings --------------------------------------------------------------------------
    def _bind_target(self, t: ast.AST, k: Optional[str]) -> None:
        if isinstance(t, ast.Name):
            self.env[t.id] = join(self.env.get(t.id), k)
        elif isinstance(t, (ast.Tuple, ast.List)):
            for e in t.elts:
                self._bind_target(e, "R" if k else None)
        elif isinstance(t, ast.Starred):
            self._bind_target(t.value, "S" if k else None)

    def _bindings(self) -> None:
        for n in astq.walk_no_nested(self.fi.node):
            if isinstance(n, ast.Assign):
                k = self.kind(n.value)
                for t in n.targets:
                    self._bind_target(t, k)
            elif isinstance(n, ast.AnnAssign) and n.value is not None:
                self._bind_target(n.target, self.kind(n.value))
            elif isinstance(n, (ast.For, ast.AsyncFor)):
                ik = self.kind(n.iter)
                self._bind_target(n.target, ("S" if ik == "SS" else "R") if ik else None)
            elif isinstance(n, ast.With):
                for it in n.items:
                    if it.optional_vars is not None:
                        self._bind_target(it.optional_vars, self.kind(it.context_expr))
            elif isinstance(n, ast.NamedExpr):
                self._bind_target(n.target, self.kind(n.value))

    # -- writes -------------------------------------------------------------------------------
    def _own(self, base: ast.AST) -> bool:
        d = astq.dotted(base)
        return self.is_init and d is not None and (d == "self" or d.startswith("self."))

    def _store(self, t: ast.AST, stmt: ast.AST) -> None:
        if isinstance(t, (ast.Attribute, ast.Subscript)) and self._own(t.value):
            return
        if isinstance(t, ast.Attribute):
            k = self.kind(t.value)
            if k == "R":
                if self.is_init and isinstance(t.value, ast.Name) and t.value.id == "self":
                    return
                self.writes.append(Write(stmt, f"attribute store `{ast.unparse(t)} = ...` on reachable state"))
        elif isinstance(t, ast.Subscript):
            if self.kind(t.value) == "R":
                self.writes.append(Write(stmt, f"item store `{ast.unparse(t)} = ...` into a reachable container"))
        elif isinstance(t, (ast.Tuple, ast.List)):
            for e in t.elts:
                self._store(e, stmt)
        elif isinstance(t, ast.Starred):
            self._store(t.value, stmt)

    def _collect(self) -> None:
        for n in astq.walk_no_nested(self.fi.node):
            if isinstance(n, ast.Assign):
                for t in n.targets:
                    self._store(t, n)
            elif isinstance(n, (ast.AugAssign, ast.AnnAssign)):
                if not (isinstance(n, ast.AnnAssign) and n.value is None):
                    self._store(n.target, n)
            elif isinstance(n, ast.Delete):
                for t in n.targets:
                    self._store(t, n)
            elif isinstance(n, ast.Call):
                name = astq.callee_name(n)
                if isinstance(n.func, ast.Attribute) and name in MUTATORS and self.kind(n.func.value) == "R":
                    if not self._own(n.func.value):
                        self.writes.append(Write(n, f"mutator call `{ast.unparse(n)[:70]}` on reachable state"))
                if isinstance(n.func, ast.Name) and n.func.id in ("setattr", "delattr") and n.args and self.kind(n.args[0]) == "R":
                    self.writes.append(Write(n, f"`{ast.unparse(n)[:70]}` on reachable state"))
                r = self.eng.resolve_callee(self.fi, n)
                if r is None and isinstance(n.func, ast.Attribute) and self.kind(n.func.value) and name not in MUTATORS:
                    for callee in self.eng.resolve_by_name(n):
                        ak = self._arg_kinds(callee, n, True)
                        ws, _ = self.eng.analyse(callee, ak, self.depth + 1)
                        for w in ws:
                            self.writes.append(Write(n, w.what, via=f"{callee.module.name}.{callee.qualname}" + (f" <- {w.via}" if w.via else "")))
                if r is not None:
                    callee, has_recv = r
                    ak = self._arg_kinds(callee, n, has_recv)
                    if any(ak.values()):
                        ws, _ = self.eng.analyse(callee, ak, self.depth + 1)
                        for w in ws:
                            self.writes.append(Write(n, w.what, via=f"{callee.module.name}.{callee.qualname}" + (f" <- {w.via}" if w.via else "")))
