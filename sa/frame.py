"""A small model of the pandas objects the analysed code works with (DataFrame, Series, Index, GroupBy, the `pd` namespace).

Purpose (DESIGN 1.2 item 4): `fit_to_pdb`, `write_pdb`, ... are pandas code.  To *interpret a fragment of them from its ast* on one
representative table per class of input, the interpreter (sa/fragment.py) needs objects that answer the pandas calls the
fragment makes.  pandas itself is never imported by a check; this module is a stand-in written against the documented
behaviour of the operations below, in pure Python over lists.  It is part of the trusted base of the rules that use it
(they say so in `chk.trusted`), it was compared operation by operation with pandas 2.2 during development
(tools/frame_model_vs_pandas.py, a development aid that no check runs), and everything it does not model raises `NotConst` -
the fragment is then "not evaluable" and the rule falls back / reports ANALYSIS-ERROR, never a verdict.

Modelled semantics that matter for the rules:
* missing values: `None` and float NaN are both missing (`isna`); they are stored as given; in element-wise comparisons a
  missing operand is unequal to everything, itself included (`!=` True, `==` and the orderings False), as in pandas;
  operations that produce missing values (shift, map without a match, category/Int64 conversion) produce NaN
* `groupby` drops rows whose key is missing unless `dropna=False`, sorts the groups by key unless `sort=False`, keeps the
  original row labels inside each group; `size()/apply()/...` are indexed by the group keys (a MultiIndex for several keys)
* `drop_duplicates` / `unique` keep the first occurrence in row order and treat missing values as equal to each other
* assignment through `.loc[labels, column] = values` is positional for a list / Index and by label for a Series
* `Series.fillna(v)` of a category column raises TypeError when `v` is not a category (the reason the library adds '' first)
* labels: `sort_index`, `sort_values` (stable), `reset_index`, `set_index` (tuples for several keys), `iterrows`, `itertuples`
"""
from __future__ import annotations

import collections
import math
from typing import Any, Callable, Dict, Iterable, List, Optional, Sequence, Tuple

from sa.consteval import NotConst

NAN = float("nan")


def isna(v: Any) -> bool:
    return v is None or (isinstance(v, float) and v != v)


def _key(v: Any) -> Any:
    """Hashable identity of a value for grouping / de-duplication: all missing values are one key."""
    if isna(v):
        return ("<NA>",)
    if isinstance(v, tuple):
        return tuple(_key(x) for x in v)
    if isinstance(v, bool):
        return v
    if isinstance(v, float) and v == int(v):
        return int(v)
    return v


def _sort_key(v: Any):
    """Order used by sort=True / sort_values: missing last, otherwise Python order within one type family."""
    if isinstance(v, tuple):
        return tuple(_sort_key(x) for x in v)
    if isna(v):
        return (2, 0)
    if isinstance(v, (int, float)):
        return (0, v)
    if isinstance(v, str):
        return (1, v)
    raise NotConst(f"pandas model: ordering of {type(v).__name__} values")


def _unsupported(what: str):
    raise NotConst(f"pandas model: {what} is not modelled")


def _check_kwargs(name: str, kw: Dict[str, Any], allowed: Iterable[str]) -> None:
    extra = set(kw) - set(allowed)
    if extra:
        _unsupported(f"{name}({', '.join(sorted(extra))}=...)")


class CategoricalDtype(str):
    """The dtype of a category column: equal to the string 'category', and an instance of `pd.CategoricalDtype`."""

    def __new__(cls, *a, **k):
        return str.__new__(cls, "category")


class Arr(list):
    """What `.unique()` / `.values` return: a sequence with `tolist()`."""

    _folder_stub = True

    def tolist(self):
        return list(self)

    @property
    def size(self):
        return len(self)

    @property
    def shape(self):
        return (len(self),)


class Index:
    _folder_stub = True
    _elementwise = True

    def __init__(self, values: Iterable[Any], names: Optional[List[Optional[str]]] = None):
        self._v = list(values)
        self.names = list(names) if names else [None]

    # -- container protocol
    def __len__(self):
        return len(self._v)

    def __iter__(self):
        return iter(list(self._v))

    def __getitem__(self, i):
        if isinstance(i, slice):
            return Index(self._v[i], self.names)
        if isinstance(i, int):
            return self._v[i]
        _unsupported("Index[...] with a non-integer")

    def __contains__(self, x):
        k = _key(x)
        return any(_key(v) == k for v in self._v)

    def __repr__(self):
        return f"Index({self._v!r})"

    @property
    def name(self):
        return self.names[0] if len(self.names) == 1 else None

    @property
    def values(self):
        return Arr(self._v)

    @property
    def nlevels(self):
        return len(self.names)

    @property
    def empty(self):
        return not self._v

    @property
    def size(self):
        return len(self._v)

    @property
    def is_unique(self):
        return len({_key(v) for v in self._v}) == len(self._v)

    def tolist(self):
        return list(self._v)

    to_list = tolist

    def map(self, mapper, **kw):
        _check_kwargs("Index.map", kw, ("na_action",))
        return Index([_map_one(mapper, v) for v in self._v])

    def unique(self):
        return Index(_unique(self._v), self.names)

    def nunique(self, dropna=True):
        return len([v for v in _unique(self._v) if not (dropna and isna(v))])

    def isin(self, values):
        ks = {_key(v) for v in values}
        return Arr([_key(v) in ks for v in self._v])

    # -- what a column offers, on the values of the index
    def _as_series(self) -> "Series":
        return Series(list(self._v), name=self.name)

    def astype(self, dtype, **kw):
        return Index(self._as_series().astype(dtype, **kw)._v, self.names)

    def dropna(self, **kw):
        return Index([v for v in self._v if not isna(v)], self.names)

    def max(self, **kw):
        return self._as_series().max(**kw)

    def min(self, **kw):
        return self._as_series().min(**kw)

    @property
    def str(self):
        return _IndexStr(self)

    def to_series(self, **kw):
        return Series(list(self._v), Index(self._v, self.names), name=self.name)

    def get_level_values(self, level):
        k = self._level(level)
        if len(self.names) == 1:
            return Index(self._v, self.names)
        return Index([v[k] for v in self._v], [self.names[k]])

    def _level(self, level) -> int:
        if isinstance(level, int) and not isinstance(level, bool):
            if not -len(self.names) <= level < len(self.names):
                raise IndexError("Too many levels")
            return level % len(self.names)
        if level in self.names:
            return self.names.index(level)
        raise KeyError(f"Level {level} not found")

    def __eq__(self, other):
        return Arr(_ew(self._v, other, _eq))

    def __ne__(self, other):
        return Arr(_ew(self._v, other, _ne))

    __hash__ = None


def _unique(vals: Iterable[Any]) -> List[Any]:
    seen, out = set(), []
    for v in vals:
        k = _key(v)
        if k not in seen:
            seen.add(k)
            out.append(v)
    return out


def _map_one(mapper, v):
    if isinstance(mapper, dict):
        if isna(v) and not any(isna(k) for k in mapper):
            return NAN
        k = _key(v)
        for mk, mv in mapper.items():
            if _key(mk) == k:
                return mv
        if hasattr(mapper, "__missing__"):
            return mapper[v]
        return NAN
    if isinstance(mapper, Series):
        for lab, val in zip(mapper.index._v, mapper._v):
            if _key(lab) == _key(v):
                return val
        return NAN
    if callable(mapper):
        return mapper(v)
    _unsupported("map with this kind of mapper")


def _ew(vals: List[Any], other: Any, f: Callable[[Any, Any], Any]) -> List[Any]:
    """Element-wise binary operation with a scalar, a list-like of the same length, or a Series / Index (by position)."""
    if isinstance(other, (Series, Index)):
        o = other._v
    elif isinstance(other, (list, tuple)) and not isinstance(other, str):
        o = list(other)
    else:
        return [f(a, other) for a in vals]
    if len(o) != len(vals):
        raise ValueError("Lengths must match to compare")
    return [f(a, b) for a, b in zip(vals, o)]


def _cmp(f: Callable[[Any, Any], bool], missing: bool) -> Callable[[Any, Any], bool]:
    """Ordering comparisons: anything against a missing value is False (True for !=, see `missing`)."""

    def g(a, b):
        if isna(a) or isna(b):
            return missing
        try:
            return f(a, b)
        except TypeError:
            raise TypeError(f"'<' not supported between instances of '{type(a).__name__}' and '{type(b).__name__}'")

    return g


def _eq(a, b) -> bool:
    """pandas element-wise ==: a missing operand (None as well as NaN) never equals anything"""
    return False if isna(a) or isna(b) else a == b


def _ne(a, b) -> bool:
    return True if isna(a) or isna(b) else a != b


def _arith(f: Callable[[Any, Any], Any]) -> Callable[[Any, Any], Any]:
    def g(a, b):
        if isna(a) or isna(b):
            return NAN
        return f(a, b)

    return g


class Series:
    _folder_stub = True
    _elementwise = True

    def __init__(self, values: Iterable[Any] = (), index: Optional[Iterable[Any]] = None, name: Any = None, dtype: Optional[str] = None, categories: Optional[List[Any]] = None, _parent: Optional[Tuple["Frame", str]] = None, **kw):
        if kw:
            _unsupported(f"Series({', '.join(kw)}=...)")
        if isinstance(values, Series):
            index = values.index if index is None else index
            dtype = dtype or values.dtype
            values = values._v
        if isinstance(values, dict):
            index = list(values) if index is None else index
            values = list(values.values())
        self._v: List[Any] = list(values)
        self.index: Index = index if isinstance(index, Index) else Index(range(len(self._v)) if index is None else index)
        if len(self.index) != len(self._v):
            raise ValueError("Length of values does not match length of index")
        self.name = name
        self.dtype = dtype or _infer_dtype(self._v)
        if self.dtype == "category":
            self.dtype = CategoricalDtype()
        self.categories = list(categories) if categories is not None else (sorted(_unique([v for v in self._v if not isna(v)]), key=_sort_key) if self.dtype == "category" else None)
        self._parent = _parent
        if dtype in ("category", "Int64", "int64", "float64", "str", "object") and dtype != _infer_dtype(self._v):
            self._v = _convert(self._v, dtype)

    # -- helpers
    def _new(self, vals: List[Any], dtype: Optional[str] = None, index: Optional[Index] = None, name: Any = "<keep>") -> "Series":
        return Series(vals, index if index is not None else Index(self.index._v, self.index.names), name=self.name if name == "<keep>" else name, dtype=dtype)

    def _write_back(self) -> None:
        if self._parent is not None:
            fr, col = self._parent
            if col in fr._cols and len(fr._cols[col]) == len(self._v):
                fr._cols[col] = list(self._v)
                fr._dtypes[col] = self.dtype
                fr._cats[col] = self.categories

    # -- container protocol
    def __len__(self):
        return len(self._v)

    def __iter__(self):
        return iter(list(self._v))

    def __repr__(self):
        return f"Series({self._v!r}, index={self.index._v!r})"

    def __bool__(self):
        raise ValueError("The truth value of a Series is ambiguous. Use a.empty, a.bool(), a.item(), a.any() or a.all().")

    def __contains__(self, x):  # pandas: membership in the index
        return x in self.index

    def __getitem__(self, k):
        if isinstance(k, Series) and k.dtype == "bool":
            return self._take([i for i, m in enumerate(_align(k, self.index)) if m])
        if isinstance(k, (list, Arr)) and k and all(isinstance(x, bool) for x in k):
            if len(k) != len(self._v):
                raise IndexError("Boolean index has wrong length")
            return self._take([i for i, m in enumerate(k) if m])
        if isinstance(k, slice):
            return self._take(list(range(len(self._v)))[k])
        pos = [i for i, lab in enumerate(self.index._v) if _key(lab) == _key(k)]
        if not pos:
            raise KeyError(k)
        if len(pos) == 1:
            return self._v[pos[0]]
        return self._take(pos)

    def __setitem__(self, k, v):
        if isinstance(k, Series) and k.dtype == "bool":
            for i, m in enumerate(_align(k, self.index)):
                if m:
                    self._v[i] = v
        else:
            pos = [i for i, lab in enumerate(self.index._v) if _key(lab) == _key(k)]
            if not pos:
                _unsupported("Series[new label] = value")
            for i in pos:
                self._v[i] = v
        self._write_back()

    def _take(self, pos: List[int]) -> "Series":
        return Series([self._v[i] for i in pos], Index([self.index._v[i] for i in pos], self.index.names), name=self.name, dtype=self.dtype if self.dtype in ("category", "object", "Int64") else None, categories=self.categories)

    # -- attributes
    @property
    def values(self):
        return Arr(self._v)

    @property
    def empty(self):
        return not self._v

    @property
    def size(self):
        return len(self._v)

    @property
    def shape(self):
        return (len(self._v),)

    @property
    def iloc(self):
        return _ILoc(self)

    @property
    def loc(self):
        return _SLoc(self)

    @property
    def str(self):
        return _Str(self)

    @property
    def cat(self):
        if self.dtype != "category":
            raise AttributeError("Can only use .cat accessor with a 'category' dtype")
        return _Cat(self)

    @property
    def is_unique(self):
        return len({_key(v) for v in self._v}) == len(self._v)

    @property
    def hasnans(self):
        return any(isna(v) for v in self._v)

    # -- conversions
    def tolist(self):
        return list(self._v)

    to_list = tolist

    def to_numpy(self, **kw):
        return Arr(self._v)

    def to_dict(self):
        return dict(zip(self.index._v, self._v))

    def copy(self, deep=True):
        return Series(list(self._v), Index(self.index._v, self.index.names), name=self.name, dtype=self.dtype, categories=self.categories)

    def astype(self, dtype, **kw):
        _check_kwargs("astype", kw, ("copy", "errors"))
        d = _dtype_name(dtype)
        if d == "category":
            return Series(self._v, self.index, name=self.name, dtype="category", categories=self.categories if self.dtype == "category" else None)
        return Series(_convert(self._v, d), self.index, name=self.name, dtype=d)

    def fillna(self, value=None, inplace=False, **kw):
        _check_kwargs("fillna", kw, ())
        if isinstance(value, (Series, dict)):
            _unsupported("fillna with a Series / dict")
        if self.dtype == "category" and not any(_key(value) == _key(c) for c in (self.categories or [])) and any(isna(v) for v in self._v):
            raise TypeError("Cannot setitem on a Categorical with a new category, set the categories first")
        vals = [value if isna(v) else v for v in self._v]
        if inplace:
            self._v = vals
            self._write_back()
            return None
        return Series(vals, self.index, name=self.name, dtype=self.dtype if self.dtype in ("category", "object") else None, categories=self.categories)

    def isna(self):
        return self._new([isna(v) for v in self._v], "bool")

    isnull = isna

    def notna(self):
        return self._new([not isna(v) for v in self._v], "bool")

    notnull = notna

    def dropna(self, **kw):
        _check_kwargs("dropna", kw, ())
        return self._take([i for i, v in enumerate(self._v) if not isna(v)])

    def map(self, mapper, **kw):
        _check_kwargs("map", kw, ("na_action",))
        if kw.get("na_action") == "ignore":
            return self._new([v if isna(v) else _map_one(mapper, v) for v in self._v])
        return self._new([_map_one(mapper, v) for v in self._v])

    def apply(self, f, **kw):
        _check_kwargs("apply", kw, ())
        return self._new([f(v) for v in self._v])

    def replace(self, to_replace, value="<none>", **kw):
        _check_kwargs("replace", kw, ())
        if isinstance(to_replace, dict) and value == "<none>":
            return self._new([next((mv for mk, mv in to_replace.items() if _key(mk) == _key(v)), v) for v in self._v])
        if value == "<none>":
            _unsupported("replace without a value")
        return self._new([value if _key(v) == _key(to_replace) else v for v in self._v])

    def isin(self, values):
        ks = {_key(v) for v in values}
        return self._new([_key(v) in ks for v in self._v], "bool")

    def between(self, left, right, inclusive="both"):
        lo = (lambda v: v >= left) if inclusive in ("both", "left") else (lambda v: v > left)
        hi = (lambda v: v <= right) if inclusive in ("both", "right") else (lambda v: v < right)
        return self._new([False if isna(v) else bool(lo(v) and hi(v)) for v in self._v], "bool")

    def where(self, cond, other=NAN, **kw):
        _check_kwargs("where", kw, ())
        c = _align(cond, self.index) if isinstance(cond, Series) else list(cond)
        o = _align(other, self.index) if isinstance(other, Series) else [other] * len(self._v)
        return self._new([v if m else x for v, m, x in zip(self._v, c, o)])

    def mask(self, cond, other=NAN, **kw):
        _check_kwargs("mask", kw, ())
        c = _align(cond, self.index) if isinstance(cond, Series) else list(cond)
        o = _align(other, self.index) if isinstance(other, Series) else [other] * len(self._v)
        return self._new([x if m else v for v, m, x in zip(self._v, c, o)])

    # -- reductions
    def _present(self) -> List[Any]:
        return [v for v in self._v if not isna(v)]

    def max(self, **kw):
        _check_kwargs("max", kw, ("skipna",))
        p = self._present()
        return max(p) if p else NAN

    def min(self, **kw):
        _check_kwargs("min", kw, ("skipna",))
        p = self._present()
        return min(p) if p else NAN

    def sum(self, **kw):
        _check_kwargs("sum", kw, ("skipna",))
        return sum(self._present())

    def count(self):
        return len(self._present())

    def any(self, **kw):
        _check_kwargs("any", kw, ("axis", "skipna"))
        return any(bool(v) for v in self._present())

    def all(self, **kw):
        _check_kwargs("all", kw, ("axis", "skipna"))
        return all(bool(v) for v in self._present())

    def unique(self):
        return Arr(_unique(self._v))

    def nunique(self, dropna=True):
        return len([v for v in _unique(self._v) if not (dropna and isna(v))])

    def idxmax(self):
        p = [(v, i) for i, v in enumerate(self._v) if not isna(v)]
        if not p:
            raise ValueError("attempt to get argmax of an empty sequence")
        best = max(v for v, _ in p)
        return self.index._v[next(i for v, i in p if v == best)]

    def value_counts(self, **kw):
        _check_kwargs("value_counts", kw, ("sort", "dropna"))
        keys = [v for v in _unique(self._v) if not (kw.get("dropna", True) and isna(v))]
        counts = [sum(1 for x in self._v if _key(x) == _key(k)) for k in keys]
        order = sorted(range(len(keys)), key=lambda i: -counts[i]) if kw.get("sort", True) else list(range(len(keys)))
        return Series([counts[i] for i in order], Index([keys[i] for i in order], [self.name]), name="count")

    # -- transformations along the rows
    def shift(self, periods=1, **kw):
        _check_kwargs("shift", kw, ("fill_value",))
        fill = kw.get("fill_value", NAN)
        n = len(self._v)
        if periods >= 0:
            vals = [fill] * min(periods, n) + self._v[: max(n - periods, 0)]
        else:
            vals = self._v[-periods:] + [fill] * min(-periods, n)
        return self._new(vals, dtype="object" if self.dtype in ("object", "category") else None)

    def cumsum(self, **kw):
        _check_kwargs("cumsum", kw, ("skipna",))
        out, acc = [], 0
        for v in self._v:
            if isna(v):
                out.append(NAN)
            else:
                acc = acc + (int(v) if isinstance(v, bool) else v)
                out.append(acc)
        return self._new(out)

    def diff(self, periods=1):
        sh = self.shift(periods)._v
        return self._new([NAN if isna(a) or isna(b) else a - b for a, b in zip(self._v, sh)])

    def duplicated(self, keep="first"):
        return self._new(_duplicated([_key(v) for v in self._v], keep), "bool")

    def drop_duplicates(self, keep="first", **kw):
        _check_kwargs("drop_duplicates", kw, ())
        d = _duplicated([_key(v) for v in self._v], keep)
        return self._take([i for i, x in enumerate(d) if not x])

    def reset_index(self, drop=False, **kw):
        _check_kwargs("reset_index", kw, ("name",))
        if drop:
            return Series(self._v, None, name=self.name, dtype=self.dtype, categories=self.categories)
        cols: Dict[str, List[Any]] = {}
        if len(self.index.names) == 1:
            cols[self.index.names[0] if self.index.names[0] is not None else "index"] = list(self.index._v)
        else:
            for k, nm in enumerate(self.index.names):
                cols[nm if nm is not None else f"level_{k}"] = [t[k] for t in self.index._v]
        cols[kw.get("name", self.name if self.name is not None else 0)] = list(self._v)
        return Frame(cols)

    def sort_values(self, ascending=True, **kw):
        _check_kwargs("sort_values", kw, ("kind", "na_position"))
        pos = _stable_order([(v,) for v in self._v], [ascending])
        return self._take(pos)

    def sort_index(self, **kw):
        _check_kwargs("sort_index", kw, ("kind",))
        pos = sorted(range(len(self._v)), key=lambda i: _sort_key(self.index._v[i]))
        return self._take(pos)

    def head(self, n=5):
        return self._take(list(range(len(self._v)))[:n])

    def groupby(self, by=None, level=None, **kw):
        _check_kwargs("groupby", kw, ("sort", "dropna", "observed", "group_keys"))
        if by is None and level is None:
            raise TypeError("You have to supply one of 'by' and 'level'")
        if level is not None:
            lv = level if isinstance(level, (list, tuple)) else [level]
            ks = [self.index._level(l) for l in lv]
            names = [self.index.names[k] for k in ks]
            if len(self.index.names) == 1:
                keys = [[v] for v in self.index._v]
            else:
                keys = [[t[k] for k in ks] for t in self.index._v]
        else:
            bys = by if isinstance(by, list) else [by]
            cols, names = [], []
            for b in bys:
                if isinstance(b, Series):
                    cols.append(_align(b, self.index))
                    names.append(b.name)
                elif isinstance(b, (list, Arr, Index)):
                    if len(b) != len(self._v):
                        raise ValueError("Grouper and axis must be same length")
                    cols.append(list(b))
                    names.append(None)
                elif callable(b):
                    cols.append([b(l) for l in self.index._v])
                    names.append(None)
                else:
                    _unsupported("Series.groupby by a label")
            keys = [list(t) for t in zip(*cols)] if cols else []
        return SeriesGroupBy(self, keys, names, sort=kw.get("sort", True), dropna=kw.get("dropna", True))

    # -- operators
    def _op(self, other, f, dtype=None):
        if isinstance(other, Series):
            other = Series(_align(other, self.index), self.index)
        return self._new(_ew(self._v, other, f), dtype)

    def __eq__(self, o):
        return self._op(o, _eq, "bool")

    def __ne__(self, o):
        return self._op(o, _ne, "bool")

    def __gt__(self, o):
        return self._op(o, _cmp(lambda a, b: a > b, False), "bool")

    def __ge__(self, o):
        return self._op(o, _cmp(lambda a, b: a >= b, False), "bool")

    def __lt__(self, o):
        return self._op(o, _cmp(lambda a, b: a < b, False), "bool")

    def __le__(self, o):
        return self._op(o, _cmp(lambda a, b: a <= b, False), "bool")

    def eq(self, o):
        return self.__eq__(o)

    def ne(self, o):
        return self.__ne__(o)

    def gt(self, o):
        return self.__gt__(o)

    def lt(self, o):
        return self.__lt__(o)

    def __add__(self, o):
        return self._op(o, _arith(lambda a, b: a + b))

    def __radd__(self, o):
        return self._op(o, _arith(lambda a, b: b + a))

    def __sub__(self, o):
        return self._op(o, _arith(lambda a, b: a - b))

    def __rsub__(self, o):
        return self._op(o, _arith(lambda a, b: b - a))

    def __mul__(self, o):
        return self._op(o, _arith(lambda a, b: a * b))

    def __and__(self, o):
        return self._op(o, lambda a, b: bool(a) and bool(b), "bool")

    def __or__(self, o):
        return self._op(o, lambda a, b: bool(a) or bool(b), "bool")

    def __invert__(self):
        if self.dtype != "bool":
            _unsupported("~ of a non-boolean Series")
        return self._new([not v for v in self._v], "bool")

    def __neg__(self):
        return self._new([NAN if isna(v) else -v for v in self._v])

    def abs(self):
        return self._new([NAN if isna(v) else abs(v) for v in self._v])

    def round(self, decimals=0):
        return self._new([NAN if isna(v) else round(v, decimals) for v in self._v])

    __hash__ = None


def _align(s: "Series", index: Index) -> List[Any]:
    """Values of s in the order of `index` (labels must be the same set; the common case - identical order - is positional)."""
    if s.index._v == index._v or [_key(x) for x in s.index._v] == [_key(x) for x in index._v]:
        return list(s._v)
    src: Dict[Any, Any] = {}
    for lab, v in zip(s.index._v, s._v):
        k = _key(lab)
        if k in src:
            _unsupported("alignment on duplicate labels")
        src[k] = v
    return [src.get(_key(lab), NAN) for lab in index._v]


def _duplicated(keys: List[Any], keep) -> List[bool]:
    if keep == "first":
        seen, out = set(), []
        for k in keys:
            out.append(k in seen)
            seen.add(k)
        return out
    if keep == "last":
        return list(reversed(_duplicated(list(reversed(keys)), "first")))
    if keep is False:
        c = collections.Counter(keys)
        return [c[k] > 1 for k in keys]
    _unsupported(f"keep={keep!r}")


def _stable_order(rows: List[Tuple[Any, ...]], ascending: List[bool]) -> List[int]:
    pos = list(range(len(rows)))
    for c in reversed(range(len(ascending))):
        present = [i for i in pos if not isna(rows[i][c])]
        missing = [i for i in pos if isna(rows[i][c])]
        present.sort(key=lambda i: _sort_key(rows[i][c]), reverse=not ascending[c])
        if not ascending[c]:
            # a stable descending sort keeps the original order of equal keys
            groups: List[List[int]] = []
            for i in present:
                if groups and _key(rows[groups[-1][0]][c]) == _key(rows[i][c]):
                    groups[-1].append(i)
                else:
                    groups.append([i])
            present = [i for g in groups for i in sorted(g, key=pos.index)]
        pos = present + missing
    return pos


def _dtype_name(dtype: Any) -> str:
    if dtype is str:
        return "str"
    if dtype is int:
        return "int64"
    if dtype is float:
        return "float64"
    if dtype is object:
        return "object"
    if dtype is bool:
        return "bool"
    if isinstance(dtype, str) and dtype in ("category", "Int64", "int64", "int", "float64", "float", "object", "str", "bool", "string"):
        return {"int": "int64", "float": "float64", "string": "str"}.get(dtype, dtype)
    _unsupported(f"dtype {dtype!r}")


def _infer_dtype(vals: List[Any]) -> str:
    p = [v for v in vals if not isna(v)]
    if p and all(isinstance(v, bool) for v in p) and len(p) == len(vals):
        return "bool"
    if p and all(isinstance(v, int) and not isinstance(v, bool) for v in p):
        return "int64" if len(p) == len(vals) else "float64"
    if p and all(isinstance(v, (int, float)) and not isinstance(v, bool) for v in p):
        return "float64"
    return "object"


def _convert(vals: List[Any], d: str) -> List[Any]:
    if d == "object":
        return list(vals)
    if d == "category":
        return [NAN if isna(v) else v for v in vals]
    if d == "Int64":
        out = []
        for v in vals:
            if isna(v):
                out.append(NAN)
            elif isinstance(v, float) and v != int(v):
                raise TypeError("cannot safely cast non-equivalent float64 to int64")
            else:
                out.append(int(v))
        return out
    if d == "int64":
        if any(isna(v) for v in vals):
            raise ValueError("Cannot convert non-finite values (NA or inf) to integer")
        return [int(v) for v in vals]
    if d == "float64":
        return [NAN if isna(v) else float(v) for v in vals]
    if d == "str":
        return ["None" if v is None else ("nan" if isna(v) else str(v)) for v in vals]
    if d == "bool":
        return [bool(v) for v in vals]
    _unsupported(f"conversion to {d}")


class _Str:
    _folder_stub = True

    def __init__(self, s: Series):
        self._s = s
        bad = [v for v in s._v if not isna(v) and not isinstance(v, str)]
        if bad:
            raise AttributeError("Can only use .str accessor with string values!")

    def len(self):
        return self._s._new([NAN if isna(v) else len(v) for v in self._s._v])

    def __getattr__(self, name):
        if name.startswith("_") or not hasattr(str, name) or name in ("join", "format", "split", "rsplit", "partition", "encode", "splitlines"):
            raise AttributeError(name)

        def call(*a):
            return self._s._new([NAN if isna(v) else getattr(v, name)(*a) for v in self._s._v])

        return call

    def __getitem__(self, k):
        return self._s._new([NAN if isna(v) else v[k] for v in self._s._v])

    def contains(self, pat, regex=False, **kw):
        if regex or kw:
            _unsupported("str.contains with regex")
        return self._s._new([NAN if isna(v) else pat in v for v in self._s._v])


class _IndexStr:
    """`.str` of an Index: the string methods of a column, results as an Index"""

    _folder_stub = True

    def __init__(self, idx: Index):
        self._i = idx
        self._s = _Str(idx._as_series())

    def len(self):
        return Index(self._s.len()._v)

    def __getattr__(self, name):
        if name.startswith("_"):
            raise AttributeError(name)
        f = getattr(self._s, name)
        return lambda *a: Index(f(*a)._v)


class _Cat:
    _folder_stub = True

    def __init__(self, s: Series):
        self._s = s

    @property
    def categories(self):
        return Index(self._s.categories or [])

    def add_categories(self, new, **kw):
        new = list(new) if isinstance(new, (list, tuple, Index, Arr)) else [new]
        cur = list(self._s.categories or [])
        for c in new:
            if any(_key(c) == _key(x) for x in cur):
                raise ValueError(f"new categories must not include old categories: {{{c!r}}}")
        return Series(self._s._v, self._s.index, name=self._s.name, dtype="category", categories=cur + new)

    def remove_unused_categories(self):
        used = {_key(v) for v in self._s._v if not isna(v)}
        return Series(self._s._v, self._s.index, name=self._s.name, dtype="category", categories=[c for c in (self._s.categories or []) if _key(c) in used])

    @property
    def codes(self):
        cats = [_key(c) for c in (self._s.categories or [])]
        return self._s._new([-1 if isna(v) else cats.index(_key(v)) for v in self._s._v])


class _ILoc:
    _folder_stub = True

    def __init__(self, o):
        self._o = o

    def __getitem__(self, k):
        o = self._o
        if isinstance(o, Series):
            if isinstance(k, int):
                return o._v[k]
            if isinstance(k, slice):
                return o._take(list(range(len(o._v)))[k])
            _unsupported("Series.iloc with this key")
        if isinstance(k, int):
            return o._row(range(len(o.index))[k])
        if isinstance(k, slice):
            return o._take(list(range(len(o.index)))[k])
        if isinstance(k, tuple) and len(k) == 2 and isinstance(k[0], int) and isinstance(k[1], int):
            return o._cols[list(o._cols)[k[1]]][k[0]]
        _unsupported("DataFrame.iloc with this key")


class _SLoc:
    _folder_stub = True

    def __init__(self, s: Series):
        self._s = s

    def __getitem__(self, k):
        return self._s[k]

    def __setitem__(self, k, v):
        self._s[k] = v


def _rows_of(fr: "Frame", sel: Any) -> List[int]:
    """Row positions selected by labels / a boolean mask / a slice(None)."""
    if isinstance(sel, slice):
        if sel == slice(None):
            return list(range(len(fr.index)))
        _unsupported(".loc with a label slice")
    if isinstance(sel, Series) and sel.dtype == "bool":
        return [i for i, m in enumerate(_align(sel, fr.index)) if m]
    if isinstance(sel, (list, Arr)) and sel and all(isinstance(x, bool) for x in sel):
        if len(sel) != len(fr.index):
            raise IndexError("Boolean index has wrong length")
        return [i for i, m in enumerate(sel) if m]
    if isinstance(sel, (Index, list, Arr, Series)):
        labs = sel._v if isinstance(sel, (Index, Series)) else list(sel)
        where: Dict[Any, List[int]] = {}
        for i, lab in enumerate(fr.index._v):
            where.setdefault(_key(lab), []).append(i)
        out: List[int] = []
        for lab in labs:
            if _key(lab) not in where:
                raise KeyError(lab)
            out.extend(where[_key(lab)])
        return out
    pos = [i for i, lab in enumerate(fr.index._v) if _key(lab) == _key(sel)]
    if not pos:
        raise KeyError(sel)
    return pos


class _Loc:
    _folder_stub = True

    def __init__(self, fr: "Frame", at: bool = False):
        self._f, self._at = fr, at

    def __getitem__(self, k):
        fr = self._f
        if isinstance(k, tuple) and len(k) == 2:
            rows, col = k
            scalar = not isinstance(rows, (Index, list, Arr, Series, slice))
            pos = _rows_of(fr, rows)
            if isinstance(col, list):
                return fr._take(pos)[col]
            if col not in fr._cols:
                raise KeyError(col)
            if scalar and len(pos) == 1:
                return fr._cols[col][pos[0]]
            return fr[col]._take(pos)
        scalar = not isinstance(k, (Index, list, Arr, Series, slice))
        pos = _rows_of(fr, k)
        if scalar and len(pos) == 1:
            return fr._row(pos[0])
        return fr._take(pos)

    def __setitem__(self, k, v):
        fr = self._f
        if not (isinstance(k, tuple) and len(k) == 2):
            _unsupported(".loc[rows] = value")
        rows, col = k
        if isinstance(col, list):
            _unsupported(".loc[rows, [columns]] = value")
        pos = _rows_of(fr, rows)
        if col not in fr._cols:
            fr._cols[col] = [NAN] * len(fr.index)
            fr._dtypes[col] = None
            fr._cats[col] = None
        if isinstance(v, Series):
            labels = [fr.index._v[i] for i in pos]
            vals = _align(v, Index(labels))
        elif isinstance(v, (list, Arr, Index, tuple)) and not isinstance(v, str):
            vals = list(v._v) if isinstance(v, Index) else list(v)
            if len(vals) != len(pos):
                raise ValueError("Must have equal len keys and value when setting with an iterable")
        else:
            vals = [v] * len(pos)
        if fr._dtypes.get(col) == "category":
            cats = {_key(c) for c in (fr._cats.get(col) or [])}
            if any(not isna(x) and _key(x) not in cats for x in vals):
                raise TypeError("Cannot setitem on a Categorical with a new category, set the categories first")
        for i, x in zip(pos, vals):
            fr._cols[col][i] = x
        if fr._dtypes.get(col) not in ("category", "object"):
            fr._dtypes[col] = None


class Row(dict):
    """A row handed out by iterrows / iloc / apply(axis=1): a mapping column -> value with the label as `.name`."""

    _folder_stub = True

    def __init__(self, data: Dict[str, Any], name: Any = None):
        super().__init__(data)
        self.name = name

    @property
    def index(self):
        return Index(list(self.keys()))

    def __getattr__(self, k):
        if k.startswith("_") or k not in self:
            raise AttributeError(k)
        return self[k]

    def to_dict(self):
        return dict(self)


class Frame:
    _folder_stub = True
    _elementwise = True

    def __init__(self, data: Any = None, index: Optional[Iterable[Any]] = None, columns: Optional[List[str]] = None, **kw):
        if kw:
            _unsupported(f"DataFrame({', '.join(kw)}=...)")
        self.attrs: Dict[str, Any] = {}
        self._cols: Dict[Any, List[Any]] = {}
        self._dtypes: Dict[Any, Optional[str]] = {}
        self._cats: Dict[Any, Optional[List[Any]]] = {}
        idx: Optional[Index] = index if isinstance(index, Index) else (Index(index) if index is not None else None)
        if data is None:
            data = {}
        if isinstance(data, Frame):
            idx = idx or Index(data.index._v, data.index.names)
            data = {c: data[c] for c in data._cols}
        if isinstance(data, dict):
            n = None
            for v in data.values():
                if isinstance(v, Series):
                    if idx is None:
                        idx = Index(v.index._v, v.index.names)
                    n = len(v)
                elif isinstance(v, (list, tuple, Arr, Index)) and not isinstance(v, str):
                    n = len(v) if n is None else n
            if idx is None:
                if n is None and data:
                    raise ValueError("If using all scalar values, you must pass an index")
                idx = Index(range(n or 0))
            for c, v in data.items():
                if isinstance(v, Series):
                    self._cols[c] = _align(v, idx)
                    self._dtypes[c] = v.dtype if v.dtype in ("category", "object", "Int64") else None
                    self._cats[c] = v.categories
                elif isinstance(v, (list, tuple, Arr, Index)) and not isinstance(v, str):
                    vals = list(v._v) if isinstance(v, Index) else list(v)
                    if len(vals) != len(idx):
                        raise ValueError("All arrays must be of the same length")
                    self._cols[c], self._dtypes[c], self._cats[c] = vals, None, None
                else:
                    self._cols[c], self._dtypes[c], self._cats[c] = [v] * len(idx), None, None
        elif isinstance(data, (list, tuple)):
            rows = list(data)
            if rows and not all(isinstance(r, dict) for r in rows):
                if columns is None or not all(isinstance(r, (list, tuple)) and len(r) == len(columns) for r in rows):
                    _unsupported("DataFrame from a list of non-dict rows")
                rows = [dict(zip(columns, r)) for r in rows]
            names: List[Any] = list(columns) if columns is not None else []
            if columns is None:
                for r in rows:
                    for c in r:
                        if c not in names:
                            names.append(c)
            idx = idx or Index(range(len(rows)))
            for c in names:
                self._cols[c], self._dtypes[c], self._cats[c] = [r.get(c, NAN) for r in rows], None, None
        else:
            _unsupported("DataFrame from this kind of data")
        self.index: Index = idx
        if columns is not None and isinstance(data, dict):
            self._cols = {c: self._cols.get(c, [NAN] * len(idx)) for c in columns}

    # -- helpers
    def _take(self, pos: List[int]) -> "Frame":
        out = Frame()
        out.index = Index([self.index._v[i] for i in pos], self.index.names)
        for c, v in self._cols.items():
            out._cols[c] = [v[i] for i in pos]
        out._dtypes, out._cats = dict(self._dtypes), {c: (list(x) if x is not None else None) for c, x in self._cats.items()}
        out.attrs = dict(self.attrs)
        return out

    def _row(self, i: int) -> Row:
        return Row({c: v[i] for c, v in self._cols.items()}, self.index._v[i])

    def _adopt(self, other: "Frame") -> None:
        self.index, self._cols, self._dtypes, self._cats = other.index, other._cols, other._dtypes, other._cats

    # -- container protocol
    def __len__(self):
        return len(self.index)

    def __iter__(self):
        return iter(list(self._cols))

    def __contains__(self, c):
        return c in self._cols

    def __repr__(self):
        return f"Frame({list(self._cols)!r}, {len(self.index)} rows)"

    def __bool__(self):
        raise ValueError("The truth value of a DataFrame is ambiguous. Use a.empty, a.bool(), a.item(), a.any() or a.all().")

    def __getitem__(self, k):
        if isinstance(k, Series) and k.dtype == "bool":
            return self._take(_rows_of(self, k))
        if isinstance(k, (list, Arr, Index)):
            ks = list(k._v) if isinstance(k, Index) else list(k)
            if ks and all(isinstance(x, bool) for x in ks):
                return self._take(_rows_of(self, ks))
            miss = [c for c in ks if c not in self._cols]
            if miss:
                raise KeyError(f"{miss} not in index")
            out = self._take(list(range(len(self.index))))
            out._cols = {c: out._cols[c] for c in ks}
            return out
        if isinstance(k, slice):
            return self._take(list(range(len(self.index)))[k])
        if k not in self._cols:
            raise KeyError(k)
        return Series(self._cols[k], Index(self.index._v, self.index.names), name=k, dtype=self._dtypes.get(k) or None, categories=self._cats.get(k), _parent=(self, k))

    def __setitem__(self, k, v):
        if isinstance(k, (list, Series)):
            _unsupported("DataFrame[list / mask] = value")
        if isinstance(v, Series):
            self._cols[k] = _align(v, self.index)
            self._dtypes[k] = v.dtype if v.dtype in ("category", "object", "Int64") else None
            self._cats[k] = v.categories
        elif isinstance(v, (list, Arr, Index, tuple)) and not isinstance(v, str):
            vals = list(v._v) if isinstance(v, Index) else list(v)
            if len(vals) != len(self.index):
                raise ValueError("Length of values does not match length of index")
            self._cols[k], self._dtypes[k], self._cats[k] = vals, None, None
        else:
            self._cols[k], self._dtypes[k], self._cats[k] = [v] * len(self.index), ("object" if v is None else None), None

    def __delitem__(self, k):
        if k not in self._cols:
            raise KeyError(k)
        del self._cols[k]

    def get(self, k, default=None):
        return self[k] if k in self._cols else default

    # -- attributes
    @property
    def columns(self):
        return Index(list(self._cols))

    @columns.setter
    def columns(self, names):
        names = list(names)
        if len(names) != len(self._cols):
            raise ValueError("Length mismatch")
        old = list(self._cols)
        self._cols = {n: self._cols[o] for n, o in zip(names, old)}
        self._dtypes = {n: self._dtypes.get(o) for n, o in zip(names, old)}
        self._cats = {n: self._cats.get(o) for n, o in zip(names, old)}

    @property
    def empty(self):
        return len(self.index) == 0 or not self._cols

    @property
    def shape(self):
        return (len(self.index), len(self._cols))

    @property
    def loc(self):
        return _Loc(self)

    @property
    def at(self):
        return _Loc(self, at=True)

    @property
    def iloc(self):
        return _ILoc(self)

    @property
    def dtypes(self):
        return Series([self[c].dtype for c in self._cols], list(self._cols))

    # -- copies and conversions
    def copy(self, deep=True):
        return self._take(list(range(len(self.index))))

    def astype(self, dtype, **kw):
        _check_kwargs("astype", kw, ("copy", "errors"))
        out = self.copy()
        for c in list(out._cols):
            d = dtype.get(c) if isinstance(dtype, dict) else dtype
            if d is not None:
                out[c] = self[c].astype(d)
        return out

    def fillna(self, value=None, inplace=False, **kw):
        _check_kwargs("fillna", kw, ())
        out = self if inplace else self.copy()
        for c in list(out._cols):
            v = value.get(c, "<none>") if isinstance(value, dict) else value
            if v != "<none>":
                out[c] = Frame.__getitem__(out, c).fillna(v)
        return None if inplace else out

    def isna(self):
        return self._map(lambda v: isna(v))

    isnull = isna

    def notna(self):
        return self._map(lambda v: not isna(v))

    def _map(self, f) -> "Frame":
        out = self.copy()
        for c in out._cols:
            out._cols[c] = [f(v) for v in out._cols[c]]
            out._dtypes[c], out._cats[c] = None, None
        return out

    def to_dict(self, orient="dict", **kw):
        if orient == "records":
            return [dict(self._row(i)) for i in range(len(self.index))]
        if orient == "list":
            return {c: list(v) for c, v in self._cols.items()}
        if orient == "dict":
            return {c: dict(zip(self.index._v, v)) for c, v in self._cols.items()}
        _unsupported(f"to_dict({orient!r})")

    def assign(self, **kw):
        out = self.copy()
        for k, v in kw.items():
            out[k] = v(out) if callable(v) else v
        return out

    # -- iteration over rows
    def iterrows(self):
        return [(self.index._v[i], self._row(i)) for i in range(len(self.index))]

    def itertuples(self, index=True, name="Pandas"):
        cols = list(self._cols)
        fields = (["Index"] if index else []) + [str(c) for c in cols]
        if name is None:
            mk = tuple
        else:
            nt = collections.namedtuple(name, fields, rename=True)
            mk = lambda vals: nt(*vals)
        return [mk(([self.index._v[i]] if index else []) + [self._cols[c][i] for c in cols]) for i in range(len(self.index))]

    def apply(self, f, axis=0, **kw):
        _check_kwargs("apply", kw, ())
        if axis in (1, "columns"):
            return Series([f(self._row(i)) for i in range(len(self.index))], Index(self.index._v, self.index.names))
        _unsupported("DataFrame.apply over columns")

    # -- rows: selection, order, labels
    def head(self, n=5):
        return self._take(list(range(len(self.index)))[:n])

    def duplicated(self, subset=None, keep="first"):
        cols = [subset] if isinstance(subset, str) else (list(subset) if subset is not None else list(self._cols))
        keys = [tuple(_key(self._cols[c][i]) for c in cols) for i in range(len(self.index))]
        return Series(_duplicated(keys, keep), Index(self.index._v, self.index.names), dtype="bool")

    def drop_duplicates(self, subset=None, keep="first", inplace=False, ignore_index=False, **kw):
        _check_kwargs("drop_duplicates", kw, ())
        d = self.duplicated(subset, keep)._v
        out = self._take([i for i, x in enumerate(d) if not x])
        if ignore_index:
            out.index = Index(range(len(out.index)))
        if inplace:
            self._adopt(out)
            return None
        return out

    def dropna(self, subset=None, **kw):
        _check_kwargs("dropna", kw, ("how",))
        cols = [subset] if isinstance(subset, str) else (list(subset) if subset is not None else list(self._cols))
        how_all = kw.get("how", "any") == "all"
        keep = []
        for i in range(len(self.index)):
            flags = [isna(self._cols[c][i]) for c in cols]
            if not (all(flags) if how_all else any(flags)):
                keep.append(i)
        return self._take(keep)

    def sort_index(self, inplace=False, **kw):
        _check_kwargs("sort_index", kw, ("kind", "ascending"))
        pos = sorted(range(len(self.index)), key=lambda i: _sort_key(self.index._v[i]), reverse=not kw.get("ascending", True))
        out = self._take(pos)
        if inplace:
            self._adopt(out)
            return None
        return out

    def sort_values(self, by=None, ascending=True, inplace=False, ignore_index=False, **kw):
        _check_kwargs("sort_values", kw, ("kind", "na_position"))
        if kw.get("na_position", "last") != "last":
            _unsupported("na_position='first'")
        cols = [by] if not isinstance(by, list) else list(by)
        for c in cols:
            if c not in self._cols:
                raise KeyError(c)
        asc = [ascending] * len(cols) if isinstance(ascending, bool) else list(ascending)
        kind = kw.get("kind")
        if len(cols) == 1 and kind not in ("stable", "mergesort") and len(self.index) > 1:
            # the default quicksort of a single key is not stable: equal keys may come out in any order
            keys = [_key(v) for v in self._cols[cols[0]]]
            if len(set(keys)) != len(keys):
                _unsupported("sort_values on one key with ties and without kind='stable' (row order of equal keys is unspecified)")
        rows = [tuple(self._cols[c][i] for c in cols) for i in range(len(self.index))]
        out = self._take(_stable_order(rows, asc))
        if ignore_index:
            out.index = Index(range(len(out.index)))
        if inplace:
            self._adopt(out)
            return None
        return out

    def reset_index(self, drop=False, inplace=False, **kw):
        _check_kwargs("reset_index", kw, ())
        out = self.copy()
        if not drop:
            new: Dict[Any, List[Any]] = {}
            if len(self.index.names) == 1:
                new[self.index.names[0] if self.index.names[0] is not None else "index"] = list(self.index._v)
            else:
                for k, nm in enumerate(self.index.names):
                    new[nm if nm is not None else f"level_{k}"] = [t[k] for t in self.index._v]
            for c in new:
                if c in out._cols:
                    raise ValueError(f"cannot insert {c}, already exists")
            out._cols = {**new, **out._cols}
        out.index = Index(range(len(self.index)))
        if inplace:
            self._adopt(out)
            return None
        return out

    def set_index(self, keys, drop=True, inplace=False, **kw):
        _check_kwargs("set_index", kw, ())
        ks = [keys] if not isinstance(keys, list) else list(keys)
        for c in ks:
            if c not in self._cols:
                raise KeyError(c)
        out = self.copy()
        if len(ks) == 1:
            out.index = Index([NAN if isna(v) else v for v in self._cols[ks[0]]], [ks[0]])
        else:
            out.index = Index([tuple(NAN if isna(self._cols[c][i]) else self._cols[c][i] for c in ks) for i in range(len(self.index))], ks)
        if drop:
            for c in ks:
                del out._cols[c]
        if inplace:
            self._adopt(out)
            return None
        return out

    def drop(self, labels=None, axis=0, columns=None, inplace=False, **kw):
        _check_kwargs("drop", kw, ("errors",))
        if columns is None and axis in (1, "columns"):
            columns = labels
        if columns is None:
            _unsupported("drop of rows")
        cols = [columns] if not isinstance(columns, (list, tuple, Index)) else list(columns)
        miss = [c for c in cols if c not in self._cols]
        if miss and kw.get("errors") != "ignore":
            raise KeyError(f"{miss} not found in axis")
        out = self if inplace else self.copy()
        for c in cols:
            out._cols.pop(c, None)
        return None if inplace else out

    def rename(self, columns=None, inplace=False, **kw):
        _check_kwargs("rename", kw, ("errors",))
        if columns is None:
            _unsupported("rename without columns=")
        f = (lambda c: columns.get(c, c)) if isinstance(columns, dict) else columns
        out = self if inplace else self.copy()
        names = [f(c) for c in out._cols]
        out._cols = dict(zip(names, [out._cols[c] for c in list(out._cols)])) if len(set(names)) == len(names) else _dup_columns(names)
        out._dtypes = {f(c): d for c, d in out._dtypes.items()}
        out._cats = {f(c): d for c, d in out._cats.items()}
        return None if inplace else out

    def shift(self, periods=1, **kw):
        _check_kwargs("shift", kw, ())
        out = self.copy()
        for c in out._cols:
            out._cols[c] = Frame.__getitem__(self, c).shift(periods)._v
            out._dtypes[c], out._cats[c] = ("object" if self._dtypes.get(c) in ("object", "category") else None), None
        return out

    def groupby(self, by=None, level=None, **kw):
        _check_kwargs("groupby", kw, ("sort", "dropna", "observed", "group_keys", "as_index"))
        if kw.get("as_index", True) is not True:
            _unsupported("groupby(as_index=False)")
        if level is not None and by is None:
            lv = level if isinstance(level, (list, tuple)) else [level]
            ks = [self.index._level(l) for l in lv]
            names = [self.index.names[k] for k in ks]
            keys = [[v] for v in self.index._v] if len(self.index.names) == 1 else [[t[k] for k in ks] for t in self.index._v]
            return FrameGroupBy(self, keys, names, kw.get("sort", True), kw.get("dropna", True), scalar_key=not isinstance(level, (list, tuple)), key_cols=[])
        if by is None:
            raise TypeError("You have to supply one of 'by' and 'level'")
        bys = by if isinstance(by, list) else [by]
        cols, names, key_cols = [], [], []
        for b in bys:
            if isinstance(b, Series):
                cols.append(_align(b, self.index))
                names.append(b.name)
            elif isinstance(b, (Arr, Index)) or (isinstance(b, list)):
                _unsupported("groupby by an array")
            elif callable(b):
                _unsupported("groupby by a function")
            else:
                if b not in self._cols:
                    raise KeyError(b)
                cols.append(list(self._cols[b]))
                names.append(b)
                key_cols.append(b)
        keys = [list(t) for t in zip(*cols)] if len(self.index) else []
        return FrameGroupBy(self, keys, names, kw.get("sort", True), kw.get("dropna", True), scalar_key=not isinstance(by, list), key_cols=key_cols)

    # -- element-wise
    def _ew(self, other, f) -> "Frame":
        out = self.copy()
        for c in out._cols:
            if isinstance(other, Frame):
                if list(other._cols) != list(self._cols) or [_key(x) for x in other.index._v] != [_key(x) for x in self.index._v]:
                    _unsupported("comparison of differently labelled frames")
                o = other._cols[c]
                out._cols[c] = [f(a, b) for a, b in zip(self._cols[c], o)]
            else:
                out._cols[c] = [f(a, other) for a in self._cols[c]]
            out._dtypes[c], out._cats[c] = None, None
        return out

    def __ne__(self, o):
        return self._ew(o, _ne)

    def __eq__(self, o):
        return self._ew(o, _eq)

    def ne(self, o):
        return self.__ne__(o)

    def eq(self, o):
        return self.__eq__(o)

    __hash__ = None

    def any(self, axis=0, **kw):
        _check_kwargs("any", kw, ())
        if axis in (1, "columns"):
            return Series([any(bool(self._cols[c][i]) for c in self._cols if not isna(self._cols[c][i])) for i in range(len(self.index))], Index(self.index._v, self.index.names), dtype="bool")
        return Series([any(bool(v) for v in self._cols[c] if not isna(v)) for c in self._cols], list(self._cols), dtype="bool")

    def all(self, axis=0, **kw):
        _check_kwargs("all", kw, ())
        if axis in (1, "columns"):
            return Series([all(bool(self._cols[c][i]) for c in self._cols if not isna(self._cols[c][i])) for i in range(len(self.index))], Index(self.index._v, self.index.names), dtype="bool")
        return Series([all(bool(v) for v in self._cols[c] if not isna(v)) for c in self._cols], list(self._cols), dtype="bool")

    def nunique(self, **kw):
        _check_kwargs("nunique", kw, ("dropna",))
        return Series([Frame.__getitem__(self, c).nunique(kw.get("dropna", True)) for c in self._cols], list(self._cols))


def _dup_columns(names):
    _unsupported(f"duplicate column names {sorted(n for n in set(names) if names.count(n) > 1)}")


class _Groups:
    """Common part of the two group-by objects: the groups as lists of row positions, in result order."""

    _folder_stub = True

    def _build(self, keys: List[List[Any]], names: List[Any], sort: bool, dropna: bool, scalar_key: bool) -> None:
        self._names = list(names)
        self._scalar = scalar_key and len(names) == 1
        groups: Dict[Any, List[int]] = {}
        first: Dict[Any, Any] = {}
        for i, k in enumerate(keys):
            if dropna and any(isna(x) for x in k):
                continue
            kk = tuple(_key(x) for x in k)
            groups.setdefault(kk, []).append(i)
            first.setdefault(kk, tuple(k))
        order = list(groups)
        if sort:
            order.sort(key=lambda kk: tuple(_sort_key(x) for x in first[kk]))
        self._groups: List[Tuple[Any, List[int]]] = [((first[kk][0] if self._scalar else first[kk]), groups[kk]) for kk in order]

    def _key_index(self) -> Index:
        if len(self._names) == 1:
            return Index([k if self._scalar else k[0] for k, _ in self._groups], self._names)
        return Index([k for k, _ in self._groups], self._names)

    @property
    def ngroups(self):
        return len(self._groups)

    def __len__(self):
        return len(self._groups)

    def _row_series(self, n: int, f: Callable[[int, int, List[int]], Any], index: Index) -> "Series":
        vals: List[Any] = [NAN] * n
        for g, (_, pos) in enumerate(self._groups):
            for j, i in enumerate(pos):
                vals[i] = f(g, j, pos)
        return Series(vals, Index(index._v, index.names))

    def size(self):
        return Series([len(pos) for _, pos in self._groups], self._key_index())


class FrameGroupBy(_Groups):
    def __init__(self, fr: Frame, keys: List[List[Any]], names: List[Any], sort: bool, dropna: bool, scalar_key: bool, key_cols: List[Any], only: Optional[List[Any]] = None):
        self._f, self._keys, self._sort, self._dropna, self._scalar_key, self._key_cols, self._only = fr, keys, sort, dropna, scalar_key, key_cols, only
        self._build(keys, names, sort, dropna, scalar_key)

    def _sub(self, pos: List[int]) -> Frame:
        out = self._f._take(pos)
        if self._only is not None:
            out._cols = {c: out._cols[c] for c in self._only}
        return out

    def __iter__(self):
        return iter([(k, self._sub(pos)) for k, pos in self._groups])

    def __getitem__(self, c):
        if isinstance(c, list):
            for x in c:
                if x not in self._f._cols:
                    raise KeyError(x)
            return FrameGroupBy(self._f, self._keys, self._names, self._sort, self._dropna, self._scalar_key, self._key_cols, only=list(c))
        if c not in self._f._cols:
            raise KeyError(c)
        return SeriesGroupBy(Frame.__getitem__(self._f, c), self._keys, self._names, self._sort, self._dropna, scalar_key=self._scalar_key)

    def get_group(self, k):
        for key, pos in self._groups:
            if _key(key) == _key(k):
                return self._sub(pos)
        raise KeyError(k)

    @property
    def groups(self):
        return {k: Index([self._f.index._v[i] for i in pos]) for k, pos in self._groups}

    def apply(self, f, **kw):
        _check_kwargs("apply", kw, ("include_groups",))
        res = []
        for k, pos in self._groups:
            sub = self._sub(pos)
            if kw.get("include_groups") is False:
                sub._cols = {c: v for c, v in sub._cols.items() if c not in self._key_cols}
            res.append(f(sub))
        if any(isinstance(r, (Frame, Series, list, dict)) for r in res):
            _unsupported("groupby.apply with a non-scalar result")
        return Series(res, self._key_index())

    def cumcount(self):
        return self._row_series(len(self._f.index), lambda g, j, pos: j, self._f.index)

    def ngroup(self):
        return self._row_series(len(self._f.index), lambda g, j, pos: g, self._f.index)

    def nunique(self, **kw):
        _unsupported("DataFrameGroupBy.nunique")

    def first(self):
        _unsupported("DataFrameGroupBy.first")


class SeriesGroupBy(_Groups):
    def __init__(self, s: Series, keys: List[List[Any]], names: List[Any], sort: bool = True, dropna: bool = True, scalar_key: bool = True):
        self._s = s
        self._build(keys, names, sort, dropna, scalar_key)

    def __iter__(self):
        return iter([(k, self._s._take(pos)) for k, pos in self._groups])

    def _agg(self, f: Callable[[Series], Any]) -> Series:
        return Series([f(self._s._take(pos)) for _, pos in self._groups], self._key_index(), name=self._s.name)

    def size(self):
        return Series([len(pos) for _, pos in self._groups], self._key_index(), name=self._s.name)

    def count(self):
        return self._agg(lambda s: s.count())

    def nunique(self, dropna=True):
        return self._agg(lambda s: s.nunique(dropna))

    def sum(self):
        return self._agg(lambda s: s.sum())

    def max(self):
        return self._agg(lambda s: s.max())

    def min(self):
        return self._agg(lambda s: s.min())

    def first(self):
        return self._agg(lambda s: next((v for v in s._v if not isna(v)), NAN))

    def apply(self, f, **kw):
        _check_kwargs("apply", kw, ())
        res = [f(self._s._take(pos)) for _, pos in self._groups]
        if any(isinstance(r, (Frame, Series, list, dict)) for r in res):
            _unsupported("groupby.apply with a non-scalar result")
        return Series(res, self._key_index(), name=self._s.name)

    def agg(self, f, **kw):
        if kw or not (callable(f) or f in ("size", "count", "nunique", "sum", "max", "min", "first")):
            _unsupported("SeriesGroupBy.agg with this argument")
        return getattr(self, f)() if isinstance(f, str) else self.apply(f)

    def _per_row(self, f: Callable[[Series], List[Any]]) -> Series:
        vals: List[Any] = [NAN] * len(self._s._v)
        for _, pos in self._groups:
            for i, v in zip(pos, f(self._s._take(pos))):
                vals[i] = v
        return Series(vals, Index(self._s.index._v, self._s.index.names), name=self._s.name)

    def cumsum(self):
        return self._per_row(lambda s: s.cumsum()._v)

    def cumcount(self):
        return self._per_row(lambda s: list(range(len(s._v))))

    def ngroup(self):
        return self._row_series(len(self._s._v), lambda g, j, pos: g, self._s.index)

    def shift(self, periods=1):
        return self._per_row(lambda s: s.shift(periods)._v)

    def transform(self, f, **kw):
        if kw:
            _unsupported("transform with keywords")
        if isinstance(f, str):
            if f in ("cumsum", "cumcount"):
                return getattr(self, f)()
            if f in ("size", "count", "nunique", "sum", "max", "min", "first"):
                red = {"size": lambda s: len(s._v), "count": lambda s: s.count(), "nunique": lambda s: s.nunique(), "sum": lambda s: s.sum(), "max": lambda s: s.max(), "min": lambda s: s.min(), "first": lambda s: next((v for v in s._v if not isna(v)), NAN)}[f]
                return self._per_row(lambda s: [red(s)] * len(s._v))
            _unsupported(f"transform({f!r})")

        def one(s: Series) -> List[Any]:
            r = f(s)
            return list(r._v) if isinstance(r, Series) else [r] * len(s._v)

        return self._per_row(one)


# ------------------------------------------------------------------------------------------------------------------------
# the `pd` namespace
# ------------------------------------------------------------------------------------------------------------------------
def to_numeric(arg, errors="raise", **kw):
    _check_kwargs("to_numeric", kw, ("downcast",))

    def one(v):
        if isna(v):
            return NAN
        if isinstance(v, bool):
            return int(v)
        if isinstance(v, (int, float)):
            return v
        if isinstance(v, str):
            t = v.strip()
            try:
                return int(t)
            except ValueError:
                try:
                    return float(t)
                except ValueError:
                    pass
        if errors == "coerce":
            return NAN
        raise ValueError(f'Unable to parse string "{v}"')

    if isinstance(arg, Series):
        return Series([one(v) for v in arg._v], arg.index, name=arg.name)
    if isinstance(arg, Index):
        return Index([one(v) for v in arg._v], arg.names)
    if isinstance(arg, (list, tuple, Arr)):
        return Arr([one(v) for v in arg])
    return one(arg)


def concat(objs, ignore_index=False, **kw):
    _check_kwargs("concat", kw, ("axis",))
    if kw.get("axis", 0) not in (0, "index"):
        _unsupported("concat along columns")
    objs = [o for o in objs if o is not None]
    if not objs:
        raise ValueError("No objects to concatenate")
    if all(isinstance(o, Series) for o in objs):
        out = Series([v for o in objs for v in o._v], Index([l for o in objs for l in o.index._v]))
        return out.reset_index(drop=True) if ignore_index else out
    if not all(isinstance(o, Frame) for o in objs):
        _unsupported("concat of mixed objects")
    cols: List[Any] = []
    for o in objs:
        for c in o._cols:
            if c not in cols:
                cols.append(c)
    out = Frame()
    out.index = Index(range(sum(len(o.index) for o in objs))) if ignore_index else Index([l for o in objs for l in o.index._v])
    for c in cols:
        out._cols[c] = [v for o in objs for v in (o._cols[c] if c in o._cols else [NAN] * len(o.index))]
        ds = {o._dtypes.get(c) for o in objs if c in o._cols}
        out._dtypes[c] = ds.pop() if len(ds) == 1 and ds != {"category"} else None
        out._cats[c] = None
    out.attrs = dict(objs[0].attrs) if all(o.attrs == objs[0].attrs for o in objs) else {}
    return out


def _is_categorical(x) -> bool:
    return isinstance(x, Series) and x.dtype == "category"


class _NS:
    _folder_stub = True

    def __init__(self, **kw):
        self.__dict__.update(kw)


def pd_namespace() -> _NS:
    types = _NS(
        is_categorical_dtype=_is_categorical,
        is_numeric_dtype=lambda x: isinstance(x, Series) and x.dtype in ("int64", "float64", "Int64", "bool"),
        is_integer_dtype=lambda x: isinstance(x, Series) and x.dtype in ("int64", "Int64"),
        is_object_dtype=lambda x: isinstance(x, Series) and x.dtype == "object",
        is_string_dtype=lambda x: isinstance(x, Series) and x.dtype in ("object", "str"),
    )
    return _NS(
        DataFrame=Frame,
        Series=Series,
        Index=Index,
        to_numeric=to_numeric,
        concat=concat,
        isna=lambda v: v.isna() if isinstance(v, (Series, Frame)) else isna(v),
        isnull=lambda v: v.isna() if isinstance(v, (Series, Frame)) else isna(v),
        notna=lambda v: v.notna() if isinstance(v, (Series, Frame)) else not isna(v),
        notnull=lambda v: v.notna() if isinstance(v, (Series, Frame)) else not isna(v),
        NA=NAN,
        api=_NS(types=types),
        CategoricalDtype=CategoricalDtype,
    )


def frame_from_rows(rows: Sequence[Dict[str, Any]], fmt: Optional[str] = None, categories: Sequence[str] = (), ints: Sequence[str] = (), index: Optional[Iterable[Any]] = None) -> Frame:
    """A table as the readers build it: `categories` become category columns (missing -> NaN), `ints` nullable integers."""
    fr = Frame(list(rows), index=index)
    for c in categories:
        if c in fr._cols:
            fr[c] = Frame.__getitem__(fr, c).astype("category")
    for c in ints:
        if c in fr._cols:
            fr[c] = Frame.__getitem__(fr, c).astype("Int64")
    if fmt is not None:
        fr.attrs["format"] = fmt
    return fr
