"""Shape vs fact: classify how a piece of code differs from the form a rule expects (DESIGN.md §1.4).

A rule that expects a statement list / expression of a known form distinguishes
  ok       - identical up to layout (and local names, see sa/align.py),
  fact     - same syntactic skeleton (node types and arity) but another identifier, constant or operator somewhere:
             the construct was recognised and one of its facts is wrong                       -> VIOLATION
  missing  - the expected statements are all there verbatim except that some are gone, nothing was added in their
             place: a required step was removed                                                -> VIOLATION
  shape    - anything else (statements added or rewritten in another syntactic form, helpers extracted, loops turned
             into comprehensions ...): the idiom is outside what the rule can read              -> ANALYSIS-ERROR
Additions that cannot affect data flow (logging calls, `pass`, docstrings, comments) are ignored.
"""
from __future__ import annotations

import ast
import difflib
from typing import List, Optional, Sequence, Tuple, Union


def flat(x: Union[str, ast.AST, Sequence[ast.AST]]) -> str:
    if isinstance(x, (list, tuple)):
        return "\n".join(flat(s) for s in x)
    t = x if isinstance(x, str) else ast.unparse(x)
    return t.replace("(", "").replace(")", "").replace(" ", "")


class _Skeleton(ast.NodeVisitor):
    """Node-type structure with identifiers, constants and operator kinds erased."""

    def sk(self, n: ast.AST) -> str:
        if isinstance(n, ast.Name):
            return "N"
        if isinstance(n, ast.Constant):
            return "K"
        if isinstance(n, ast.Attribute):
            return f"A({self.sk(n.value)})"
        if isinstance(n, ast.Compare):
            return "Cmp(" + ",".join(self.sk(x) for x in [n.left] + list(n.comparators)) + ")"
        if isinstance(n, ast.BoolOp):
            return "Bool(" + ",".join(self.sk(x) for x in n.values) + ")"
        if isinstance(n, ast.BinOp):
            return f"Bin({self.sk(n.left)},{self.sk(n.right)})"
        if isinstance(n, ast.UnaryOp):
            return f"Un({self.sk(n.operand)})"
        if isinstance(n, ast.keyword):
            return f"kw({self.sk(n.value)})"
        if isinstance(n, ast.arg):
            return "arg"
        parts = []
        for f in n._fields:
            if f in ("ctx", "type_comment", "kind", "lineno"):
                continue
            v = getattr(n, f, None)
            if isinstance(v, list):
                parts.append("[" + ",".join(self.sk(x) if isinstance(x, ast.AST) else "_" for x in v) + "]")
            elif isinstance(v, ast.AST):
                parts.append(self.sk(v))
            elif f in ("op", "ops"):
                continue
        return type(n).__name__ + "(" + ",".join(parts) + ")"


def skeleton(n: Union[ast.AST, Sequence[ast.AST]]) -> str:
    if isinstance(n, (list, tuple)):
        return ";".join(skeleton(s) for s in n)
    return _Skeleton().sk(n)


def _inert(st: ast.AST) -> bool:
    """A statement that cannot change what the surrounding code computes."""
    if isinstance(st, ast.Pass):
        return True
    if isinstance(st, ast.Expr):
        v = st.value
        if isinstance(v, ast.Constant):
            return True
        if isinstance(v, ast.Call):
            d = ast.unparse(v.func)
            return d.startswith(("logging.", "logger.", "log.", "warnings.warn")) or d in ("print",)
    return False


def parse_block(src: str) -> List[ast.stmt]:
    return ast.parse(src).body


def _pure(e: ast.AST) -> bool:
    """Expression without calls (reads of names, attributes, items, arithmetic, comparisons, displays)."""
    return not any(isinstance(n, (ast.Call, ast.Await, ast.Yield, ast.YieldFrom, ast.NamedExpr, ast.Lambda, ast.ListComp, ast.SetComp, ast.DictComp, ast.GeneratorExp)) for n in ast.walk(e))


def _assigned(stmts: Sequence[ast.AST]) -> List[str]:
    out: List[str] = []
    for st in stmts:
        for n in ast.walk(st):
            if isinstance(n, ast.Name) and isinstance(n.ctx, (ast.Store, ast.Del)):
                out.append(n.id)
    return out


def propagate(stmts: Sequence[ast.stmt]) -> List[ast.stmt]:
    """Copy propagation inside one statement list: a temporary bound once to a call-free expression is substituted into
    the statements that follow and its assignment dropped, so introducing or inlining a temporary is not a difference."""
    import copy

    body = [copy.deepcopy(s) for s in stmts]
    i = 0
    while i < len(body):
        st = body[i]
        binds: List[Tuple[str, ast.AST]] = []
        if isinstance(st, ast.Assign) and len(st.targets) == 1:
            t = st.targets[0]
            if isinstance(t, ast.Name) and _pure(st.value):
                binds = [(t.id, st.value)]
            elif isinstance(t, ast.Tuple) and isinstance(st.value, ast.Tuple) and len(t.elts) == len(st.value.elts) and all(isinstance(e, ast.Name) for e in t.elts) and _pure(st.value):
                binds = [(e.id, v) for e, v in zip(t.elts, st.value.elts)]
        rest = body[i + 1 :]
        names = [b[0] for b in binds]
        later_assigned = _assigned(rest)
        # the value must not depend on names re-bound later in the list, the temp must not be re-bound, and must be used
        ok = bool(binds) and not any(n in later_assigned for n in names)
        if ok:
            deps = {x.id for _, v in binds for x in ast.walk(v) if isinstance(x, ast.Name)}
            ok = not (deps & set(later_assigned)) and not (deps & set(names))
        if ok:
            used = any(isinstance(x, ast.Name) and x.id in names and isinstance(x.ctx, ast.Load) for r in rest for x in ast.walk(r))
            ok = used
        if ok:
            env = dict(binds)

            class Sub(ast.NodeTransformer):
                def visit_Name(self, n: ast.Name):
                    if isinstance(n.ctx, ast.Load) and n.id in env:
                        return copy.deepcopy(env[n.id])
                    return n

            body = body[:i] + [ast.fix_missing_locations(Sub().visit(r)) for r in rest]
            continue
        i += 1
    return body


def _opcodes(e: Sequence[str], a: Sequence[str]) -> List[Tuple[str, int, int, int, int]]:
    """Optimal (longest common subsequence) alignment as difflib-style opcodes; exact for repeated statements."""
    n, m = len(e), len(a)
    L = [[0] * (m + 1) for _ in range(n + 1)]
    for i in range(n - 1, -1, -1):
        for j in range(m - 1, -1, -1):
            L[i][j] = L[i + 1][j + 1] + 1 if e[i] == a[j] else max(L[i + 1][j], L[i][j + 1])
    ops: List[Tuple[str, int, int, int, int]] = []
    i = j = 0
    pend_i = pend_j = None

    def flush(i2: int, j2: int) -> None:
        nonlocal pend_i, pend_j
        if pend_i is None:
            return
        di, dj = i2 - pend_i, j2 - pend_j
        if di and dj:
            ops.append(("replace", pend_i, i2, pend_j, j2))
        elif di:
            ops.append(("delete", pend_i, i2, pend_j, j2))
        elif dj:
            ops.append(("insert", pend_i, i2, pend_j, j2))
        pend_i = pend_j = None

    while i < n or j < m:
        if i < n and j < m and e[i] == a[j]:
            flush(i, j)
            if ops and ops[-1][0] == "equal":
                t = ops[-1]
                ops[-1] = ("equal", t[1], i + 1, t[3], j + 1)
            else:
                ops.append(("equal", i, i + 1, j, j + 1))
            i += 1
            j += 1
        else:
            if pend_i is None:
                pend_i, pend_j = i, j
            if j < m and (i == n or L[i][j + 1] >= L[i + 1][j]):
                j += 1
            else:
                i += 1
    flush(n, m)
    return ops


def _tokens(n: ast.AST) -> List[str]:
    """Pre-order node-type tokens of an expression/simple statement (operators and identifiers erased)."""
    out: List[str] = []
    for x in ast.walk(n):
        if isinstance(x, (ast.expr_context, ast.operator, ast.cmpop, ast.boolop, ast.unaryop)):
            continue
        out.append(type(x).__name__)
    return out


def similar(a: ast.AST, b: ast.AST, threshold: float = 0.5) -> bool:
    """Two expressions / simple statements have the same shape up to a local difference (a changed operand, an added or
    dropped +-1, a dropped conjunct ...): node-type token sequences overlap by at least `threshold`."""
    ta, tb = _tokens(a), _tokens(b)
    if ta == tb:
        return True
    return difflib.SequenceMatcher(None, ta, tb, autojunk=False).ratio() >= threshold


def _header(st: ast.AST) -> List[ast.AST]:
    return [getattr(st, f) for f in ("test", "iter", "target") if getattr(st, f, None) is not None]


def _pair(act: ast.stmt, exp: ast.stmt) -> str:
    """ok | fact | missing | shape for two statements at corresponding positions."""
    if flat(act) == flat(exp):
        return "ok"
    if type(act) is not type(exp):
        return "shape"
    if not _has_blocks(exp):
        return "fact" if similar(act, exp) else "shape"
    ha, he = _header(act), _header(exp)
    if len(ha) != len(he) or not all(similar(x, y) for x, y in zip(ha, he)):
        return "shape"
    res = set()
    if any(flat(x) != flat(y) for x, y in zip(ha, he)):
        res.add("fact")
    for f in ("body", "orelse", "finalbody"):
        a, e = getattr(act, f, None) or [], getattr(exp, f, None) or []
        if isinstance(act, ast.Try) and f == "body":
            pass
        if not a and not e:
            continue
        k, _ = classify_block(a, e, _prop=False)
        res.add(k)
    if isinstance(act, ast.Try):
        if len(act.handlers) != len(exp.handlers):
            return "shape"
        for h1, h2 in zip(act.handlers, exp.handlers):
            if flat(h1.type) if h1.type is not None else "" != (flat(h2.type) if h2.type is not None else ""):
                res.add("fact")
            k, _ = classify_block(h1.body, h2.body, _prop=False)
            res.add(k)
    res.discard("ok")
    if not res:
        return "fact"
    if "shape" in res:
        return "shape"
    return "fact" if "fact" in res else "missing"


def classify_block(actual: Sequence[ast.stmt], expected: Union[str, Sequence[ast.stmt]], _prop: bool = True) -> Tuple[str, str]:
    exp = parse_block(expected) if isinstance(expected, str) else list(expected)
    act = [s for s in actual if not _inert(s)]
    exp = [s for s in exp if not _inert(s)]
    if [flat(s) for s in act] == [flat(s) for s in exp]:
        return "ok", ""
    if _prop:
        # compare as written and with temporaries propagated; keep the more specific verdict
        r1 = classify_block(act, exp, _prop=False)
        if r1[0] != "shape":
            return r1
        r2 = classify_block(propagate(act), propagate(exp), _prop=False)
        return r2 if r2[0] != "shape" else r1
    a, e = [flat(s) for s in act], [flat(s) for s in exp]
    if a == e:
        return "ok", ""
    kinds = set()
    notes: List[str] = []

    def note(kind: str, text: str) -> None:
        kinds.add(kind)
        if len(notes) < 4:
            notes.append(text)

    for tag, i1, i2, j1, j2 in _opcodes(e, a):
        if tag == "equal":
            continue
        if tag == "delete":
            for k in range(i1, i2):
                note("missing", f"required step `{ast.unparse(exp[k]).splitlines()[0][:80]}` is gone")
            continue
        if tag == "insert":
            note("shape", "statements were added: " + "; ".join(ast.unparse(x).splitlines()[0][:60] for x in act[j1:j2][:3]))
            continue
        # replace: align the two ranges by statement kind, then compare pairwise
        ke = [type(x).__name__ for x in exp[i1:i2]]
        ka = [type(x).__name__ for x in act[j1:j2]]
        for t2, a1, a2, b1, b2 in _opcodes(ke, ka):
            if t2 == "equal":
                for k in range(a2 - a1):
                    x, y = act[j1 + b1 + k], exp[i1 + a1 + k]
                    r = _pair(x, y)
                    if r == "ok":
                        continue
                    if r == "shape":
                        note("shape", f"`{ast.unparse(x).splitlines()[0][:70]}` is written in another form than `{ast.unparse(y).splitlines()[0][:70]}`")
                    else:
                        note(r, f"`{ast.unparse(x).splitlines()[0][:80]}` where `{ast.unparse(y).splitlines()[0][:80]}` is required")
            elif t2 == "delete":
                for k in range(a1, a2):
                    note("missing", f"required step `{ast.unparse(exp[i1 + k]).splitlines()[0][:80]}` is gone")
            else:
                note("shape", "statements were added or recast: " + "; ".join(ast.unparse(x).splitlines()[0][:60] for x in act[j1 + b1 : j1 + b2][:3]))
    if "shape" in kinds:
        return "shape", "; ".join(notes)
    if kinds == {"missing"}:
        return "missing", "; ".join(notes)
    return "fact", "; ".join(notes)


def _has_blocks(n: ast.AST) -> bool:
    return any(isinstance(getattr(n, f, None), list) and getattr(n, f) and isinstance(getattr(n, f)[0], ast.stmt) for f in ("body", "orelse"))


def classify_expr(actual: ast.AST, expected: Union[str, ast.AST]) -> Tuple[str, str]:
    exp = ast.parse(expected, mode="eval").body if isinstance(expected, str) else expected
    if flat(actual) == flat(exp):
        return "ok", ""
    if similar(actual, exp):
        return "fact", f"`{ast.unparse(actual)[:90]}` where `{ast.unparse(exp)[:90]}` is required"
    return "shape", f"`{ast.unparse(actual)[:90]}` is not of the form `{ast.unparse(exp)[:90]}`"
