"""Stand-ins for the two scipy functions a fragment may use for connected components (for sa/microeval.py).

  csr_matrix((data, (rows, cols)), shape=(n, n))           -> the set of (row, col) entries with non-zero data
  connected_components(matrix, directed=False) -> (k, labels)   labels[v] = number of v's component, components numbered
                                                           in the order of their lowest vertex (as the library does)
Only the adjacency structure is modelled; values, dtypes and array types are not (labels is a list of int).
"""
from __future__ import annotations

from typing import Any, List, Tuple


class Matrix:
    _folder_stub = True

    def __init__(self, arg: Any, shape: Any = None, dtype: Any = None):
        self.entries = set()
        if isinstance(arg, tuple) and len(arg) == 2 and isinstance(arg[1], tuple) and len(arg[1]) == 2:
            data, (rows, cols) = arg
            data, rows, cols = list(data), list(rows), list(cols)
            if not (len(data) == len(rows) == len(cols)):
                raise ValueError("row, column, and data array must all be the same length")
            for d, r, c in zip(data, rows, cols):
                if d:
                    self.entries.add((int(r), int(c)))
            n = shape[0] if shape is not None else (max(rows + cols) + 1 if rows else 0)
        elif isinstance(arg, (list, tuple)) and all(isinstance(r, (list, tuple)) for r in arg):
            for r, row in enumerate(arg):
                for c, d in enumerate(row):
                    if d:
                        self.entries.add((r, c))
            n = len(arg)
        elif isinstance(arg, tuple) and len(arg) == 2 and all(isinstance(x, int) for x in arg):
            n = arg[0]
        else:
            raise TypeError("csr_matrix stand-in: unsupported constructor argument")
        if shape is not None and shape[0] != shape[1]:
            raise ValueError("graph should be a square array")
        self.shape = (n, n)
        for r, c in self.entries:
            if not (0 <= r < n and 0 <= c < n):
                raise ValueError("row index exceeds matrix dimensions")

    def __repr__(self):
        return f"<{self.shape[0]}x{self.shape[1]} sparse matrix, {len(self.entries)} entries>"


def csr_matrix(arg, shape=None, dtype=None):
    return Matrix(arg, shape, dtype)


def connected_components(csgraph, directed: bool = True, connection: str = "weak", return_labels: bool = True):
    if not isinstance(csgraph, Matrix):
        csgraph = Matrix(csgraph)
    n = csgraph.shape[0]
    if directed and connection == "strong":
        raise NotImplementedError("strong connectivity is not modelled")
    nb: List[set] = [set() for _ in range(n)]
    for r, c in csgraph.entries:
        nb[r].add(c)
        nb[c].add(r)
    labels = [-1] * n
    k = 0
    for v in range(n):
        if labels[v] >= 0:
            continue
        todo = [v]
        labels[v] = k
        while todo:
            x = todo.pop()
            for y in nb[x]:
                if labels[y] < 0:
                    labels[y] = k
                    todo.append(y)
        k += 1
    return (k, labels) if return_labels else k


class _NS:
    _folder_stub = True

    def __init__(self, **kw):
        self.__dict__.update(kw)


MODULES = {
    "scipy.sparse": _NS(csr_matrix=csr_matrix, coo_matrix=csr_matrix, csc_matrix=csr_matrix, lil_matrix=csr_matrix),
    "scipy.sparse.csgraph": _NS(connected_components=connected_components),
}
