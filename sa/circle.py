"""A12c: what a torsion function returns on the WHOLE circle, when the angle is not made by one plain atan2(y, x).

The straight-line prefix of the function is read by the algebra of sa/polyalg.py / sa/torsion.py (polynomial normal
forms over the 12 coordinates, positive norm symbols).  From the first statement that applies an inverse trigonometric
or a sign function (atan2, acos, asin, sign, copysign ...) on, the function is interpreted *once per cell* of the
partition of the circle

    phi = 0 | (0, pi/2) | pi/2 | (pi/2, pi) | pi | (-pi, -pi/2) | -pi/2 | (-pi/2, 0)

with exact symbolic values:

    Trig   an algebraic leaf proved (polynomial identity) to be  s * kappa * sin(phi)  or  s * kappa * cos(phi)  with
           s = +-1 and kappa a positive quantity (kappa = 1 proved separately: `unit`); its sign is constant on a cell
    Aff    a * phi + b * pi + c  with rational a, b, c (optionally marked as converted to degrees)
    Pos    a positive quantity (a product of norms)
    bool   outcome of a comparison, decided from the signs on the cell

acos / asin / atan2 / sign / copysign / abs of such values are again of this form on every cell (acos(cos phi) = |phi|,
asin(sin phi) = phi, pi - phi or -pi - phi, sign(sin phi) = -1 / 0 / 1 ...), conditionals are decided per cell, so the
value returned on a cell is an Aff: the function returns phi on the whole circle iff that Aff is `phi` on all eight
cells.  This is a proof for every phi (given the polynomial identities), not a sample: e.g.
`sign(s) * acos(c)` gives 0 * pi = 0 on the cell phi = pi, `copysign(acos(c), s)` and `atan2(s, c)` give pi.

What is outside the grammar (comparison of a scaled sine with a non-zero number, a product of two angles, a leaf that is
neither a multiple of the sine term nor of the cosine term ...) raises Undecided: the rule reports 'cannot be decided',
never a verdict.  Signed zeros are not modelled (a vanishing sine term is +0.0); floating-point error is not decided.
"""
from __future__ import annotations

import ast
import math
from fractions import Fraction
from typing import Any, Callable, Dict, List, Optional, Tuple

from .polyalg import AlgebraError, Poly, Vec, add, mul, var
from . import torsion as TA

F = Fraction
HALF = F(1, 2)
# (name, lo, hi) in units of pi; a point cell has lo == hi
CELLS: List[Tuple[str, Fraction, Fraction]] = [
    ("phi = 0", F(0), F(0)),
    ("0 < phi < pi/2", F(0), HALF),
    ("phi = pi/2", HALF, HALF),
    ("pi/2 < phi < pi", HALF, F(1)),
    ("phi = pi", F(1), F(1)),
    ("-pi < phi < -pi/2", F(-1), -HALF),
    ("phi = -pi/2", -HALF, -HALF),
    ("-pi/2 < phi < 0", -HALF, F(0)),
]
CELL_GEOMETRY = {
    "phi = 0": "exactly planar cis: the sine term is exactly 0",
    "phi = pi": "exactly planar trans: the sine term is exactly 0",
    "phi = pi/2": "the cosine term is exactly 0",
    "phi = -pi/2": "the cosine term is exactly 0",
}


class Undecided(Exception):
    pass


class NotTheAngle(Exception):
    """A construct that is decidably not the dihedral (acos of a cosine that is not normalised, atan2 of terms of different scale)."""


class Aff:
    __slots__ = ("a", "b", "c", "deg")

    def __init__(self, a=0, b=0, c=0, deg: bool = False):
        self.a, self.b, self.c, self.deg = F(a), F(b), F(c), deg

    def is_const(self) -> bool:
        return self.a == 0 and self.b == 0

    def at(self, m: Fraction) -> Tuple[Fraction, Fraction]:
        """value at phi = m*pi as (q, c): q*pi + c"""
        return self.a * m + self.b, self.c

    def __eq__(self, o):
        return isinstance(o, Aff) and (self.a, self.b, self.c, self.deg) == (o.a, o.b, o.c, o.deg)

    def __hash__(self):
        return hash((self.a, self.b, self.c, self.deg))

    def text(self) -> str:
        parts = []
        if self.a:
            parts.append({1: "phi", -1: "-phi"}.get(self.a, f"{self.a}*phi"))
        if self.b:
            t = {1: "pi", -1: "-pi"}.get(self.b, f"{self.b}*pi")
            parts.append(t if not parts or t.startswith("-") else "+ " + t)
        if self.c or not parts:
            t = f"{float(self.c):g}"
            parts.append(t if not parts or t.startswith("-") else "+ " + t)
        s = " ".join(parts).replace("+ -", "- ")
        return f"degrees({s})" if self.deg else s


class Trig:
    __slots__ = ("kind", "sgn", "unit", "poly", "scale", "kappa")

    def __init__(self, kind: str, sgn: int, unit: bool, poly: Poly, scale: str, kappa: Optional[Tuple[Fraction, Dict[str, int]]] = None):
        self.kind, self.sgn, self.unit, self.poly, self.scale = kind, sgn, unit, poly, scale
        self.kappa = kappa  # (coefficient, {positive symbol: exponent}) of the factor in front of sin / cos, when it is a monomial

    def text(self) -> str:
        base = "sin(phi)" if self.kind == "s" else "cos(phi)"
        return ("-" if self.sgn < 0 else "") + ("" if self.unit else "k * ") + base + ("" if self.unit else " with a positive factor k that is not identically 1 (it varies with the bond lengths / bond angles)")


class Pos:
    def __init__(self, sgn: int = 1):
        self.sgn = sgn

    def text(self) -> str:
        return "a positive quantity" if self.sgn > 0 else "a negative quantity"


def _mid(cell) -> Fraction:
    return (cell[1] + cell[2]) / 2


def _sin_sign(cell) -> int:
    m = _mid(cell)
    return 0 if m in (0, 1, -1) else (1 if m > 0 else -1)


def _cos_sign(cell) -> int:
    m = abs(_mid(cell))
    return 0 if m == HALF else (1 if m < HALF else -1)


def _sign_qc(q: Fraction, c: Fraction) -> int:
    """sign of q*pi + c"""
    if c == 0:
        return (q > 0) - (q < 0)
    v = float(q) * math.pi + float(c)
    if abs(v) < 1e-9:
        raise Undecided("a value too close to zero to take its sign")
    return 1 if v > 0 else -1


def sign_of(v: Any, cell) -> int:
    if isinstance(v, Trig):
        return v.sgn * (_sin_sign(cell) if v.kind == "s" else _cos_sign(cell))
    if isinstance(v, Pos):
        return v.sgn
    if isinstance(v, Aff):
        if cell[1] == cell[2]:
            return _sign_qc(*v.at(cell[1]))
        lo, hi = _sign_qc(*v.at(cell[1])), _sign_qc(*v.at(cell[2]))
        if lo >= 0 and hi >= 0:
            return 1 if (lo or hi) else 0
        if lo <= 0 and hi <= 0:
            return -1
        raise Undecided(f"the sign of {v.text()} changes inside the cell {cell[0]}")
    if isinstance(v, bool):
        return int(v)
    raise Undecided("sign of a value that is not a number")


def _fold_angle(v: Aff, cell) -> Aff:
    """bring an angle into (-pi, pi] (its image of a quadrant-aligned cell lies in one period)"""
    q, c = v.at(_mid(cell))
    x = float(q) * math.pi + float(c)
    k = 0
    while x > math.pi + 1e-12:
        x -= 2 * math.pi
        k -= 1
    while x <= -math.pi + 1e-12:
        x += 2 * math.pi
        k += 1
    return Aff(v.a, v.b + 2 * k, v.c, v.deg)


def _fname(call: ast.Call) -> Optional[str]:
    f = call.func
    if isinstance(f, ast.Name):
        return f.id
    if isinstance(f, ast.Attribute):
        return f.attr
    return None


class Leaves:
    """Classification of algebraic values against the IUPAC sine / cosine terms (polynomial identities)."""

    def __init__(self, alg, pts: List[Vec]):
        self.alg = alg
        p1, p2, p3, p4 = pts
        b1, b2, b3 = alg.vsub(p2, p1), alg.vsub(p3, p2), alg.vsub(p4, p3)
        self.det = alg.dot(b1, alg.cross(b2, b3))
        self.n2 = alg.norm(b2)
        self.yref = mul(self.n2, self.det)
        self.xref = alg.dot(alg.cross(b1, b2), alg.cross(b2, b3))
        self.nn = mul(alg.norm(alg.cross(b1, b2)), alg.norm(alg.cross(b2, b3)))  # |b1 x b2| |b2 x b3|
        self.cache: Dict[int, Any] = {}
        # the norms in independent parameters of the geometry: bond lengths l1, l2, l3 and the sines s1, s2 of the two bond angles
        self.params: Dict[str, Dict[str, int]] = {
            TA.alg_atom(alg, b1): {"l1": 1},
            TA.alg_atom(alg, b2): {"l2": 1},
            TA.alg_atom(alg, b3): {"l3": 1},
            TA.alg_atom(alg, alg.cross(b1, b2)): {"l1": 1, "l2": 1, "s1": 1},
            TA.alg_atom(alg, alg.cross(b2, b3)): {"l2": 1, "l3": 1, "s2": 1},
        }

    # domain of the property: bond lengths 0.8-2.5 A, bond angles 20-160 degrees (independent of each other and of phi)
    BOX = {"l1": (0.8, 2.5), "l2": (0.8, 2.5), "l3": (0.8, 2.5), "s1": (math.sin(math.radians(20.0)), 1.0), "s2": (math.sin(math.radians(20.0)), 1.0)}

    def factor_range(self, kappa: Tuple[Fraction, Dict[str, int]]) -> Optional[Tuple[float, float, str, Dict[str, float]]]:
        """(inf, sup, text, where the sup is taken) of a monomial factor over the domain, None when it contains other symbols"""
        coef, mono = kappa
        e: Dict[str, int] = {}
        for v, x in mono.items():
            if v not in self.params:
                return None
            for q, y in self.params[v].items():
                e[q] = e.get(q, 0) + x * y
        e = {q: y for q, y in e.items() if y}
        lo = hi = float(coef)
        at: Dict[str, float] = {}
        for q, y in sorted(e.items()):
            a, b = self.BOX[q]
            lo *= (a if y > 0 else b) ** y
            hi *= (b if y > 0 else a) ** y
            at[q] = b if y > 0 else a
        names = {"l1": "|b1|", "l2": "|b2|", "l3": "|b3|", "s1": "sin(theta1)", "s2": "sin(theta2)"}
        num = " ".join(names[q] + (f"^{y}" if y > 1 else "") for q, y in sorted(e.items()) if y > 0) or "1"
        den = " ".join(names[q] + (f"^{-y}" if y < -1 else "") for q, y in sorted(e.items()) if y < 0)
        text = (f"{float(coef):g} * " if coef != 1 else "") + num + (f" / ({den})" if den else "")
        return lo, hi, text, at

    def classify(self, p: Poly, text: str) -> Any:
        alg = self.alg
        if TA.is_const(p):
            c = F(p.get((), 0))
            # a folded constant that is a multiple of pi/2 to the last bit (math.pi, 2 * numpy.pi, numpy.pi / 2) is that multiple of pi
            v = float(c)
            for k in range(-8, 9):
                if k and v == k * (math.pi / 2):
                    return Aff(0, F(k, 2), 0)
            return Aff(0, 0, c)
        # cos(phi) = xref / nn ,  sin(phi) = yref / nn
        for kind, ref in (("c", self.xref), ("s", self.yref)):
            for sg in (1, -1):
                if alg.is_zero(add(mul(p, self.nn), ref, -sg)):
                    return Trig(kind, sg, True, p, "1")
        monos = {alg.split_pos(m)[0] for m in p}
        if len(monos) == 1:
            pm = next(iter(monos))
            if all(alg.split_pos(m)[1] == () for m in p):
                ((_, coef),) = p.items()
                return Pos(1 if coef > 0 else -1)
            for kind, ref in (("c", self.xref), ("s", self.det)):
                # p = coef * pm * ref with a rational coefficient read off one monomial
                m0 = min(ref)
                coef = p.get(tuple(sorted(dict(list(pm) + list(m0)).items())))
                if not coef:
                    continue
                coef = coef / ref[m0]
                if alg.is_zero(add(p, mul({pm: coef}, ref), -1)):
                    # a fresh scale symbol C<n> stands for `1/|v| or 1` of a conditional normalisation: the factor is then not known
                    opaque = any(str(v).startswith("C") for v, _ in pm)
                    # p = coef * pm * ref ; cos(phi) = xref / nn, sin(phi) = |b2| det / nn   ->   factor = |coef| * pm * nn (/ |b2|)
                    k = mul({pm: F(1)}, self.nn)
                    if kind == "s":
                        k = mul(k, {tuple((v, -x) for v, x in next(iter(self.n2))): F(1)})
                    ((km, kc),) = k.items()
                    return Trig(kind, 1 if coef > 0 else -1, None if opaque else False, p, text[:30], (abs(coef) * kc, dict(km)))
        raise Undecided(f"`{text[:50]}` is neither a positive multiple of the sine term b1.(b2 x b3) nor of the cosine term (b1 x b2).(b2 x b3)")

    def same_scale(self, y: Trig, x: Trig) -> bool:
        """y = sy k sin(phi), x = sx k cos(phi) with the SAME k:  y * xref = (sy sx) x * yref"""
        return self.alg.is_zero(add(mul(y.poly, self.xref), mul(x.poly, self.yref), -(y.sgn * x.sgn)))


class CellRun:
    """Interprets the tail of the function on one cell."""

    def __init__(self, alg, leaves: Leaves, env: Dict[str, Any], cell, fold: Optional[Callable[[ast.AST], Any]]):
        self.alg, self.leaves, self.cell, self.fold = alg, leaves, cell, fold
        self.env = dict(env)  # names -> Poly | Vec | Opaque | Aff | Trig | Pos | bool
        self.notes: List[str] = []

    # -- expressions ---------------------------------------------------------------------------------------------
    def _algebraic(self, e: ast.AST) -> Any:
        """Poly / Vec of an expression whose names are all algebraic, else None"""
        for n in ast.walk(e):
            if isinstance(n, ast.Name) and isinstance(self.env.get(n.id), (Aff, Trig, Pos, bool)):
                return None
            if TA._angle_call(n):
                return None
        try:
            return self.alg.ev(e, self.env)
        except AlgebraError:
            return None

    def ev(self, e: ast.AST) -> Any:
        if isinstance(e, ast.Name) and isinstance(self.env.get(e.id), (Aff, Trig, Pos, bool)):
            return self.env[e.id]
        p = self._algebraic(e)
        if p is not None:
            if isinstance(p, Vec):
                raise Undecided(f"`{ast.unparse(e)[:40]}` is a vector")
            return self.leaves.classify(p, ast.unparse(e))
        if isinstance(e, ast.Name):
            v = self.env.get(e.id)
            if isinstance(v, TA.Opaque):
                raise Undecided(f"`{e.id}` has no algebraic value ({v.why[:60]})")
            raise Undecided(f"name `{e.id}` has no value")
        if isinstance(e, ast.Constant):
            if isinstance(e.value, bool):
                return e.value
            if isinstance(e.value, (int, float)):
                return Aff(0, 0, F(e.value))
            raise Undecided(f"constant {e.value!r}")
        if isinstance(e, ast.Attribute):
            if e.attr == "pi" and isinstance(e.value, ast.Name) and e.value.id in ("math", "np", "numpy"):
                return Aff(0, 1, 0)
            v = self._num(e)
            if v is not None:
                return v
            raise Undecided(f"`{ast.unparse(e)[:40]}`")
        if isinstance(e, ast.UnaryOp):
            if isinstance(e.op, ast.Not):
                return not self.truth(self.ev(e.operand))
            v = self.ev(e.operand)
            if isinstance(e.op, ast.UAdd):
                return v
            if isinstance(e.op, ast.USub):
                return self._neg(v)
        if isinstance(e, ast.BinOp):
            a, b = self.ev(e.left), self.ev(e.right)
            return self._binop(e.op, a, b, e)
        if isinstance(e, ast.IfExp):
            return self.ev(e.body) if self.truth(self.ev(e.test)) else self.ev(e.orelse)
        if isinstance(e, ast.BoolOp):
            r: Any = None
            for v in e.values:
                r = self.ev(v)
                t = self.truth(r)
                if isinstance(e.op, ast.And) and not t:
                    return r
                if isinstance(e.op, ast.Or) and t:
                    return r
            return r
        if isinstance(e, ast.Compare):
            left = self.ev(e.left)
            for op, c in zip(e.ops, e.comparators):
                right = self.ev(c)
                if not self._compare(op, left, right, e):
                    return False
                left = right
            return True
        if isinstance(e, ast.Call) and not e.keywords:
            return self._call(e)
        raise Undecided(f"`{ast.unparse(e)[:50]}` is outside the expressions decided on the circle")

    def _num(self, e: ast.AST) -> Optional[Aff]:
        if self.fold is None:
            return None
        try:
            v = self.fold(e)
        except Exception:
            return None
        if isinstance(v, bool) or not isinstance(v, (int, float)) or not math.isfinite(v):
            return None
        return Aff(0, 0, F(v))

    def truth(self, v: Any) -> bool:
        if isinstance(v, bool):
            return v
        return sign_of(v, self.cell) != 0

    def _neg(self, v: Any) -> Any:
        if isinstance(v, Aff):
            return Aff(-v.a, -v.b, -v.c, v.deg)
        if isinstance(v, Trig):
            return Trig(v.kind, -v.sgn, v.unit, {m: -c for m, c in v.poly.items()}, v.scale)
        if isinstance(v, Pos):
            return Pos(-v.sgn)
        raise Undecided("negation of a truth value")

    def _binop(self, op: ast.operator, a: Any, b: Any, e: ast.AST) -> Any:
        if isinstance(a, bool) or isinstance(b, bool):
            raise Undecided(f"arithmetic on a truth value in `{ast.unparse(e)[:40]}`")
        if isinstance(op, (ast.Add, ast.Sub)) and isinstance(a, Aff) and isinstance(b, Aff):
            if a.deg != b.deg and not ((a.is_const() and a.c == 0) or (b.is_const() and b.c == 0)):
                raise Undecided(f"`{ast.unparse(e)[:40]}` adds a value in degrees to a value in radians")
            s = 1 if isinstance(op, ast.Add) else -1
            return Aff(a.a + s * b.a, a.b + s * b.b, a.c + s * b.c, a.deg or b.deg)
        if isinstance(op, ast.Mult):
            for x, y in ((a, b), (b, a)):
                if isinstance(x, Aff) and x.is_const() and not x.deg:
                    if isinstance(y, Aff):
                        return Aff(y.a * x.c, y.b * x.c, y.c * x.c, y.deg)
                    if isinstance(y, (Trig, Pos)) and x.c != 0:
                        return y if x.c > 0 else self._neg(y)
                    if isinstance(y, (Trig, Pos)):
                        return Aff(0, 0, 0)
            if isinstance(a, Pos) and isinstance(b, Pos):
                return Pos(a.sgn * b.sgn)
        if isinstance(op, ast.Div) and isinstance(b, Aff) and b.is_const() and not b.deg and b.c != 0 and isinstance(a, Aff):
            return Aff(a.a / b.c, a.b / b.c, a.c / b.c, a.deg)
        raise Undecided(f"`{ast.unparse(e)[:50]}`: the product / sum of these quantities is not decided on the circle")

    def _compare(self, op: ast.cmpop, a: Any, b: Any, e: ast.AST) -> bool:
        zero = lambda v: isinstance(v, Aff) and v.is_const() and v.c == 0
        if isinstance(a, (Trig, Pos)) and zero(b):
            s = sign_of(a, self.cell)
        elif isinstance(b, (Trig, Pos)) and zero(a):
            s = -sign_of(b, self.cell)
        elif isinstance(a, Aff) and isinstance(b, Aff) and a.deg == b.deg:
            s = sign_of(Aff(a.a - b.a, a.b - b.b, a.c - b.c), self.cell)
        elif isinstance(a, Aff) and isinstance(b, Aff):
            raise Undecided(f"`{ast.unparse(e)[:50]}` compares a value in degrees with a value in radians")
        else:
            raise Undecided(f"`{ast.unparse(e)[:50]}`: a scaled sine / cosine term is compared with a non-zero number, which is not constant on a cell of the circle")
        if isinstance(op, ast.Lt):
            return s < 0
        if isinstance(op, ast.LtE):
            return s <= 0
        if isinstance(op, ast.Gt):
            return s > 0
        if isinstance(op, ast.GtE):
            return s >= 0
        if isinstance(op, ast.Eq):
            return s == 0
        if isinstance(op, ast.NotEq):
            return s != 0
        raise Undecided(f"comparison operator in `{ast.unparse(e)[:40]}`")

    def _abs(self, v: Any) -> Any:
        s = sign_of(v, self.cell)
        if isinstance(v, Aff):
            return v if s >= 0 else self._neg(v)
        if s == 0:
            return Aff(0, 0, 0)
        if isinstance(v, Trig):
            return Trig(v.kind, v.sgn * s, v.unit, v.poly if s > 0 else {m: -c for m, c in v.poly.items()}, v.scale)  # |t| = s * t on this cell
        return Pos(1)

    def _unit(self, v: Any, fn: str, e: ast.AST) -> Trig:
        if isinstance(v, Aff) and v.is_const() and not v.deg:
            raise _ConstArg(float(v.c))
        if not isinstance(v, Trig):
            raise Undecided(f"`{ast.unparse(e)[:50]}`: argument of {fn} is not the sine / cosine term")
        if v.unit is None:
            raise Undecided(f"`{ast.unparse(e)[:60]}` takes {fn} of a multiple of the {'cosine' if v.kind == 'c' else 'sine'} term whose factor contains a conditional normalisation (`v / |v| if |v| > eps else v`): whether the factor is exactly 1 is not decided")
        if not v.unit:
            raise NotTheAngle(f"`{ast.unparse(e)[:60]}` takes {fn} of {v.text()}: {fn} gives the angle only for the normalised term (a factor of exactly 1), so the value is not phi for general bond lengths and bond angles")
        return v

    def _call(self, e: ast.Call) -> Any:
        fn = _fname(e)
        args = e.args
        cell = self.cell
        m = _mid(cell)
        if fn in ("float", "float64", "asarray", "array", "item") and len(args) == 1:
            return self.ev(args[0])
        if fn in ("abs", "fabs", "absolute") and len(args) == 1:
            return self._abs(self.ev(args[0]))
        if fn == "sign" and len(args) == 1:
            v = self.ev(args[0])
            s = sign_of(v, cell)
            self.notes.append(f"{ast.unparse(e)[:50]} = {s}")
            return Aff(0, 0, s)
        if fn == "copysign" and len(args) == 2:
            mag, src = self._abs(self.ev(args[0])), self.ev(args[1])
            s = sign_of(src, cell)
            out = mag if s >= 0 else self._neg(mag)  # a vanishing sign source is +0.0
            self.notes.append(f"{ast.unparse(e)[:50]} = {self._show(out)}")
            return out
        if fn in ("isnan",) and len(args) == 1:
            self.ev(args[0])
            return False
        if fn in ("isfinite",) and len(args) == 1:
            self.ev(args[0])
            return True
        if fn in ("degrees", "rad2deg") and len(args) == 1:
            v = self.ev(args[0])
            if isinstance(v, Aff) and not v.deg:
                return Aff(v.a, v.b, v.c, True)
            raise Undecided(f"`{ast.unparse(e)[:40]}`")
        if fn in ("radians", "deg2rad") and len(args) == 1:
            v = self.ev(args[0])
            if isinstance(v, Aff) and v.deg:
                return Aff(v.a, v.b, v.c, False)
            raise Undecided(f"`{ast.unparse(e)[:40]}`: conversion to radians of a value that is not in degrees")
        if fn == "clip" and len(args) == 3:
            v = self.ev(args[0])
            lo, hi = self._num(args[1]), self._num(args[2])
            if isinstance(v, Trig) and v.unit and lo is not None and hi is not None and lo.c <= -1 and hi.c >= 1:
                return v
            raise Undecided(f"`{ast.unparse(e)[:50]}`: clip of a quantity not known to lie inside the bounds")
        if fn in ("acos", "arccos") and len(args) == 1:
            try:
                t = self._unit(self.ev(args[0]), "acos", e)
            except _ConstArg as c:
                return self._const_angle(math.acos, c.v, e)
            if t.kind == "c":
                base = Aff(1 if m >= 0 else -1, 0, 0)  # acos(cos phi) = |phi|
            else:
                base = self._sub(Aff(0, HALF, 0), self._asin_sin(m))  # acos(sin phi) = pi/2 - asin(sin phi)
            out = base if t.sgn > 0 else self._sub(Aff(0, 1, 0), base)  # acos(-x) = pi - acos(x)
            self.notes.append(f"{ast.unparse(e)[:50]} = {self._show(out)}")
            return out
        if fn in ("asin", "arcsin") and len(args) == 1:
            try:
                t = self._unit(self.ev(args[0]), "asin", e)
            except _ConstArg as c:
                return self._const_angle(math.asin, c.v, e)
            base = self._asin_sin(m) if t.kind == "s" else self._sub(Aff(0, HALF, 0), Aff(1 if m >= 0 else -1, 0, 0))
            out = base if t.sgn > 0 else self._neg(base)
            self.notes.append(f"{ast.unparse(e)[:50]} = {self._show(out)}")
            return out
        if fn in ("atan2", "arctan2") and len(args) == 2:
            y, x = self.ev(args[0]), self.ev(args[1])
            out = self._atan2(y, x, e)
            self.notes.append(f"{ast.unparse(e)[:50]} = {self._show(out)}")
            return out
        if fn in ("max", "min") and len(args) >= 2:
            vs = [self.ev(a) for a in args]
            best = vs[0]
            for v in vs[1:]:
                if not (isinstance(v, Aff) and isinstance(best, Aff) and v.deg == best.deg):
                    raise Undecided(f"`{ast.unparse(e)[:40]}`")
                s = sign_of(Aff(v.a - best.a, v.b - best.b, v.c - best.c), cell)
                if (fn == "max" and s > 0) or (fn == "min" and s < 0):
                    best = v
            return best
        raise Undecided(f"`{ast.unparse(e)[:50]}` is outside the functions decided on the circle")

    def _show(self, v: Any) -> str:
        if isinstance(v, Aff) and self.cell[1] == self.cell[2]:
            q, c = v.at(self.cell[1])
            return Aff(0, q, c, v.deg).text()
        return v.text() if hasattr(v, "text") else repr(v)

    @staticmethod
    def _sub(a: Aff, b: Aff) -> Aff:
        return Aff(a.a - b.a, a.b - b.b, a.c - b.c, a.deg or b.deg)

    @staticmethod
    def _asin_sin(m: Fraction) -> Aff:
        if abs(m) <= HALF:
            return Aff(1, 0, 0)
        return Aff(-1, 1, 0) if m > 0 else Aff(-1, -1, 0)

    def _const_angle(self, f: Callable[[float], float], c: float, e: ast.AST) -> Aff:
        try:
            v = f(c)
        except ValueError:
            raise Undecided(f"`{ast.unparse(e)[:40]}`: argument {c} outside [-1, 1]")
        for k in (F(0), F(1), HALF, -HALF, F(-1)):
            if abs(v - float(k) * math.pi) < 1e-15:
                return Aff(0, k, 0)
        return Aff(0, 0, F(v))

    def _atan2(self, y: Any, x: Any, e: ast.AST) -> Aff:
        cell = self.cell
        if isinstance(y, Aff) and isinstance(x, Aff) and y.is_const() and x.is_const():
            return self._const_angle(lambda _: math.atan2(float(y.c), float(x.c)), 0.0, e)
        if not (isinstance(y, Trig) and isinstance(x, Trig)):
            raise Undecided(f"`{ast.unparse(e)[:50]}`: the arguments of atan2 are not the sine / cosine terms")
        if y.kind == x.kind:
            raise NotTheAngle(f"`{ast.unparse(e)[:60]}` takes atan2 of two multiples of the {'sine' if y.kind == 's' else 'cosine'} term: the value does not depend on phi")
        if not self.leaves.same_scale(y, x) if y.kind == "s" else not self.leaves.same_scale(x, y):
            raise NotTheAngle(f"`{ast.unparse(e)[:60]}`: the two arguments of atan2 are {y.text()} and {x.text()} with different positive factors (y * x_ref != x * y_ref as polynomials): the ratio is not tan(phi)")
        # angle of the point (X, Y) = (sx * c-or-s, sy * s-or-c)
        base = Aff(1, 0, 0) if y.kind == "s" else Aff(-1, HALF, 0)  # atan2(sin, cos) = phi ; atan2(cos, sin) = pi/2 - phi
        if cell[1] == cell[2]:
            sv = {"s": _sin_sign(cell), "c": _cos_sign(cell)}
            # exact values on the point cells: sin, cos in {-1, 0, 1}
            m = cell[1]
            sn = {F(0): 0, HALF: 1, F(1): 0, -HALF: -1}[m]
            cs = {F(0): 1, HALF: 0, F(1): -1, -HALF: 0}[m]
            yv = y.sgn * (sn if y.kind == "s" else cs)
            xv = x.sgn * (sn if x.kind == "s" else cs)
            ang = math.atan2(float(yv), float(xv))
            k = {0.0: F(0), math.pi: F(1), math.pi / 2: HALF, -math.pi / 2: -HALF}.get(ang)
            if k is None:
                raise Undecided("atan2 on a point cell")
            # as a form in phi = m*pi that takes this value:  k*pi = a*m*pi + b*pi  ->  constant form
            return Aff(0, k, 0)
        out = base
        if y.sgn < 0:
            out = self._neg(out)  # reflection in the x axis
        if x.sgn < 0:
            out = self._sub(Aff(0, 1, 0), out)  # reflection in the y axis
        return _fold_angle(out, cell)

    # -- statements ------------------------------------------------------------------------------------------------
    def run(self, stmts: List[ast.stmt]) -> Optional[Any]:
        """value returned, or None when the block falls through"""
        for st in stmts:
            if isinstance(st, ast.Expr):
                continue
            if isinstance(st, ast.Assign) and len(st.targets) == 1:
                self._assign(st.targets[0], st.value)
            elif isinstance(st, ast.AnnAssign) and st.value is not None:
                self._assign(st.target, st.value)
            elif isinstance(st, ast.AugAssign) and isinstance(st.target, ast.Name):
                cur = self.ev(ast.Name(id=st.target.id, ctx=ast.Load()))
                self.env[st.target.id] = self._binop(st.op, cur, self.ev(st.value), st)
            elif isinstance(st, ast.If):
                r = self.run(st.body if self.truth(self.ev(st.test)) else st.orelse)
                if r is not None:
                    return r
            elif isinstance(st, ast.Return):
                if st.value is None:
                    raise Undecided("a bare return")
                return self.ev(st.value)
            elif isinstance(st, ast.Pass):
                continue
            else:
                raise Undecided(f"statement `{ast.unparse(st)[:50]}` is outside the statements decided on the circle")
        return None

    def _assign(self, t: ast.AST, v: ast.AST) -> None:
        if isinstance(t, ast.Name):
            p = self._algebraic(v)
            # algebraic values stay algebraic (a later acos / atan2 needs the polynomial), the rest is a value on the cell
            self.env[t.id] = p if p is not None else self.ev(v)
        elif isinstance(t, (ast.Tuple, ast.List)) and isinstance(v, (ast.Tuple, ast.List)) and len(t.elts) == len(v.elts) and all(isinstance(x, ast.Name) for x in t.elts):
            vals = []
            for x in v.elts:
                p = self._algebraic(x)
                vals.append(p if p is not None else self.ev(x))
            for a, b in zip(t.elts, vals):
                self.env[a.id] = b
        else:
            raise Undecided(f"assignment `{ast.unparse(t)[:30]} = {ast.unparse(v)[:30]}`")


class _ConstArg(Exception):
    def __init__(self, v: float):
        self.v = v


def analyse_circle(fn: ast.FunctionDef, fold: Optional[Callable[[ast.AST], Any]] = None, helpers: Optional[Dict[str, ast.FunctionDef]] = None) -> Dict[str, Any]:
    """Prefix by the algebra (as sa/torsion.analyse), the rest once per cell.  Result: the keys the guard rule needs
    ('guards', 'alg', 'quantities') + 'cells': [(cell name, geometry, outcome)] with outcome
    ('value', Aff, notes) | ('not-angle', reason) | ('undecided', reason) | ('other', text)  and 'first': the first
    statement of the part read on the circle."""
    alg = TA.NumAlgebra(fold, helpers)
    pnames = [a.arg for a in fn.args.args][:4]
    if len(pnames) != 4:
        raise AlgebraError("torsion function does not take four points")
    pts = {p: Vec(var(f"{p}{ax}") for ax in "xyz") for p in pnames}
    alg.set_domain([pts[p] for p in pnames])
    env: Dict[str, Any] = dict(pts)
    guards: List[Tuple[ast.If, Dict[str, Any], Dict[str, ast.AST]]] = []
    defs: Dict[str, ast.AST] = {}
    start = None

    def bind(t: ast.AST, v: ast.AST) -> None:
        if isinstance(t, ast.Name):
            try:
                env[t.id] = alg.ev(v, env)
                defs.pop(t.id, None)
            except AlgebraError as ex:
                env[t.id] = TA.Opaque(str(ex))
                defs[t.id] = v
        elif isinstance(t, (ast.Tuple, ast.List)) and isinstance(v, (ast.Tuple, ast.List)) and len(t.elts) == len(v.elts) and all(isinstance(x, ast.Name) for x in t.elts) and not any(isinstance(x, ast.Starred) for x in v.elts):
            vals = []
            for x in v.elts:
                try:
                    vals.append(alg.ev(x, env))
                except AlgebraError as ex:
                    vals.append(TA.Opaque(str(ex)))
            for a, b in zip(t.elts, vals):
                env[a.id] = b
        elif isinstance(t, (ast.Tuple, ast.List)):
            alg._bind_target(t, alg.ev(v, env), env)  # a sequence value (comprehension, helper result) unpacked
        else:
            raise AlgebraError(f"assignment outside the straight-line idiom: {ast.unparse(t)[:40]} = {ast.unparse(v)[:40]}")

    body = list(fn.body)
    envs: List[Tuple[ast.stmt, Dict[str, Any]]] = []  # environment before each statement of the prefix
    for i, st in enumerate(body):
        envs.append((st, dict(env)))
        if any(TA._angle_call(c) for c in ast.walk(st)) and not TA.is_guard(st):
            start = i
            break
        if isinstance(st, ast.Expr):
            continue
        if isinstance(st, ast.Assign) and len(st.targets) == 1:
            bind(st.targets[0], st.value)
        elif isinstance(st, ast.AnnAssign) and st.value is not None:
            bind(st.target, st.value)
        elif TA.is_guard(st):
            guards.append((st, dict(env), dict(defs)))
        elif isinstance(st, ast.If) and not any(isinstance(n, (ast.Return, ast.If, ast.For, ast.While)) for b in (st.body, st.orelse) for x in b for n in ast.walk(x)):
            # a two-way assignment block: the branch that is taken on the whole domain of the property (`if |b2| > 1e-6: ... else: ...`)
            side = alg._tiny_lower_bound(st.test, env)
            if side is None:
                raise AlgebraError(f"`if {ast.unparse(st.test)[:40]}` is not decided on the domain of the property")
            for sub in (st.body if side else st.orelse):
                if isinstance(sub, ast.Assign) and len(sub.targets) == 1:
                    bind(sub.targets[0], sub.value)
                elif isinstance(sub, ast.AnnAssign) and sub.value is not None:
                    bind(sub.target, sub.value)
                elif not isinstance(sub, (ast.Expr, ast.Pass)):
                    raise AlgebraError(f"statement outside the straight-line idiom: {ast.unparse(sub)[:60]}")
        else:
            raise AlgebraError(f"statement outside the straight-line idiom: {ast.unparse(st)[:60]}")
    if start is None:
        raise AlgebraError("no inverse trigonometric function: the function does not compute an angle from its points")
    p1, p2, p3, p4 = [pts[p] for p in pnames]
    b1, b2, b3 = alg.vsub(p2, p1), alg.vsub(p3, p2), alg.vsub(p4, p3)
    leaves = Leaves(alg, [p1, p2, p3, p4])
    quantities = {
        TA.alg_atom(alg, alg.cross(b1, b2)): ("cross", (1, 2)),
        TA.alg_atom(alg, alg.cross(b2, b3)): ("cross", (2, 3)),
        TA.alg_atom(alg, b1): ("bond", (1,)),
        TA.alg_atom(alg, b2): ("bond", (2,)),
        TA.alg_atom(alg, b3): ("bond", (3,)),
    }
    cells = []
    for cell in CELLS:
        run = CellRun(alg, leaves, env, cell, fold)
        try:
            v = run.run(body[start:])
            if v is None:
                out: Tuple = ("undecided", "the function ends without a return")
            elif isinstance(v, Aff):
                out = ("value", v, list(run.notes))
            else:
                out = ("other", v.text() if hasattr(v, "text") else repr(v), list(run.notes))
        except NotTheAngle as ex:
            out = ("not-angle", str(ex))
        except Undecided as ex:
            out = ("undecided", str(ex))
        except AlgebraError as ex:
            out = ("undecided", str(ex))
        cells.append((cell, CELL_GEOMETRY.get(cell[0], ""), out))
    return {"circle": True, "guards": guards, "alg": alg, "quantities": quantities, "cells": cells, "first": body[start], "norm_atoms": len(alg.ATOMS), "env": env, "envs": envs, "pts": [p1, p2, p3, p4], "leaves": leaves}


def value_at(v: Aff, cell) -> str:
    """text of the value on the cell (a number of pi on point cells, the form in phi otherwise)"""
    if cell[1] == cell[2]:
        q, c = v.at(cell[1])
        return Aff(0, q, c, v.deg).text()
    return v.text()


def is_phi(v: Aff, cell, sign: int = 1) -> bool:
    """the value equals sign * phi on the cell"""
    if v.deg:
        return False
    if cell[1] == cell[2]:
        q, c = v.at(cell[1])
        return c == 0 and q == sign * cell[1]
    return (v.a, v.b, v.c) == (F(sign), F(0), F(0))
