"""Class-level fragment evaluation on a bounded model (extension of sa/blockeval.py, DESIGN 1.2 item 4).

Some clauses speak about what a *cooperation* of small methods produces for each class of input - a list of pairs with
a multiplet, a reversed duplicate, a dangling entry; a chain with a gap - and the methods may be split, merged, turned
into helpers, tables or comprehensions without changing that.  Here the methods are read from the ast and interpreted
on small rule-built models: dataclass instances are records (`Obj`: fields by name, equality / order / hash as
`@dataclass` and `total_ordering` define them, properties and methods looked up along the bases and interpreted from
their ast, cached_property cached), Enum classes are member tables, module constants are folded in their module, sets
are insertion ordered (`ISet`) so that no result depends on the hash seed of the checker.  The rule supplies stubs for
everything that is geometry, file I/O or another property's subject (`overrides`, `class_overrides`).

Nothing of the repository is imported or executed; only literals, operators, a fixed table of builtins and the
statement kinds listed in `Exec._stmt` are interpreted.  Anything else ends the evaluation with `Unknown` (the rule
then reports 'not evaluable', never a verdict).  Steps are bounded.
"""
from __future__ import annotations

import ast
import itertools
import math
import operator
import string
from typing import Any, Callable, Dict, List, Optional, Sequence, Tuple

from sa.blockeval import BASE, BlockEval, DefaultDictStub, OrderedSetStub, Unknown, _Stop
from sa.consteval import _BINOPS, _BUILTINS, Folder, NotConst
from sa.model import PACKAGE, Repo


# ----------------------------------------------------------------------------------------------------------------
# values
# ----------------------------------------------------------------------------------------------------------------
class ISet:
    """Insertion-ordered set: the model of `set` (iteration order never depends on the checker's hash seed)."""

    _blockeval_container = True
    __hash__ = None  # type: ignore

    def __init__(self, items=()):
        self._d: Dict[Any, None] = {}
        for x in items:
            self._d[x] = None

    def add(self, x):
        self._d[x] = None

    def discard(self, x):
        self._d.pop(x, None)

    def remove(self, x):
        del self._d[x]

    def pop(self):
        if not self._d:
            raise KeyError("pop from an empty set")
        k = next(iter(self._d))
        del self._d[k]
        return k

    def clear(self):
        self._d.clear()

    def update(self, *others):
        for o in others:
            for x in o:
                self._d[x] = None

    def copy(self):
        return ISet(self._d)

    def union(self, *others):
        r = ISet(self._d)
        r.update(*others)
        return r

    def intersection(self, *others):
        r = ISet(x for x in self._d if all(x in o for o in others))
        return r

    def difference(self, *others):
        return ISet(x for x in self._d if not any(x in o for o in others))

    def issubset(self, o):
        return all(x in o for x in self._d)

    def issuperset(self, o):
        return all(x in self._d for x in o)

    def isdisjoint(self, o):
        return not any(x in self._d for x in o)

    __or__ = lambda s, o: s.union(o)
    __and__ = lambda s, o: s.intersection(o)
    __sub__ = lambda s, o: s.difference(o)

    def __contains__(self, x):
        return x in self._d

    def __len__(self):
        return len(self._d)

    def __iter__(self):
        return iter(list(self._d))

    def __bool__(self):
        return bool(self._d)

    def __eq__(self, o):
        if isinstance(o, (ISet, set, frozenset)):
            return len(o) == len(self._d) and all(x in self._d for x in o)
        return NotImplemented

    def __le__(self, o):
        return self.issubset(o)

    def __repr__(self):
        return "{" + ", ".join(repr(x) for x in self._d) + "}" if self._d else "set()"


class _Missing:
    def __repr__(self):
        return "<unset>"


MISSING = _Missing()


class ClassModel:
    """What the interpreter needs to know about one class of the package, read from its ClassDef."""

    def __init__(self, world: "World", module: str, node: ast.ClassDef):
        self.world, self.module, self.node, self.name = world, module, node, node.name
        self.base_names = [ast.unparse(b).split(".")[-1] for b in node.bases]
        self.bases: List[ClassModel] = []
        for b in node.bases:
            nm = ast.unparse(b).split(".")[-1]
            try:
                self.bases.append(world.cls(module, nm))
            except Unknown:
                pass
        decs = {}
        for d in node.decorator_list:
            nm = ast.unparse(d.func if isinstance(d, ast.Call) else d).split(".")[-1]
            decs[nm] = {k.arg: (k.value.value if isinstance(k.value, ast.Constant) else None) for k in d.keywords} if isinstance(d, ast.Call) else {}
        self.is_dataclass = "dataclass" in decs
        dp = decs.get("dataclass", {})
        self.dc_eq = dp.get("eq", True) is not False
        self.dc_order = bool(dp.get("order", False))
        self.dc_frozen = bool(dp.get("frozen", False))
        self.total_ordering = "total_ordering" in decs
        self.is_enum = "Enum" in self.base_names or "IntEnum" in self.base_names or any(b.is_enum for b in self.bases)
        self.own_fields: List[Tuple[str, Any, bool]] = []  # (name, default expr | MISSING, in __init__)
        self.members: Dict[str, Tuple[str, ast.FunctionDef]] = {}
        self.attrs: Dict[str, ast.expr] = {}
        for b in node.body:
            if isinstance(b, (ast.FunctionDef, ast.AsyncFunctionDef)):
                ds = [ast.unparse(d.func if isinstance(d, ast.Call) else d).split(".")[-1] for d in b.decorator_list]
                if "setter" in ds:
                    continue
                kind = "method"
                if "cached_property" in ds:
                    kind = "cached"
                elif "property" in ds:
                    kind = "cached" if ("cache" in ds or "lru_cache" in ds) else "property"
                elif "staticmethod" in ds:
                    kind = "static"
                elif "classmethod" in ds:
                    kind = "class"
                self.members[b.name] = (kind, b)
            elif isinstance(b, ast.AnnAssign) and isinstance(b.target, ast.Name):
                ann = ast.unparse(b.annotation)
                if self.is_dataclass and not ann.startswith("ClassVar") and not self.is_enum:
                    default: Any = b.value if b.value is not None else MISSING
                    init = True
                    if isinstance(b.value, ast.Call) and ast.unparse(b.value.func).split(".")[-1] == "field":
                        default = MISSING
                        for k in b.value.keywords:
                            if k.arg == "init" and isinstance(k.value, ast.Constant) and k.value.value is False:
                                init = False
                            elif k.arg == "default":
                                default = k.value
                            elif k.arg == "default_factory":
                                default = ast.Call(func=k.value, args=[], keywords=[])
                                ast.copy_location(default, k.value)
                                ast.fix_missing_locations(default)
                    self.own_fields.append((b.target.id, default, init))
                elif b.value is not None:
                    self.attrs[b.target.id] = b.value
            elif isinstance(b, ast.Assign):
                for t in b.targets:
                    if isinstance(t, ast.Name):
                        self.attrs[t.id] = b.value

    def mro(self) -> List["ClassModel"]:
        out: List[ClassModel] = [self]
        for b in self.bases:
            for c in b.mro():
                if c not in out:
                    out.append(c)
        return out

    def fields(self) -> List[Tuple[str, Any, bool, "ClassModel"]]:
        if getattr(self, "_fields", None) is not None:
            return self._fields
        self._fields = self._compute_fields()
        return self._fields

    def _compute_fields(self) -> List[Tuple[str, Any, bool, "ClassModel"]]:
        out: Dict[str, Tuple[str, Any, bool, ClassModel]] = {}
        for c in reversed(self.mro()):
            if c.is_dataclass:
                for nm, d, init in c.own_fields:
                    out[nm] = (nm, d, init, c)
        return list(out.values())

    def member(self, name: str) -> Optional[Tuple[str, ast.FunctionDef, "ClassModel"]]:
        for c in self.mro():
            if name in c.members:
                k, f = c.members[name]
                return k, f, c
        return None

    def attr(self, name: str) -> Optional[Tuple[ast.expr, "ClassModel"]]:
        for c in self.mro():
            if name in c.attrs:
                return c.attrs[name], c
        return None

    def isa(self, other: "ClassModel") -> bool:
        return any(c is other for c in self.mro())

    def ordering(self) -> bool:
        return any(c.total_ordering for c in self.mro())


class Obj:
    """Instance of a package class: a record with the comparison behaviour its class declares."""

    _objeval = True

    def __init__(self, cls: ClassModel, fields: Dict[str, Any]):
        self.cls = cls
        self.fields = fields
        self.cache: Dict[str, Any] = {}
        self.tag: Dict[str, Any] = {}

    # -- equality / order / hash as declared -------------------------------------------------------------------------
    def _key(self):
        return tuple(self.fields.get(nm) for nm, _, _, _ in self.cls.fields())

    def __eq__(self, other):
        m = self.cls.member("__eq__")
        if m is not None:
            return bool(self.cls.world.call_member(self, m, (other,)))
        if any(c.is_dataclass and c.dc_eq for c in self.cls.mro()):
            return isinstance(other, Obj) and other.cls is self.cls and self._key() == other._key()
        return self is other

    def __ne__(self, other):
        return not self.__eq__(other)

    def __hash__(self):
        try:
            return hash((self.cls.name,) + self._key())
        except TypeError:
            return id(self)

    def _lt(self, other):
        m = self.cls.member("__lt__")
        if m is not None:
            return bool(self.cls.world.call_member(self, m, (other,)))
        if any(c.is_dataclass and c.dc_order for c in self.cls.mro()) and isinstance(other, Obj) and other.cls is self.cls:
            return self._key() < other._key()
        raise TypeError(f"'<' not supported between instances of '{self.cls.name}' and '{getattr(getattr(other, 'cls', None), 'name', type(other).__name__)}'")

    def __lt__(self, other):
        return self._lt(other)

    def __le__(self, other):
        m = self.cls.member("__le__")
        if m is not None:
            return bool(self.cls.world.call_member(self, m, (other,)))
        return self._lt(other) or self == other

    def __gt__(self, other):
        m = self.cls.member("__gt__")
        if m is not None:
            return bool(self.cls.world.call_member(self, m, (other,)))
        return not self._lt(other) and not self == other

    def __ge__(self, other):
        m = self.cls.member("__ge__")
        if m is not None:
            return bool(self.cls.world.call_member(self, m, (other,)))
        return not self._lt(other)

    def __repr__(self):
        if "label" in self.tag:
            return str(self.tag["label"])
        return f"{self.cls.name}({', '.join(f'{k}={v!r}' for k, v in list(self.fields.items())[:6])})"


class EnumMember:
    _objeval = True

    def __init__(self, cls: ClassModel, name: str, value: Any):
        self.cls, self.name, self.value = cls, name, value
        self.cache: Dict[str, Any] = {}

    def __eq__(self, o):
        return self is o

    def __ne__(self, o):
        return self is not o

    def __hash__(self):
        return hash((self.cls.name, self.name))

    def _lt(self, o):
        m = self.cls.member("__lt__")
        if m is None:
            raise TypeError(f"'<' not supported between members of {self.cls.name}")
        return bool(self.cls.world.call_member(self, m, (o,)))

    def __lt__(self, o):
        return self._lt(o)

    def __le__(self, o):
        return self._lt(o) or self is o

    def __gt__(self, o):
        return not self._lt(o) and self is not o

    def __ge__(self, o):
        return not self._lt(o)

    def __repr__(self):
        return f"{self.cls.name}.{self.name}"


class ClassRef:
    """A class of the package used as a value: constructor, Enum table, holder of class attributes."""

    _objeval = True

    def __init__(self, cls: ClassModel):
        self.cls = cls

    def __call__(self, *args, **kwargs):
        w = self.cls.world
        if self.cls.name in w.class_overrides:
            return w.class_overrides[self.cls.name](*args, **kwargs)
        if self.cls.is_enum:
            if len(args) != 1:
                raise TypeError("Enum call")
            for m in w.enum_members(self.cls).values():
                if m.value == args[0]:
                    return m
            raise ValueError(f"{args[0]!r} is not a valid {self.cls.name}")
        return w.instantiate(self.cls, args, kwargs)

    def __getitem__(self, k):
        if not self.cls.is_enum:
            raise TypeError(f"{self.cls.name} is not subscriptable")
        return self.cls.world.enum_members(self.cls)[k]

    def __iter__(self):
        if not self.cls.is_enum:
            raise TypeError(f"{self.cls.name} is not iterable")
        return iter(list(self.cls.world.enum_members(self.cls).values()))

    def __len__(self):
        return len(self.cls.world.enum_members(self.cls))

    def __contains__(self, x):
        return isinstance(x, EnumMember) and x.cls is self.cls

    def __repr__(self):
        return f"<class {self.cls.name}>"


class FuncRef:
    """A module-level function (or nested def / bound method) of the package, interpreted from its ast when called."""

    _objeval = True

    def __init__(self, world: "World", module: str, node: ast.AST, closure: Optional[Dict[str, Any]] = None, bound: Any = MISSING, clsname: Optional[str] = None):
        self.world, self.module, self.node, self.closure, self.bound, self.clsname = world, module, node, closure, bound, clsname

    def __call__(self, *args, **kwargs):
        if self.bound is not MISSING:
            args = (self.bound,) + tuple(args)
        return self.world.run_function(self.module, self.node, args, kwargs, self.closure, self.clsname)

    def __repr__(self):
        return f"<function {getattr(self.node, 'name', 'lambda')}>"


class ModuleRef:
    def __init__(self, name: str):
        self.name = name

    def __repr__(self):
        return f"<module {self.name}>"


def _noop(*a, **k):
    return None


def _listify(f):
    return lambda *a, **k: list(f(*a, **k))


_MODULES: Dict[str, Dict[str, Any]] = {
    "math": {k: getattr(math, k) for k in ("pi", "nan", "inf", "e", "isnan", "isclose", "radians", "degrees", "sqrt", "floor", "ceil", "fabs", "factorial", "exp", "log", "cos", "sin", "atan2", "acos")},
    "string": {k: getattr(string, k) for k in ("ascii_uppercase", "ascii_lowercase", "ascii_letters", "digits", "printable", "whitespace", "punctuation")},
    "itertools": {k: _listify(getattr(itertools, k)) for k in ("combinations", "product", "permutations", "combinations_with_replacement", "chain", "zip_longest", "accumulate", "islice", "groupby", "pairwise") if hasattr(itertools, k)},
    "logging": {k: _noop for k in ("debug", "info", "warning", "error", "critical", "exception", "getLogger", "basicConfig")},
    "operator": {k: getattr(operator, k) for k in ("itemgetter", "attrgetter", "add", "mul")},
    "collections": {"defaultdict": DefaultDictStub, "OrderedDict": dict, "Counter": None, "namedtuple": None},
    "functools": {"reduce": None},
}
_MODULES["itertools"]["chain"] = lambda *a: [x for it in a for x in it]
# groupby: the groups of the real iterator die when the outer iterator advances - materialised here group by group (each group a
# one-shot iterator, as in the language), never by list(groupby(...)) which would hand out empty groups
_MODULES["itertools"]["groupby"] = lambda it, key=None: [(k, iter(list(g))) for k, g in itertools.groupby(list(it), key)]
_FROM_IMPORTS: Dict[Tuple[str, str], Any] = {("collections", "defaultdict"): DefaultDictStub, ("collections", "OrderedDict"): dict, ("ordered_set", "OrderedSet"): OrderedSetStub, ("math", "isnan"): math.isnan}

_EXC = {n: getattr(__import__("builtins"), n) for n in ("ValueError", "KeyError", "IndexError", "RuntimeError", "TypeError", "AttributeError", "StopIteration", "AssertionError", "NotImplementedError", "ZeroDivisionError", "LookupError", "Exception")}


def _isinstance(v, t):
    ts = t if isinstance(t, tuple) else (t,)
    for x in ts:
        if isinstance(x, ClassRef):
            if isinstance(v, (Obj, EnumMember)) and v.cls.isa(x.cls):
                return True
        elif x is set:
            if isinstance(v, (ISet, set)):
                return True
        elif isinstance(x, type):
            if isinstance(v, x):
                return True
        else:
            raise Unknown(f"isinstance against {x!r}")
    return False


_EXTRA_BUILTINS: Dict[str, Any] = {
    "isinstance": _isinstance,
    "set": ISet,
    "iter": lambda x: list(x),
    "print": _noop,
    "repr": repr,
    "divmod": divmod,
    "callable": callable,
    "object": object,
    "type": type,
    "id": None,
    "hash": None,
}
_EXTRA_BUILTINS.update(_EXC)

_PY_METHODS_LISTIFY = {"keys", "values", "items"}
_PRIMS = (str, int, float, bool, list, tuple, dict, frozenset, set, ISet, OrderedSetStub, bytes, type(None))


# ----------------------------------------------------------------------------------------------------------------
# expressions
# ----------------------------------------------------------------------------------------------------------------
class OFolder(Folder):
    def __init__(self, world: "World", module: str, local: Optional[Dict[str, Any]] = None, cls: Optional[str] = None, share: bool = False):
        super().__init__(world.repo, module, None, cls)
        self.world = world
        self.local = local if (share and local is not None) else dict(local or {})

    def child(self, extra: Dict[str, Any]) -> "OFolder":
        return OFolder(self.world, self.module, {**self.local, **extra}, self.cls)

    def _f_Name(self, n):
        if n.id in self.local:
            return self.local[n.id]
        if n.id in ("True", "False", "None"):
            return {"True": True, "False": False, "None": None}[n.id]
        return self.world.global_name(self.module, n.id)

    def _f_Attribute(self, n):
        return self.world.getattr(self.fold(n.value), n.attr)

    def _f_Set(self, n):
        return ISet(self._elts(n.elts))

    def _f_SetComp(self, n):
        out = ISet()
        self._comp(n.generators, lambda f: out.add(f.fold(n.elt)))
        return out

    def _f_Starred(self, n):
        raise NotConst("starred")

    def _f_Lambda(self, n):
        return FuncRef(self.world, self.module, n, dict(self.local), clsname=self.cls)

    def _f_Call(self, n):
        fn = self.fold(n.func)
        args = self._elts(n.args)
        kwargs = {}
        for k in n.keywords:
            if k.arg is None:
                kwargs.update(self.fold(k.value))
            else:
                kwargs[k.arg] = self.fold(k.value)
        return self.world.call(fn, args, kwargs, n)

    def _f_BinOp(self, n):
        op = _BINOPS.get(type(n.op))
        if op is None:
            if isinstance(n.op, ast.BitXor):
                op = operator.xor
            else:
                raise NotConst("binop")
        return op(self.fold(n.left), self.fold(n.right))


# ----------------------------------------------------------------------------------------------------------------
# statements
# ----------------------------------------------------------------------------------------------------------------
class Exec(BlockEval):
    """BlockEval over OFolder with while loops, nested defs, general targets and calls; shares one step budget per world."""

    def __init__(self, world: "World", module: str, env: Dict[str, Any], clsname: Optional[str] = None):
        super().__init__(world.repo, module, None, max_steps=10**9)
        self.env = env
        self.world = world
        self.clsname = clsname

    def fold(self, e: ast.AST) -> Any:
        f = OFolder(self.world, self.module, self.env, self.clsname, share=True)  # walrus bindings land in the scope itself
        try:
            return f.fold(e)
        except NotConst as ex:
            raise Unknown(f"`{ast.unparse(e)[:60]}`: {ex}")

    def _block(self, block: Sequence[ast.stmt]) -> None:
        for st in block:
            self.world.tick()
            self._stmt(st)

    def _assign(self, t: ast.AST, v: Any) -> None:
        if isinstance(t, ast.Name):
            self.env[t.id] = v
        elif isinstance(t, (ast.Tuple, ast.List)):
            vals = list(v)
            stars = [i for i, e in enumerate(t.elts) if isinstance(e, ast.Starred)]
            if len(stars) == 1:
                i = stars[0]
                after = len(t.elts) - i - 1
                if len(vals) < len(t.elts) - 1:
                    raise ValueError(f"not enough values to unpack (expected at least {len(t.elts) - 1}, got {len(vals)})")
                for a, b in zip(t.elts[:i], vals[:i]):
                    self._assign(a, b)
                self._assign(t.elts[i].value, vals[i : len(vals) - after])
                for a, b in zip(t.elts[i + 1 :], vals[len(vals) - after :]):
                    self._assign(a, b)
                return
            if stars:
                raise Unknown("more than one starred assignment target")
            if len(vals) != len(t.elts):
                raise ValueError(f"cannot unpack {len(vals)} values into {len(t.elts)} targets")
            for a, b in zip(t.elts, vals):
                self._assign(a, b)
        elif isinstance(t, ast.Subscript):
            c = self.fold(t.value)
            if isinstance(t.slice, ast.Slice):
                s = slice(*(self.fold(x) if x is not None else None for x in (t.slice.lower, t.slice.upper, t.slice.step)))
                c[s] = v
            else:
                c[self.fold(t.slice)] = v
        elif isinstance(t, ast.Attribute):
            o = self.fold(t.value)
            self.world.setattr(o, t.attr, v)
        else:
            raise Unknown(f"assignment target `{ast.unparse(t)[:40]}`")

    def _stmt(self, st: ast.stmt) -> None:
        if isinstance(st, ast.AugAssign):
            tl = ast.fix_missing_locations(ast.copy_location(_as_load(st.target), st.target))
            cur = self.fold(tl)
            rhs = self.fold(st.value)
            iop = {ast.Add: operator.iadd, ast.Sub: operator.isub, ast.Mult: operator.imul, ast.Div: operator.itruediv, ast.FloorDiv: operator.ifloordiv, ast.Mod: operator.imod, ast.BitOr: operator.ior, ast.BitAnd: operator.iand}.get(type(st.op))
            if iop is None:
                raise Unknown("augmented assignment operator")
            self._assign(st.target, iop(cur, rhs))
        elif isinstance(st, ast.Expr):
            c = st.value
            if isinstance(c, (ast.Constant, ast.Name)):
                return
            if isinstance(c, ast.Yield):
                # generator function, evaluated eagerly (World.run_function collects the values): `yield x` as a statement
                out = self.env.get("<yielded>")
                if out is None:
                    raise Unknown("yield outside an eagerly evaluated generator function")
                out.append(self.fold(c.value) if c.value is not None else None)
                return
            if isinstance(c, ast.YieldFrom):
                out = self.env.get("<yielded>")
                if out is None:
                    raise Unknown("yield from outside an eagerly evaluated generator function")
                out.extend(list(self.fold(c.value)))
                return
            self.fold(c)
        elif isinstance(st, ast.While):
            broke = False
            while self.fold(st.test):
                self.world.tick()
                try:
                    self._block(st.body)
                except _Stop as s:
                    if s.kind == "continue":
                        continue
                    if s.kind == "break":
                        broke = True
                        break
                    raise
            if not broke:
                self._block(st.orelse)
        elif isinstance(st, ast.For):
            it = self.fold(st.iter)
            broke = False
            for item in list(it):
                self.world.tick()
                self._assign(st.target, item)
                try:
                    self._block(st.body)
                except _Stop as s:
                    if s.kind == "continue":
                        continue
                    if s.kind == "break":
                        broke = True
                        break
                    raise
            if not broke:
                self._block(st.orelse)
        elif isinstance(st, (ast.FunctionDef,)):
            self.env[st.name] = FuncRef(self.world, self.module, st, self.env, clsname=self.clsname)
        elif isinstance(st, ast.Raise):
            if st.exc is None:
                raise Unknown("bare raise")
            e = self.fold(st.exc)
            if isinstance(e, BaseException):
                raise e
            if isinstance(e, type) and issubclass(e, BaseException):
                raise e()
            raise Unknown("raise of a non-exception")
        elif isinstance(st, ast.Assert):
            if not self.fold(st.test):
                raise AssertionError(ast.unparse(st.test)[:60])
        elif isinstance(st, ast.Delete):
            for t in st.targets:
                if isinstance(t, ast.Subscript):
                    del self.fold(t.value)[self.fold(t.slice)]
                elif isinstance(t, ast.Name):
                    self.env.pop(t.id, None)
                else:
                    raise Unknown("delete target")
        elif isinstance(st, (ast.Import, ast.ImportFrom, ast.Global, ast.Nonlocal)):
            if isinstance(st, (ast.Global, ast.Nonlocal)):
                raise Unknown("global/nonlocal")
        else:
            super()._stmt(st)


def _as_load(t: ast.AST) -> ast.AST:
    import copy

    t2 = copy.deepcopy(t)
    for n in ast.walk(t2):
        if hasattr(n, "ctx"):
            n.ctx = ast.Load()
    return t2


# ----------------------------------------------------------------------------------------------------------------
# the world
# ----------------------------------------------------------------------------------------------------------------
def _is_generator(fnode: ast.AST) -> bool:
    if not isinstance(fnode, (ast.FunctionDef, ast.AsyncFunctionDef)):
        return False
    todo = list(fnode.body)
    while todo:
        n = todo.pop()
        if isinstance(n, (ast.FunctionDef, ast.AsyncFunctionDef, ast.ClassDef, ast.Lambda)):
            continue
        if isinstance(n, (ast.Yield, ast.YieldFrom)):
            return True
        todo.extend(ast.iter_child_nodes(n))
    return False


class World:
    def __init__(self, repo: Repo, overrides: Optional[Dict[Tuple[str, str], Callable]] = None, class_overrides: Optional[Dict[str, Callable]] = None, max_steps: int = 200000, func_overrides: Optional[Dict[Tuple[str, str], Callable]] = None):
        self.repo = repo
        self.overrides = dict(overrides or {})
        self.class_overrides = dict(class_overrides or {})
        self.func_overrides = dict(func_overrides or {})
        self.max_steps = max_steps
        self.steps = 0
        self._classes: Dict[Tuple[str, str], ClassModel] = {}
        self._enums: Dict[Tuple[str, str], Dict[str, EnumMember]] = {}
        self._consts: Dict[Tuple[str, str], Any] = {}
        self._busy: set = set()
        self.depth = 0
        self.trace_calls: List[str] = []

    def tick(self) -> None:
        self.steps += 1
        if self.steps > self.max_steps:
            raise Unknown(f"more than {self.max_steps} interpretation steps")

    # -- classes -------------------------------------------------------------------------------------------------
    def cls(self, module: str, name: str) -> ClassModel:
        try:
            hm, hn = self.repo.const_home(module, name)
        except Exception:
            raise Unknown(f"class {name} not found from {module}")
        m = self.repo.module(hm)
        if hn not in m.classes:
            raise Unknown(f"{name} is not a class")
        key = (hm, hn)
        if key not in self._classes:
            self._classes[key] = None  # type: ignore
            self._classes[key] = ClassModel(self, hm, m.classes[hn])
        if self._classes[key] is None:
            raise Unknown(f"recursive class definition {name}")
        return self._classes[key]

    def enum_members(self, cm: ClassModel) -> Dict[str, EnumMember]:
        key = (cm.module, cm.name)
        if key not in self._enums:
            out: Dict[str, EnumMember] = {}
            for c in reversed(cm.mro()):
                for nm, e in c.attrs.items():
                    if nm.startswith("_") and nm.endswith("_"):
                        continue
                    out[nm] = EnumMember(cm, nm, self.eval_expr(c.module, e, {}, c.name))
            self._enums[key] = out
        return self._enums[key]

    def new(self, module: str, name: str, *args, **kwargs) -> Obj:
        return self.instantiate(self.cls(module, name), args, kwargs)

    def instantiate(self, cm: ClassModel, args: Sequence[Any], kwargs: Dict[str, Any]) -> Obj:
        if not any(c.is_dataclass for c in cm.mro()):
            init = cm.member("__init__")
            o = Obj(cm, {})
            if init is not None:
                self.call_member(o, init, tuple(args), kwargs)
            elif args or kwargs:
                raise TypeError(f"{cm.name}() takes no arguments")
            return o
        flds = cm.fields()
        vals: Dict[str, Any] = {}
        init_fields = [f for f in flds if f[2]]
        if len(args) > len(init_fields):
            raise TypeError(f"{cm.name}() takes {len(init_fields)} positional arguments but {len(args)} were given")
        for (nm, _, _, _), v in zip(init_fields, args):
            vals[nm] = v
        for k, v in kwargs.items():
            if k not in [f[0] for f in init_fields]:
                raise TypeError(f"{cm.name}() got an unexpected keyword argument '{k}'")
            if k in vals:
                raise TypeError(f"{cm.name}() got multiple values for argument '{k}'")
            vals[k] = v
        for nm, d, init, owner in flds:
            if nm in vals:
                continue
            if d is not MISSING:
                vals[nm] = self.eval_expr(owner.module, d, {}, owner.name)
            elif init:
                raise TypeError(f"{cm.name}() missing required argument '{nm}'")
        o = Obj(cm, vals)
        pi = cm.member("__post_init__")
        if pi is not None:
            self.call_member(o, pi, ())
        return o

    # -- names ---------------------------------------------------------------------------------------------------
    def global_name(self, module: str, name: str) -> Any:
        if (module, name) in self.func_overrides:
            return self.func_overrides[(module, name)]
        m = self.repo.module(module)
        if name in m.funcs and "." not in name:
            return FuncRef(self, module, m.funcs[name].node)
        if name in m.classes:
            return ClassRef(self.cls(module, name))
        if name in m.consts:
            return self.const(module, name)
        if name in m.imports:
            src, orig = m.imports[name]
            if src == PACKAGE or src.startswith(PACKAGE + "."):
                if orig is None:
                    raise Unknown(f"module import {src}")
                sub = src[len(PACKAGE) + 1 :]
                if sub in self.repo.modules:
                    return self.global_name(sub, orig)
                raise Unknown(f"import from {src}")
            if orig is None:
                if src.split(".")[0] in _MODULES:
                    return ModuleRef(src.split(".")[0])
                return ModuleRef(src)
            if (src, orig) in _FROM_IMPORTS:
                return _FROM_IMPORTS[(src, orig)]
            if src in _MODULES and _MODULES[src].get(orig) is not None:
                return _MODULES[src][orig]
            if src == "typing":
                return ModuleRef("typing." + orig)
            raise Unknown(f"`{orig}` imported from {src} is not modelled")
        if name in _EXTRA_BUILTINS:
            v = _EXTRA_BUILTINS[name]
            if v is None:
                raise Unknown(f"builtin {name}() is not modelled")
            return v
        if name in _BUILTINS:
            return _BUILTINS[name]
        if name in BASE:
            return BASE[name]
        raise Unknown(f"unknown name {name}")

    def const(self, module: str, name: str) -> Any:
        key = (module, name)
        if key in self._consts:
            return self._consts[key]
        if key in self._busy:
            raise Unknown(f"recursive constant {name}")
        self._busy.add(key)
        try:
            m = self.repo.module(module)
            v = self.eval_expr(module, m.consts[name], {})
            for st in getattr(m, "mutations", {}).get(name, []):
                Exec(self, module, {name: v}).run([st])
            self._consts[key] = v
            return v
        finally:
            self._busy.discard(key)

    def eval_expr(self, module: str, e: ast.AST, env: Dict[str, Any], clsname: Optional[str] = None) -> Any:
        try:
            if clsname is not None:
                # class scope: earlier class attributes are visible by bare name
                try:
                    cm = self.cls(module, clsname)
                    for nm in [x.id for x in ast.walk(e) if isinstance(x, ast.Name)]:
                        if nm not in env and cm.attr(nm) is not None and not cm.is_enum:
                            a, owner = cm.attr(nm)
                            if a is not e:
                                env = dict(env)
                                env[nm] = self.eval_expr(owner.module, a, {}, owner.name)
                except Unknown:
                    pass
            return OFolder(self, module, env, clsname).fold(e)
        except NotConst as ex:
            raise Unknown(f"`{ast.unparse(e)[:60]}`: {ex}")

    # -- attribute access ---------------------------------------------------------------------------------------
    def getattr(self, base: Any, attr: str) -> Any:
        if isinstance(base, Obj):
            for c in base.cls.mro():
                if (c.name, attr) in self.overrides:
                    ov = self.overrides[(c.name, attr)]
                    m = base.cls.member(attr)
                    if m is not None and m[0] in ("method", "static", "class"):
                        return lambda *a, **k: ov(self, base, *a, **k)
                    return ov(self, base)
            if attr in base.fields:
                return base.fields[attr]
            m = base.cls.member(attr)
            if m is not None:
                kind, fnode, owner = m
                if kind == "property":
                    return self.run_function(owner.module, fnode, (base,), {}, None, owner.name)
                if kind == "cached":
                    if attr not in base.cache:
                        base.cache[attr] = self.run_function(owner.module, fnode, (base,), {}, None, owner.name)
                    return base.cache[attr]
                if kind == "static":
                    return FuncRef(self, owner.module, fnode, clsname=owner.name)
                if kind == "class":
                    return FuncRef(self, owner.module, fnode, bound=ClassRef(base.cls), clsname=owner.name)
                return FuncRef(self, owner.module, fnode, bound=base, clsname=owner.name)
            a = base.cls.attr(attr)
            if a is not None:
                return self.class_attr(a[1], attr)
            if attr == "__dict__":
                raise Unknown("__dict__ introspection")
            if attr == "__class__":
                return ClassRef(base.cls)
            raise AttributeError(f"'{base.cls.name}' object has no attribute '{attr}'")
        if isinstance(base, EnumMember):
            if attr in ("name", "value"):
                return getattr(base, attr)
            m = base.cls.member(attr)
            if m is not None:
                kind, fnode, owner = m
                if kind == "property":
                    return self.run_function(owner.module, fnode, (base,), {}, None, owner.name)
                if kind == "cached":
                    if attr not in base.cache:
                        base.cache[attr] = self.run_function(owner.module, fnode, (base,), {}, None, owner.name)
                    return base.cache[attr]
                if kind == "static":
                    return FuncRef(self, owner.module, fnode, clsname=owner.name)
                return FuncRef(self, owner.module, fnode, bound=base, clsname=owner.name)
            mem = self.enum_members(base.cls)
            if attr in mem:
                return mem[attr]
            raise AttributeError(f"'{base.cls.name}' member has no attribute '{attr}'")
        if isinstance(base, ClassRef):
            cm = base.cls
            if cm.is_enum:
                mem = self.enum_members(cm)
                if attr in mem:
                    return mem[attr]
                if attr == "__members__":
                    return dict(mem)
            if attr == "__name__":
                return cm.name
            m = cm.member(attr)
            if m is not None:
                kind, fnode, owner = m
                if kind == "static":
                    return FuncRef(self, owner.module, fnode, clsname=owner.name)
                if kind == "class":
                    return FuncRef(self, owner.module, fnode, bound=base, clsname=owner.name)
                return FuncRef(self, owner.module, fnode, clsname=owner.name)  # unbound: self is passed explicitly
            a = cm.attr(attr)
            if a is not None:
                return self.class_attr(a[1], attr)
            raise AttributeError(f"type object '{cm.name}' has no attribute '{attr}'")
        if isinstance(base, ModuleRef):
            tab = _MODULES.get(base.name)
            if tab is None or tab.get(attr) is None:
                raise Unknown(f"{base.name}.{attr} is not modelled")
            return tab[attr]
        if isinstance(base, FuncRef):
            raise Unknown(f"attribute {attr} of a function")
        if attr.startswith("__") and attr not in ("__name__", "__members__"):
            raise Unknown(f"dunder attribute {attr}")
        if isinstance(base, dict) and attr in _PY_METHODS_LISTIFY:
            return _listify(getattr(base, attr))
        if isinstance(base, _PRIMS) or getattr(base, "_folder_stub", False) or getattr(base, "_blockeval_container", False) or type(base).__name__ in ("SimpleNamespace",):
            return getattr(base, attr)
        if isinstance(base, BaseException):
            return getattr(base, attr)
        raise Unknown(f"attribute {attr} of {type(base).__name__}")

    def class_attr(self, owner: ClassModel, attr: str) -> Any:
        key = (owner.module, owner.name + "." + attr)
        if key not in self._consts:
            self._consts[key] = self.eval_expr(owner.module, owner.attrs[attr], {}, owner.name)
        return self._consts[key]

    def setattr(self, o: Any, attr: str, v: Any) -> None:
        if isinstance(o, Obj):
            if any(c.is_dataclass and c.dc_frozen for c in o.cls.mro()) and attr in [f[0] for f in o.cls.fields()]:
                raise AttributeError(f"cannot assign to field '{attr}' of a frozen dataclass")  # dataclasses.FrozenInstanceError is an AttributeError
            o.fields[attr] = v
        elif getattr(o, "_folder_stub", False) or type(o).__name__ == "SimpleNamespace":
            setattr(o, attr, v)
        else:
            raise Unknown(f"attribute store on {type(o).__name__}")

    # -- calls ---------------------------------------------------------------------------------------------------
    def call(self, fn: Any, args: Sequence[Any], kwargs: Dict[str, Any], node: Optional[ast.AST] = None) -> Any:
        self.tick()
        if isinstance(fn, (FuncRef, ClassRef)):
            return fn(*args, **kwargs)
        if callable(fn):
            if fn in (sorted, min, max) and "key" in kwargs and kwargs["key"] is None:
                kwargs = {k: v for k, v in kwargs.items() if k != "key"}
            return fn(*args, **kwargs)
        raise Unknown(f"call of a non-callable `{ast.unparse(node.func)[:40] if node is not None else fn!r}`")

    def real_member(self, obj: Obj, name: str) -> FuncRef:
        """The method `name` of obj as written in the source (rule overrides are not consulted)."""
        m = obj.cls.member(name)
        if m is None:
            raise Unknown(f"{obj.cls.name}.{name} not found")
        kind, fnode, owner = m
        return FuncRef(self, owner.module, fnode, bound=obj, clsname=owner.name)

    def call_member(self, obj: Any, m: Tuple[str, ast.FunctionDef, ClassModel], args: Tuple[Any, ...], kwargs: Optional[Dict[str, Any]] = None) -> Any:
        kind, fnode, owner = m
        return self.run_function(owner.module, fnode, (obj,) + tuple(args), kwargs or {}, None, owner.name)

    def run_function(self, module: str, fnode: ast.AST, args: Sequence[Any], kwargs: Dict[str, Any], closure: Optional[Dict[str, Any]], clsname: Optional[str]) -> Any:
        self.tick()
        a = fnode.args
        env: Dict[str, Any] = dict(closure) if closure is not None else {}
        params = [p.arg for p in a.posonlyargs + a.args]
        defaults = a.defaults
        if len(args) > len(params) and a.vararg is None:
            raise TypeError(f"{getattr(fnode, 'name', '<lambda>')}() takes {len(params)} positional arguments but {len(args)} were given")
        bound: Dict[str, Any] = {}
        for p, v in zip(params, args):
            bound[p] = v
        if a.vararg is not None:
            bound[a.vararg.arg] = tuple(args[len(params) :])
        kwonly = [p.arg for p in a.kwonlyargs]
        extra = {}
        for k, v in kwargs.items():
            if k in params or k in kwonly:
                if k in bound:
                    raise TypeError(f"multiple values for argument '{k}'")
                bound[k] = v
            elif a.kwarg is not None:
                extra[k] = v
            else:
                raise TypeError(f"unexpected keyword argument '{k}'")
        if a.kwarg is not None:
            bound[a.kwarg.arg] = extra
        scope_for_defaults = dict(env)
        for p, d in zip(params[len(params) - len(defaults) :], defaults):
            if p not in bound:
                bound[p] = self.eval_expr(module, d, scope_for_defaults, clsname)
        for p, d in zip(kwonly, a.kw_defaults):
            if p not in bound and d is not None:
                bound[p] = self.eval_expr(module, d, scope_for_defaults, clsname)
        for p in params + kwonly:
            if p not in bound:
                raise TypeError(f"{getattr(fnode, 'name', '<lambda>')}() missing required argument '{p}'")
        env.update(bound)
        self.depth += 1
        try:
            if self.depth > 60:
                raise Unknown("call depth")
            if isinstance(fnode, ast.Lambda):
                return Exec(self, module, env, clsname).fold(fnode.body)
            if _is_generator(fnode):
                # a generator function whose yields are all statements: its values are computed at once, in order, and handed
                # out as a one-shot iterator (the difference from lazy evaluation shows only if the caller edits, between two
                # items, state the generator reads - not modelled; a yield used as an expression is outside the fragment)
                env["<yielded>"] = []
                kind, val = Exec(self, module, env, clsname).run(fnode.body)
                if kind not in ("return", "fall"):
                    raise Unknown(f"`{kind}` outside a loop")
                return iter(env["<yielded>"])
            kind, val = Exec(self, module, env, clsname).run(fnode.body)
            if kind == "return":
                return val
            if kind == "fall":
                return None
            raise Unknown(f"`{kind}` outside a loop")
        finally:
            self.depth -= 1
