"""A2c: micro-interpreter for extracted fragments (extension of sa/blockeval.py, DESIGN.md §1.2 item 4).

Where a clause is about the value an algorithmic fragment produces for each *class* of a finite input partition
(the order types of a few arcs, the patterns of occupied levels, the classes of a solver outcome, ...), the
fragment is read from the ast and interpreted here on one representative per class.  Nothing of the repository is
imported or executed by Python: statements and expressions of the *ast* are interpreted with

  * a closed table of pure builtins and pure stdlib modules (itertools, string, math, re, collections, functools,
    operator, copy); `logging` is a no-op;
  * rule-supplied stubs for everything else (`pulp`, the receiver `self`, recorders for constructors);
  * an object model for the classes of the analysed module (dataclass fields, methods, properties,
    cached properties, static methods), whose bodies are again interpreted from the ast.

Three outcomes are kept strictly apart:
  ProgramError  the *fragment* raised (KeyError, StopIteration, AttributeError on None ...) - a fact about the code;
  StepLimit     the fragment did not finish within the step budget on a tiny input - a fact as well (the rule says so);
  NotEvaluable  a construct outside the interpreted subset, or an internal failure of the interpreter - never a
                verdict: the rule falls back to its pinned-form reading or reports ANALYSIS-ERROR.
"""
from __future__ import annotations

import ast
import collections
import copy as _copy
import functools
import itertools
import math
import operator
import re
import string
from typing import Any, Callable, Dict, Iterator, List, Optional, Sequence, Tuple


class NotEvaluable(Exception):
    pass


class StepLimit(Exception):
    pass


class ProgramError(Exception):
    """An exception raised by the interpreted fragment."""

    def __init__(self, exc: BaseException, node: Optional[ast.AST] = None):
        super().__init__(f"{type(exc).__name__}: {exc}")
        self.exc = exc
        self.lineno = getattr(node, "lineno", None)

    @property
    def kind(self) -> str:
        return type(self.exc).__name__


class _Flow(Exception):
    pass


class _Ret(_Flow):
    def __init__(self, value: Any):
        self.value = value


class _Brk(_Flow):
    pass


class _Cont(_Flow):
    pass


_PASS = (ProgramError, NotEvaluable, StepLimit, _Flow)


class _Null:
    """`logging`: every attribute is a callable that does nothing."""

    def __getattr__(self, name):
        return _null_call

    def __call__(self, *a, **k):
        return None


def _null_call(*a, **k):
    return None


SAFE_MODULES = {
    "itertools": itertools,
    "string": string,
    "math": math,
    "re": re,
    "collections": collections,
    "functools": functools,
    "operator": operator,
    "copy": _copy,
}

_EXC = {n: getattr(__import__("builtins"), n) for n in (
    "Exception", "ValueError", "KeyError", "IndexError", "TypeError", "StopIteration", "RuntimeError", "AttributeError",
    "ZeroDivisionError", "NotImplementedError", "AssertionError", "LookupError", "ArithmeticError", "OverflowError",
)}

SAFE_BUILTINS: Dict[str, Any] = {
    "len": len, "range": range, "enumerate": enumerate, "zip": zip, "map": map, "filter": filter, "sorted": sorted,
    "reversed": reversed, "min": min, "max": max, "sum": sum, "any": any, "all": all, "abs": abs, "round": round,
    "int": int, "float": float, "str": str, "bool": bool, "list": list, "tuple": tuple, "set": set, "frozenset": frozenset,
    "dict": dict, "iter": iter, "next": next, "isinstance": isinstance, "repr": repr, "divmod": divmod, "pow": pow,
    "chr": chr, "ord": ord, "hash": hash, "print": _null_call, "slice": slice, "object": object, "bytes": bytes,
    "callable": callable, "format": format,
    **_EXC,
}

_BIN = {
    ast.Add: operator.add, ast.Sub: operator.sub, ast.Mult: operator.mul, ast.Div: operator.truediv, ast.FloorDiv: operator.floordiv,
    ast.Mod: operator.mod, ast.Pow: operator.pow, ast.BitOr: operator.or_, ast.BitAnd: operator.and_, ast.BitXor: operator.xor,
    ast.LShift: operator.lshift, ast.RShift: operator.rshift, ast.MatMult: operator.matmul,
}
_IBIN = {
    ast.Add: operator.iadd, ast.Sub: operator.isub, ast.Mult: operator.imul, ast.Div: operator.itruediv, ast.FloorDiv: operator.ifloordiv,
    ast.Mod: operator.imod, ast.Pow: operator.ipow, ast.BitOr: operator.ior, ast.BitAnd: operator.iand, ast.BitXor: operator.ixor,
    ast.LShift: operator.ilshift, ast.RShift: operator.irshift, ast.MatMult: operator.imatmul,
}
_CMP = {
    ast.Eq: operator.eq, ast.NotEq: operator.ne, ast.Lt: operator.lt, ast.LtE: operator.le, ast.Gt: operator.gt, ast.GtE: operator.ge,
    ast.In: lambda a, b: a in b, ast.NotIn: lambda a, b: a not in b, ast.Is: operator.is_, ast.IsNot: operator.is_not,
}


class Scope:
    __slots__ = ("vars", "parent", "comp")

    def __init__(self, parent: Optional["Scope"] = None, comp: bool = False, vars: Optional[Dict[str, Any]] = None):
        self.vars: Dict[str, Any] = vars if vars is not None else {}
        self.parent = parent
        self.comp = comp

    def lookup(self, name: str) -> Tuple[bool, Any]:
        s: Optional[Scope] = self
        while s is not None:
            if name in s.vars:
                return True, s.vars[name]
            s = s.parent
        return False, None

    def store(self, name: str, value: Any) -> None:
        s = self
        while s.comp and s.parent is not None:
            s = s.parent
        s.vars[name] = value

    def function_scope(self) -> "Scope":
        s = self
        while s.comp and s.parent is not None:
            s = s.parent
        return s


class Closure:
    """A function of the analysed source (def or lambda) as a callable: its body is interpreted."""

    _microeval = True

    def __init__(self, interp: "Interp", node: ast.AST, scope: Optional[Scope], module: str, cls: Optional[str] = None, name: str = "<lambda>"):
        self.interp, self.node, self.scope, self.module, self.cls, self.name = interp, node, scope, module, cls, name
        self.defaults: List[Any] = []
        self.kw_defaults: Dict[str, Any] = {}

    def __call__(self, *args, **kwargs):
        return self.interp._invoke(self, args, kwargs)

    def __repr__(self):
        return f"<function {self.name}>"


class BoundMethod:
    _microeval = True

    def __init__(self, fn: Closure, recv: Any):
        self.fn, self.recv = fn, recv

    def __call__(self, *args, **kwargs):
        return self.fn(self.recv, *args, **kwargs)


class Instance:
    """An object of a class of the analysed module: attribute dictionary + class model (methods interpreted from the ast)."""

    _microeval = True
    _count = 0

    def __init__(self, interp: "Interp", module: str, cls: str, attrs: Optional[Dict[str, Any]] = None, over: Optional[Dict[str, Any]] = None):
        object.__setattr__(self, "_interp", interp)
        object.__setattr__(self, "_module", module)
        object.__setattr__(self, "_cls", cls)
        object.__setattr__(self, "_attrs", dict(attrs or {}))
        object.__setattr__(self, "_over", dict(over or {}))
        Instance._count += 1
        object.__setattr__(self, "_serial", Instance._count)  # identity hash without memory addresses (deterministic runs)

    # python protocols used by builtins (sorted, in, join ...) are routed to the class model
    def _dunder(self, name: str, *args, default=NotImplemented):
        fn = self._interp._find_member(self._module, self._cls, name)
        if fn is None:
            return default
        return self._interp._invoke(self._interp._method_closure(fn[0], fn[1], fn[2]), (self,) + args, {})

    def __eq__(self, other):
        r = self._dunder("__eq__", other)
        if r is NotImplemented:
            m = self._interp._class_model(self._module, self._cls)
            if m.dataclass and m.dc_eq and isinstance(other, Instance) and other._cls == self._cls:
                return all(self._attrs.get(f) == other._attrs.get(f) for f in m.field_names())
            return self is other
        return r

    def __ne__(self, other):
        return not self.__eq__(other)

    def __hash__(self):
        r = self._dunder("__hash__")
        if r is not NotImplemented:
            return r
        m = self._interp._class_model(self._module, self._cls)
        if m.dataclass and m.dc_eq and not m.dc_frozen and not m.has("__eq__"):
            raise TypeError(f"unhashable type: '{self._cls}'")
        if m.dataclass and m.dc_frozen:
            return hash(tuple(self._attrs.get(f) for f in m.field_names()))
        if m.has("__eq__"):
            raise TypeError(f"unhashable type: '{self._cls}'")
        return self.__dict__["_serial"]

    def __lt__(self, other):
        return self._dunder("__lt__", other)

    def __len__(self):
        r = self._dunder("__len__")
        if r is NotImplemented:
            raise TypeError(f"object of type '{self._cls}' has no len()")
        return r

    def __getitem__(self, item):
        r = self._dunder("__getitem__", item)
        if r is NotImplemented:
            raise TypeError(f"'{self._cls}' object is not subscriptable")
        return r

    def __iter__(self):
        fn = self._interp._find_member(self._module, self._cls, "__iter__")
        if fn is not None:
            return iter(self._dunder("__iter__"))
        if self._interp._find_member(self._module, self._cls, "__getitem__") is None:
            raise TypeError(f"'{self._cls}' object is not iterable")

        def gen():
            i = 0
            while True:
                try:
                    v = self[i]
                except ProgramError as pe:
                    if isinstance(pe.exc, IndexError):
                        return
                    raise
                yield v
                i += 1

        return gen()

    def __contains__(self, x):
        r = self._dunder("__contains__", x)
        if r is NotImplemented:
            return any(v == x for v in self)
        return r

    def __bool__(self):
        r = self._dunder("__bool__")
        if r is not NotImplemented:
            return bool(r)
        if self._interp._find_member(self._module, self._cls, "__len__") is not None:
            return len(self) != 0
        return True

    def __str__(self):
        r = self._dunder("__str__")
        if r is NotImplemented:
            return self.__repr__()
        return r

    def __repr__(self):
        return f"{self._cls}({', '.join(f'{k}={v!r}' for k, v in self._attrs.items() if not k.startswith('_'))})"

    def __setattr__(self, k, v):
        self._attrs[k] = v

    def __getattr__(self, k):  # used by foreign python code only; the interpreter goes through Interp.getattr_
        if k.startswith("_") and k in ("_interp", "_module", "_cls", "_attrs", "_over", "_serial"):
            raise AttributeError(k)
        return self._interp.getattr_(self, k, None)


class ClassModel:
    def __init__(self, module: str, node: ast.ClassDef):
        self.module, self.node, self.name = module, node, node.name
        self.members: Dict[str, ast.FunctionDef] = {}
        self.fields: List[Tuple[str, Optional[ast.expr]]] = []
        self.class_attrs: Dict[str, ast.expr] = {}
        self.bases = [ast.unparse(b) for b in node.bases]
        self.dataclass = False
        self.dc_frozen = False
        self.dc_eq = True
        for d in node.decorator_list:
            nm = ast.unparse(d.func if isinstance(d, ast.Call) else d).split(".")[-1]
            if nm == "dataclass":
                self.dataclass = True
                if isinstance(d, ast.Call):
                    for k in d.keywords:
                        if k.arg == "frozen" and isinstance(k.value, ast.Constant):
                            self.dc_frozen = bool(k.value.value)
                        if k.arg == "eq" and isinstance(k.value, ast.Constant):
                            self.dc_eq = bool(k.value.value)
        for b in node.body:
            if isinstance(b, (ast.FunctionDef, ast.AsyncFunctionDef)):
                if any("setter" in ast.unparse(d) for d in b.decorator_list):
                    continue
                self.members[b.name] = b
            elif isinstance(b, ast.AnnAssign) and isinstance(b.target, ast.Name):
                if "ClassVar" in ast.unparse(b.annotation):
                    if b.value is not None:
                        self.class_attrs[b.target.id] = b.value
                else:
                    self.fields.append((b.target.id, b.value))
            elif isinstance(b, ast.Assign):
                for t in b.targets:
                    if isinstance(t, ast.Name):
                        self.class_attrs[t.id] = b.value

    def has(self, name: str) -> bool:
        return name in self.members

    def field_names(self) -> List[str]:
        return [f for f, _ in self.fields]

    @staticmethod
    def kind(fn: ast.FunctionDef) -> str:
        for d in fn.decorator_list:
            nm = ast.unparse(d.func if isinstance(d, ast.Call) else d).split(".")[-1]
            if nm in ("property", "cached_property", "staticmethod", "classmethod"):
                return nm
        return "method"


class ClassRef:
    """A class of the analysed module used as a value: constructor, static/class methods, class attributes."""

    _microeval = True

    def __init__(self, interp: "Interp", module: str, name: str):
        self.interp, self.module, self.name = interp, module, name

    def __call__(self, *args, **kwargs):
        return self.interp._construct(self, args, kwargs)

    def __repr__(self):
        return f"<class {self.name}>"


class Interp:
    def __init__(self, repo, module: str, globals_: Optional[Dict[str, Any]] = None, max_steps: int = 400_000, cov: Optional[set] = None):
        # coverage: ids of the statements / conditional arms / short-circuit operands that were interpreted.  A rule that
        # claims "holds on every input class" must also see that its classes reach every part of the fragment (coverage_gaps)
        self.cov: set = cov if cov is not None else set()
        self.repo = repo
        self.module = module
        self.globals = dict(globals_ or {})
        self.max_steps = max_steps
        self.steps = 0
        self._models: Dict[Tuple[str, str], ClassModel] = {}
        self._consts: Dict[Tuple[str, str], Any] = {}
        self._busy: set = set()
        self._ctor: Dict[str, Callable] = {}
        self._handling: List[ProgramError] = []
        self._yields: List[List[Any]] = []
        try:
            from .graphmodel import MODULES as _M

            self.modules: Dict[str, Any] = dict(_M)
        except Exception:
            self.modules = {}
        self._mod_scopes: Dict[str, Scope] = {}

    # ------------------------------------------------------------------------------------------ public helpers
    def override_ctor(self, cls: str, fn: Callable) -> None:
        """`Cls(...)` inside the fragment calls fn(*args, **kwargs) instead of building an Instance (recorders)."""
        self._ctor[cls] = fn

    def instance(self, cls: str, attrs: Optional[Dict[str, Any]] = None, over: Optional[Dict[str, Any]] = None, module: Optional[str] = None) -> Instance:
        """A receiver stub: `attrs` are plain attribute values, `over` replaces members (values for properties, callables for methods).
        Every replaced member must exist in the class: a stub for a member the code does not have would silently not be used and
        the receiver would be inconsistent - that is 'anchor not found' (NotEvaluable), never a verdict."""
        for name in over or {}:
            if self._find_member(module or self.module, cls, name) is None:
                raise NotEvaluable(f"anchor {cls}.{name} not found (a rule-supplied stand-in for it would not be used)")
        return Instance(self, module or self.module, cls, attrs, over)

    def class_ref(self, cls: str, module: Optional[str] = None) -> ClassRef:
        return ClassRef(self, module or self.module, cls)

    def call_member(self, inst: Instance, name: str, *args, **kwargs) -> Any:
        """Evaluate method/property `name` of the instance's class on `inst` (ignoring an override of that same member)."""
        fn = self._find_member(inst._module, inst._cls, name)
        if fn is None:
            raise NotEvaluable(f"{inst._cls}.{name} not found")
        kind = ClassModel.kind(fn[2])
        clo = self._method_closure(*fn)
        self.steps = 0
        if kind == "staticmethod":
            return self._invoke(clo, args, kwargs)
        return self._invoke(clo, (inst,) + args, kwargs)

    def call_function(self, fn_node: ast.FunctionDef, args: Sequence[Any] = (), kwargs: Optional[Dict[str, Any]] = None, cls: Optional[str] = None) -> Any:
        self.steps = 0
        return self._invoke(Closure(self, fn_node, self._module_scope(self.module), self.module, cls, fn_node.name), tuple(args), dict(kwargs or {}))

    def run_block(self, stmts: Sequence[ast.stmt], env: Dict[str, Any], cls: Optional[str] = None) -> Tuple[str, Any, Dict[str, Any]]:
        """Interpret a statement list in a fresh function scope: ('fall'|'return', value, final locals)."""
        self.steps = 0
        sc = Scope(self._module_scope(self.module), vars=dict(env))
        try:
            self._guarded(self.exec_block, stmts, sc)
        except _Ret as r:
            return "return", r.value, sc.vars
        except (_Brk, _Cont):
            raise NotEvaluable("break/continue outside a loop in the fragment")
        return "fall", None, sc.vars

    # ------------------------------------------------------------------------------------------ module level
    def _module_scope(self, module: str) -> Scope:
        if module not in self._mod_scopes:
            self._mod_scopes[module] = Scope(None)
        return self._mod_scopes[module]

    def _global(self, name: str, module: str, node: Optional[ast.AST]) -> Any:
        if name in self.globals:
            return self.globals[name]
        key = (module, name)
        if key in self._consts:
            return self._consts[key]
        try:
            m = self.repo.module(module)
        except Exception:
            raise NotEvaluable(f"module {module} not found")
        if name in m.classes:
            v = ClassRef(self, module, name)
            self._consts[key] = v
            return v
        if name in m.funcs and "." not in name:
            v = Closure(self, m.funcs[name].node, self._module_scope(module), module, None, name)
            self._bind_defaults(v, self._module_scope(module))
            self._consts[key] = v
            return v
        if name in m.consts:
            if key in self._busy:
                raise NotEvaluable(f"recursive module constant {name}")
            self._busy.add(key)
            try:
                v = self.ev(m.consts[name], Scope(self._module_scope(module)), module)
                for st in getattr(m, "mutations", {}).get(name, []):
                    sc = Scope(self._module_scope(module), vars={name: v})
                    self._exec(st, sc, module)
                    v = sc.vars[name]
            finally:
                self._busy.discard(key)
            self._consts[key] = v
            return v
        if name in m.imports:
            src, orig = m.imports[name]
            root = src.split(".")[0]
            if root == "logging" or (src == "logging"):
                return _Null()
            if root in SAFE_MODULES:
                mod = SAFE_MODULES[root]
                for part in src.split(".")[1:]:
                    mod = getattr(mod, part, None)
                if orig is None:
                    return SAFE_MODULES[root]
                if mod is not None and hasattr(mod, orig):
                    return getattr(mod, orig)
            if src in self.modules and orig is not None and hasattr(self.modules[src], orig):
                return getattr(self.modules[src], orig)  # a modelled third-party function (sa/graphmodel.py, rule-supplied)
            if root == "rnapolis" and orig is not None:
                return self._global(orig, src.split(".", 1)[1] if "." in src else module, node)
            if root in ("typing", "dataclasses", "enum", "functools") and orig is not None:
                raise NotEvaluable(f"use of `{name}` (from {src}) as a value")
            raise NotEvaluable(f"module `{src}` is outside the interpreted subset (no stub supplied for `{name}`)")
        if name == "isinstance":
            return self._b_isinstance
        if name in SAFE_BUILTINS:
            return SAFE_BUILTINS[name]
        if name in ("getattr", "hasattr", "setattr", "vars"):
            return {"getattr": self._b_getattr, "hasattr": self._b_hasattr, "setattr": self._b_setattr, "vars": self._b_vars}[name]
        if hasattr(__import__("builtins"), name):
            raise NotEvaluable(f"builtin `{name}` is outside the interpreted subset")
        raise ProgramError(NameError(f"name '{name}' is not defined"), node)

    def _b_getattr(self, obj, name, *default):
        try:
            return self.getattr_(obj, name, None)
        except ProgramError as pe:
            if default and isinstance(pe.exc, AttributeError):
                return default[0]
            raise

    def _b_hasattr(self, obj, name):
        try:
            self.getattr_(obj, name, None)
            return True
        except ProgramError as pe:
            if isinstance(pe.exc, AttributeError):
                return False
            raise

    def _b_setattr(self, obj, name, value):
        self.setattr_(obj, name, value, None)

    def _b_isinstance(self, obj, cls):
        cs = cls if isinstance(cls, tuple) else (cls,)
        for c in cs:
            if isinstance(c, ClassRef):
                if isinstance(obj, Instance) and any(m.name == c.name and m.module == c.module for m in self._mro(obj._module, obj._cls)):
                    return True
            elif isinstance(c, type):
                if isinstance(obj, c):
                    return True
            else:
                raise NotEvaluable("isinstance() against a non-class")
        return False

    def _b_vars(self, obj):
        if isinstance(obj, Instance):
            return obj._attrs
        raise NotEvaluable("vars() of a non-instance")

    # ------------------------------------------------------------------------------------------ class model
    def _class_model(self, module: str, cls: str) -> ClassModel:
        key = (module, cls)
        if key not in self._models:
            try:
                node = self.repo.module(module).classes[cls]
            except Exception:
                raise NotEvaluable(f"class {module}.{cls} not found")
            self._models[key] = ClassModel(module, node)
        return self._models[key]

    def _mro(self, module: str, cls: str) -> List[ClassModel]:
        out, todo = [], [(module, cls)]
        while todo:
            mod, c = todo.pop(0)
            try:
                m = self._class_model(mod, c)
            except NotEvaluable:
                continue
            if m in out:
                continue
            out.append(m)
            for b in m.bases:
                b = b.split(".")[-1]
                try:
                    if b in self.repo.module(mod).classes:
                        todo.append((mod, b))
                except Exception:
                    pass
        return out

    def _find_member(self, module: str, cls: str, name: str) -> Optional[Tuple[str, str, ast.FunctionDef]]:
        for m in self._mro(module, cls):
            if name in m.members:
                return m.module, m.name, m.members[name]
        return None

    def _method_closure(self, module: str, cls: str, fn: ast.FunctionDef) -> Closure:
        c = Closure(self, fn, self._module_scope(module), module, cls, f"{cls}.{fn.name}")
        self._bind_defaults(c, self._module_scope(module))
        return c

    def _all_fields(self, module: str, cls: str) -> List[Tuple[str, Optional[ast.expr], str]]:
        out: List[Tuple[str, Optional[ast.expr], str]] = []
        for m in reversed(self._mro(module, cls)):
            if m.dataclass:
                for f, d in m.fields:
                    out = [x for x in out if x[0] != f] + [(f, d, m.module)]
        return out

    def _construct(self, ref: ClassRef, args, kwargs) -> Any:
        if ref.name in self._ctor:
            return self._ctor[ref.name](*args, **kwargs)
        m = self._class_model(ref.module, ref.name)
        if any(b.split(".")[-1] in ("Enum", "IntEnum", "Flag") for b in m.bases):
            raise NotEvaluable(f"Enum class {ref.name} is outside the interpreted subset")
        inst = Instance(self, ref.module, ref.name)
        init = self._find_member(ref.module, ref.name, "__init__")
        if init is not None:
            self._invoke(self._method_closure(*init), (inst,) + tuple(args), dict(kwargs))
            return inst
        if not m.dataclass:
            if args or kwargs:
                raise ProgramError(TypeError(f"{ref.name}() takes no arguments"), None)
            return inst
        fields = self._all_fields(ref.module, ref.name)
        if len(args) > len(fields):
            raise ProgramError(TypeError(f"{ref.name}() takes {len(fields)} positional arguments but {len(args)} were given"), None)
        vals: Dict[str, Any] = {}
        for (f, _, _), v in zip(fields, args):
            vals[f] = v
        for k, v in kwargs.items():
            if k in vals or k not in [f for f, _, _ in fields]:
                raise ProgramError(TypeError(f"{ref.name}() got an unexpected or repeated keyword argument '{k}'"), None)
            vals[k] = v
        for f, d, mod in fields:
            if f not in vals:
                if d is None:
                    raise ProgramError(TypeError(f"{ref.name}() missing required argument '{f}'"), None)
                dv = d
                if isinstance(d, ast.Call) and ast.unparse(d.func).split(".")[-1] == "field":
                    fac = [k.value for k in d.keywords if k.arg == "default_factory"]
                    dft = [k.value for k in d.keywords if k.arg == "default"]
                    if fac:
                        vals[f] = self.call(self.ev(fac[0], Scope(self._module_scope(mod)), mod), (), {}, d)
                        continue
                    if dft:
                        dv = dft[0]
                    else:
                        raise NotEvaluable("dataclass field() without default")
                vals[f] = self.ev(dv, Scope(self._module_scope(mod)), mod)
        for f, _, _ in fields:
            inst._attrs[f] = vals[f]
        post = self._find_member(ref.module, ref.name, "__post_init__")
        if post is not None:
            object.__setattr__(inst, "_constructing", True)
            try:
                self._invoke(self._method_closure(*post), (inst,), {})
            finally:
                object.__setattr__(inst, "_constructing", False)
        return inst

    # ------------------------------------------------------------------------------------------ attributes
    def getattr_(self, obj: Any, name: str, node: Optional[ast.AST]) -> Any:
        if isinstance(obj, Instance):
            if name == "__dict__":
                return obj._attrs
            if name == "__class__":
                return ClassRef(self, obj._module, obj._cls)
            pref = f"_{obj._cls}__"
            if name.startswith(pref):
                name = name[len(pref) - 2 :]
            if name in obj._over:
                return obj._over[name]
            if name in obj._attrs:
                return obj._attrs[name]
            found = self._find_member(obj._module, obj._cls, name)
            if found is not None:
                kind = ClassModel.kind(found[2])
                clo = self._method_closure(*found)
                if kind == "property":
                    return self._invoke(clo, (obj,), {})
                if kind == "cached_property":
                    v = self._invoke(clo, (obj,), {})
                    obj._attrs[name] = v
                    return v
                if kind == "staticmethod":
                    return clo
                if kind == "classmethod":
                    return BoundMethod(clo, ClassRef(self, obj._module, obj._cls))
                return BoundMethod(clo, obj)
            for m in self._mro(obj._module, obj._cls):
                if name in m.class_attrs:
                    return self.ev(m.class_attrs[name], Scope(self._module_scope(m.module)), m.module)
            raise ProgramError(AttributeError(f"'{obj._cls}' object has no attribute '{name}'"), node)
        if isinstance(obj, ClassRef):
            pref = f"_{obj.name}__"
            if name.startswith(pref):
                name = name[len(pref) - 2 :]
            if name == "__name__":
                return obj.name
            found = self._find_member(obj.module, obj.name, name)
            if found is not None:
                kind = ClassModel.kind(found[2])
                clo = self._method_closure(*found)
                if kind == "classmethod":
                    return BoundMethod(clo, obj)
                if kind in ("property", "cached_property"):
                    raise NotEvaluable(f"property {obj.name}.{name} read on the class")
                return clo  # static method, or a plain function taken from the class
            for m in self._mro(obj.module, obj.name):
                if name in m.class_attrs:
                    return self.ev(m.class_attrs[name], Scope(self._module_scope(m.module)), m.module)
            raise ProgramError(AttributeError(f"type object '{obj.name}' has no attribute '{name}'"), node)
        if isinstance(obj, (Closure, BoundMethod)):
            raise NotEvaluable(f"attribute `{name}` of a function object")
        if name.startswith("__") and name.endswith("__") and name not in ("__name__", "__len__", "__iter__", "__contains__", "__getitem__", "__class__"):
            raise NotEvaluable(f"dunder attribute `{name}` of a foreign object")
        if obj is dict and name == "fromkeys":
            return dict.fromkeys
        try:
            return getattr(obj, name)
        except _PASS:
            raise
        except AttributeError as e:
            raise ProgramError(e, node)
        except Exception as e:
            raise ProgramError(e, node)

    def setattr_(self, obj: Any, name: str, value: Any, node: Optional[ast.AST]) -> None:
        if isinstance(obj, Instance):
            m = self._class_model(obj._module, obj._cls)
            if m.dataclass and m.dc_frozen and not obj.__dict__.get("_constructing", False):
                import dataclasses

                raise ProgramError(dataclasses.FrozenInstanceError(f"cannot assign to field '{name}'"), node)
            pref = f"_{obj._cls}__"
            if name.startswith(pref):
                name = name[len(pref) - 2 :]
            obj._attrs[name] = value
            return
        if isinstance(obj, (ClassRef, Closure, BoundMethod)):
            raise NotEvaluable("attribute store on a class/function object")
        if isinstance(obj, (int, str, float, tuple, list, dict, set, frozenset, type(None))):
            raise ProgramError(AttributeError(f"'{type(obj).__name__}' object has no attribute '{name}'"), node)
        try:
            setattr(obj, name, value)
        except _PASS:
            raise
        except Exception as e:
            raise ProgramError(e, node)

    # ------------------------------------------------------------------------------------------ calls
    def _bind_defaults(self, clo: Closure, sc: Scope) -> None:
        a = clo.node.args
        clo.defaults = [self.ev(d, sc, clo.module) for d in a.defaults]
        clo.kw_defaults = {p.arg: self.ev(d, sc, clo.module) for p, d in zip(a.kwonlyargs, a.kw_defaults) if d is not None}

    def _invoke(self, clo: Closure, args, kwargs) -> Any:
        return self._guarded(self._invoke0, clo, args, kwargs)

    def _guarded(self, fn, *a):
        try:
            return fn(*a)
        except _PASS:
            raise
        except RecursionError:
            raise NotEvaluable("recursion too deep for the interpreter")
        except Exception as e:  # a failure of the interpreter itself is never a fact about the fragment
            raise NotEvaluable(f"internal interpreter error: {type(e).__name__}: {e}")

    def _invoke0(self, clo: Closure, args, kwargs) -> Any:
        node = clo.node
        a = node.args
        sc = Scope(clo.scope)
        pos = [p.arg for p in a.posonlyargs + a.args]
        args = list(args)
        kwargs = dict(kwargs)
        if len(args) > len(pos) and not a.vararg:
            raise ProgramError(TypeError(f"{clo.name}() takes {len(pos)} positional arguments but {len(args)} were given"), node)
        for p, v in zip(pos, args):
            sc.vars[p] = v
        if a.vararg:
            sc.vars[a.vararg.arg] = tuple(args[len(pos):])
        n_def = len(clo.defaults)
        for i, p in enumerate(pos):
            if p in sc.vars:
                if p in kwargs:
                    raise ProgramError(TypeError(f"{clo.name}() got multiple values for argument '{p}'"), node)
                continue
            if p in kwargs:
                sc.vars[p] = kwargs.pop(p)
            elif i >= len(pos) - n_def:
                sc.vars[p] = clo.defaults[i - (len(pos) - n_def)]
            else:
                raise ProgramError(TypeError(f"{clo.name}() missing required argument '{p}'"), node)
        for p in a.kwonlyargs:
            if p.arg in kwargs:
                sc.vars[p.arg] = kwargs.pop(p.arg)
            elif p.arg in clo.kw_defaults:
                sc.vars[p.arg] = clo.kw_defaults[p.arg]
            else:
                raise ProgramError(TypeError(f"{clo.name}() missing keyword argument '{p.arg}'"), node)
        if a.kwarg:
            sc.vars[a.kwarg.arg] = kwargs
        elif kwargs:
            raise ProgramError(TypeError(f"{clo.name}() got an unexpected keyword argument '{next(iter(kwargs))}'"), node)
        self.cov.add(id(node))
        if isinstance(node, ast.Lambda):
            return self.ev(node.body, sc, clo.module)
        own = list(_walk_own(node))
        if any(isinstance(n, ast.Await) for n in own):
            raise NotEvaluable(f"{clo.name} is a coroutine")
        if any(isinstance(n, (ast.Yield, ast.YieldFrom)) for n in own):
            # a generator function is run to its end at the call and its values handed out afterwards: the same sequence for a
            # generator without side effects between its yields (laziness itself is not modelled)
            self._yields.append([])
            try:
                try:
                    self.exec_block(node.body, sc, clo.module)
                except _Ret:
                    pass
                return iter(self._yields[-1])
            finally:
                self._yields.pop()
        try:
            self.exec_block(node.body, sc, clo.module)
        except _Ret as r:
            return r.value
        return None

    def call(self, f: Any, args, kwargs, node: Optional[ast.AST]) -> Any:
        if isinstance(f, (Closure, BoundMethod, ClassRef)):
            return f(*args, **kwargs)
        if not callable(f):
            raise ProgramError(TypeError(f"'{type(f).__name__}' object is not callable"), node)
        try:
            return f(*args, **kwargs)
        except _PASS:
            raise
        except RecursionError:
            raise NotEvaluable("recursion too deep")
        except Exception as e:
            raise ProgramError(e, node)

    # ------------------------------------------------------------------------------------------ statements
    def exec_block(self, stmts: Sequence[ast.stmt], sc: Scope, module: Optional[str] = None) -> None:
        module = module or self.module
        for st in stmts:
            self._exec(st, sc, module)

    def _tick(self) -> None:
        self.steps += 1
        if self.steps > self.max_steps:
            raise StepLimit(f"more than {self.max_steps} interpreted steps")

    def _truth(self, v: Any, node: ast.AST) -> bool:
        try:
            b = bool(v)
            # condition coverage: which truth values every tested expression took (read by rules that need to know whether a
            # guard was ever true / ever false on their input classes)
            self.__dict__.setdefault("outcomes", set()).add((id(node), b))
            return b
        except _PASS:
            raise
        except Exception as e:
            raise ProgramError(e, node)

    def _iter(self, v: Any, node: ast.AST) -> Iterator:
        try:
            return iter(v)
        except _PASS:
            raise
        except Exception as e:
            raise ProgramError(e, node)

    def _next(self, it: Iterator, node: ast.AST) -> Tuple[bool, Any]:
        try:
            return True, next(it)
        except StopIteration:
            return False, None
        except _PASS:
            raise
        except Exception as e:
            raise ProgramError(e, node)

    def _exec(self, st: ast.stmt, sc: Scope, module: str) -> None:
        self._tick()
        self.cov.add(id(st))
        if isinstance(st, ast.Expr):
            self.ev(st.value, sc, module)
        elif isinstance(st, ast.Assign):
            v = self.ev(st.value, sc, module)
            for t in st.targets:
                self._assign(t, v, sc, module)
        elif isinstance(st, ast.AnnAssign):
            if st.value is not None:
                self._assign(st.target, self.ev(st.value, sc, module), sc, module)
        elif isinstance(st, ast.AugAssign):
            op = _IBIN.get(type(st.op))
            if op is None:
                raise NotEvaluable("augmented operator")
            t = st.target
            if isinstance(t, ast.Name):
                cur = self._load_name(t.id, sc, module, t)
                rhs = self.ev(st.value, sc, module)
                sc.store(t.id, self._op(st, op, cur, rhs))
            elif isinstance(t, ast.Subscript):
                base = self.ev(t.value, sc, module)
                idx = self._slice(t.slice, sc, module)
                cur = self._op(t, operator.getitem, base, idx)
                rhs = self.ev(st.value, sc, module)
                self._op(t, operator.setitem, base, idx, self._op(st, op, cur, rhs))
            elif isinstance(t, ast.Attribute):
                base = self.ev(t.value, sc, module)
                cur = self.getattr_(base, t.attr, t)
                rhs = self.ev(st.value, sc, module)
                self.setattr_(base, t.attr, self._op(st, op, cur, rhs), t)
            else:
                raise NotEvaluable("augmented assignment target")
        elif isinstance(st, ast.If):
            self.exec_block(st.body if self._truth(self.ev(st.test, sc, module), st.test) else st.orelse, sc, module)
        elif isinstance(st, ast.For):
            it = self._iter(self.ev(st.iter, sc, module), st.iter)
            broke = False
            while True:
                self._tick()
                ok, item = self._next(it, st.iter)
                if not ok:
                    break
                self._assign(st.target, item, sc, module)
                try:
                    self.exec_block(st.body, sc, module)
                except _Cont:
                    continue
                except _Brk:
                    broke = True
                    break
            if not broke:
                self.exec_block(st.orelse, sc, module)
        elif isinstance(st, ast.While):
            broke = False
            while self._truth(self.ev(st.test, sc, module), st.test):
                self._tick()
                try:
                    self.exec_block(st.body, sc, module)
                except _Cont:
                    continue
                except _Brk:
                    broke = True
                    break
            if not broke:
                self.exec_block(st.orelse, sc, module)
        elif isinstance(st, ast.Return):
            raise _Ret(self.ev(st.value, sc, module) if st.value is not None else None)
        elif isinstance(st, ast.Break):
            raise _Brk()
        elif isinstance(st, ast.Continue):
            raise _Cont()
        elif isinstance(st, ast.Pass):
            pass
        elif isinstance(st, (ast.FunctionDef,)):
            clo = Closure(self, st, sc, module, None, st.name)
            self._bind_defaults(clo, sc)
            if st.decorator_list:
                raise NotEvaluable(f"decorated nested function {st.name}")
            sc.store(st.name, clo)
        elif isinstance(st, ast.Try):
            self._try(st, sc, module)
        elif isinstance(st, ast.Raise):
            if st.exc is None:
                if self._handling:
                    raise self._handling[-1]
                raise ProgramError(RuntimeError("No active exception to re-raise"), st)
            v = self.ev(st.exc, sc, module)
            if isinstance(v, type) and issubclass(v, BaseException):
                v = self.call(v, (), {}, st)
            if not isinstance(v, BaseException):
                raise ProgramError(TypeError("exceptions must derive from BaseException"), st)
            raise ProgramError(v, st)
        elif isinstance(st, ast.Assert):
            if not self._truth(self.ev(st.test, sc, module), st.test):
                raise ProgramError(AssertionError(ast.unparse(st.test)), st)
        elif isinstance(st, ast.Delete):
            for t in st.targets:
                if isinstance(t, ast.Name):
                    fs = sc.function_scope()
                    if t.id not in fs.vars:
                        raise ProgramError(NameError(t.id), t)
                    del fs.vars[t.id]
                elif isinstance(t, ast.Subscript):
                    self._op(t, operator.delitem, self.ev(t.value, sc, module), self._slice(t.slice, sc, module))
                else:
                    raise NotEvaluable("del target")
        elif isinstance(st, ast.With):
            raise NotEvaluable("with statement")
        elif isinstance(st, (ast.Import, ast.ImportFrom)):
            raise NotEvaluable("import inside the fragment")
        elif isinstance(st, (ast.Global, ast.Nonlocal)):
            raise NotEvaluable("global/nonlocal declaration")
        else:
            raise NotEvaluable(f"statement kind {type(st).__name__}")

    def _try(self, st: ast.Try, sc: Scope, module: str) -> None:
        try:
            try:
                self.exec_block(st.body, sc, module)
            except ProgramError as pe:
                for h in st.handlers:
                    if h.type is None:
                        match = True
                    else:
                        tv = self.ev(h.type, sc, module)
                        types = tuple(tv) if isinstance(tv, (tuple, list)) else (tv,)
                        if not all(isinstance(t, type) for t in types):
                            raise NotEvaluable("except clause does not name exception classes")
                        match = isinstance(pe.exc, types)
                    if match:
                        if h.name:
                            sc.store(h.name, pe.exc)
                        self._handling.append(pe)
                        try:
                            self.exec_block(h.body, sc, module)
                        finally:
                            self._handling.pop()
                        break
                else:
                    raise
            else:
                self.exec_block(st.orelse, sc, module)
        finally:
            if st.finalbody:
                self.exec_block(st.finalbody, sc, module)

    def _op(self, node: ast.AST, fn, *a):
        try:
            return fn(*a)
        except _PASS:
            raise
        except RecursionError:
            raise NotEvaluable("recursion too deep")
        except Exception as e:
            raise ProgramError(e, node)

    def _assign(self, t: ast.AST, v: Any, sc: Scope, module: str, comp: bool = False) -> None:
        if isinstance(t, ast.Name):
            if comp:
                sc.vars[t.id] = v
            else:
                sc.store(t.id, v)
        elif isinstance(t, (ast.Tuple, ast.List)):
            it = self._iter(v, t)
            vals = []
            while True:
                ok, x = self._next(it, t)
                if not ok:
                    break
                vals.append(x)
                if len(vals) > 10000:
                    raise NotEvaluable("unpacking an unbounded iterable")
            star = [i for i, e in enumerate(t.elts) if isinstance(e, ast.Starred)]
            if star:
                i = star[0]
                after = len(t.elts) - i - 1
                if len(vals) < len(t.elts) - 1:
                    raise ProgramError(ValueError("not enough values to unpack"), t)
                parts = vals[:i] + [vals[i : len(vals) - after]] + vals[len(vals) - after :]
                for e, x in zip(t.elts, parts):
                    self._assign(e.value if isinstance(e, ast.Starred) else e, x, sc, module, comp)
                return
            if len(vals) != len(t.elts):
                raise ProgramError(ValueError(f"{'too many values' if len(vals) > len(t.elts) else 'not enough values'} to unpack (expected {len(t.elts)}, got {len(vals)})"), t)
            for e, x in zip(t.elts, vals):
                self._assign(e, x, sc, module, comp)
        elif isinstance(t, ast.Subscript):
            base = self.ev(t.value, sc, module)
            self._op(t, operator.setitem, base, self._slice(t.slice, sc, module), v)
        elif isinstance(t, ast.Attribute):
            self.setattr_(self.ev(t.value, sc, module), t.attr, v, t)
        else:
            raise NotEvaluable(f"assignment target {type(t).__name__}")

    # ------------------------------------------------------------------------------------------ expressions
    def _load_name(self, name: str, sc: Scope, module: str, node: ast.AST) -> Any:
        ok, v = sc.lookup(name)
        if ok:
            return v
        return self._global(name, module, node)

    def _slice(self, s: ast.AST, sc: Scope, module: str) -> Any:
        if isinstance(s, ast.Slice):
            return slice(
                self.ev(s.lower, sc, module) if s.lower else None,
                self.ev(s.upper, sc, module) if s.upper else None,
                self.ev(s.step, sc, module) if s.step else None,
            )
        return self.ev(s, sc, module)

    def ev(self, n: ast.AST, sc: Scope, module: Optional[str] = None) -> Any:
        module = module or self.module
        self._tick()
        m = getattr(self, "_e_" + type(n).__name__, None)
        if m is None:
            raise NotEvaluable(f"expression kind {type(n).__name__}: {ast.unparse(n)[:50]}")
        return m(n, sc, module)

    def _e_Constant(self, n, sc, module):
        return n.value

    def _e_Name(self, n, sc, module):
        return self._load_name(n.id, sc, module, n)

    def _e_Tuple(self, n, sc, module):
        return tuple(self._elts(n.elts, sc, module))

    def _e_List(self, n, sc, module):
        return list(self._elts(n.elts, sc, module))

    def _e_Set(self, n, sc, module):
        return self._op(n, set, self._elts(n.elts, sc, module))

    def _elts(self, elts, sc, module) -> List[Any]:
        out: List[Any] = []
        for e in elts:
            if isinstance(e, ast.Starred):
                out.extend(self._op(e, list, self.ev(e.value, sc, module)))
            else:
                out.append(self.ev(e, sc, module))
        return out

    def _e_Dict(self, n, sc, module):
        d: Dict[Any, Any] = {}
        for k, v in zip(n.keys, n.values):
            if k is None:
                self._op(n, d.update, self.ev(v, sc, module))
            else:
                kk = self.ev(k, sc, module)
                self._op(n, d.__setitem__, kk, self.ev(v, sc, module))
        return d

    def _e_BinOp(self, n, sc, module):
        op = _BIN.get(type(n.op))
        if op is None:
            raise NotEvaluable("binary operator")
        a = self.ev(n.left, sc, module)
        b = self.ev(n.right, sc, module)
        return self._op(n, op, a, b)

    def _e_UnaryOp(self, n, sc, module):
        v = self.ev(n.operand, sc, module)
        if isinstance(n.op, ast.Not):
            return not self._truth(v, n)
        if isinstance(n.op, ast.USub):
            return self._op(n, operator.neg, v)
        if isinstance(n.op, ast.UAdd):
            return self._op(n, operator.pos, v)
        if isinstance(n.op, ast.Invert):
            return self._op(n, operator.invert, v)
        raise NotEvaluable("unary operator")

    def _e_BoolOp(self, n, sc, module):
        r = None
        for v in n.values:
            self.cov.add(id(v))
            r = self.ev(v, sc, module)
            t = self._truth(r, v)
            if isinstance(n.op, ast.And) and not t:
                return r
            if isinstance(n.op, ast.Or) and t:
                return r
        return r

    def _e_Compare(self, n, sc, module):
        left = self.ev(n.left, sc, module)
        for op, c in zip(n.ops, n.comparators):
            right = self.ev(c, sc, module)
            f = _CMP.get(type(op))
            r = self._op(n, f, left, right)
            if not self._truth(r, n):
                return r if len(n.ops) == 1 else False
            left = right
        return r if len(n.ops) == 1 else True

    def _e_IfExp(self, n, sc, module):
        arm = n.body if self._truth(self.ev(n.test, sc, module), n.test) else n.orelse
        self.cov.add(id(arm))
        return self.ev(arm, sc, module)

    def _e_Subscript(self, n, sc, module):
        base = self.ev(n.value, sc, module)
        idx = self._slice(n.slice, sc, module)
        if isinstance(base, (Closure, BoundMethod, ClassRef)):
            raise NotEvaluable("subscript of a class/function object")
        return self._op(n, operator.getitem, base, idx)

    def _e_Attribute(self, n, sc, module):
        return self.getattr_(self.ev(n.value, sc, module), n.attr, n)

    def _e_Call(self, n, sc, module):
        f = self.ev(n.func, sc, module)
        args = self._elts(n.args, sc, module)
        kwargs: Dict[str, Any] = {}
        for k in n.keywords:
            if k.arg is None:
                kwargs.update(self._op(n, dict, self.ev(k.value, sc, module)))
            else:
                kwargs[k.arg] = self.ev(k.value, sc, module)
        return self.call(f, args, kwargs, n)

    def _e_Lambda(self, n, sc, module):
        clo = Closure(self, n, sc, module)
        self._bind_defaults(clo, sc)
        return clo

    def _e_JoinedStr(self, n, sc, module):
        out = []
        for v in n.values:
            if isinstance(v, ast.Constant):
                out.append(str(v.value))
            else:
                out.append(self._e_FormattedValue(v, sc, module))
        return "".join(out)

    def _e_FormattedValue(self, n, sc, module):
        val = self.ev(n.value, sc, module)
        spec = self.ev(n.format_spec, sc, module) if n.format_spec is not None else ""
        if n.conversion == ord("r"):
            val = self._op(n, repr, val)
        elif n.conversion == ord("s"):
            val = self._op(n, str, val)
        elif n.conversion == ord("a"):
            val = self._op(n, ascii, val)
        return self._op(n, format, val, spec)

    def _e_NamedExpr(self, n, sc, module):
        v = self.ev(n.value, sc, module)
        if not isinstance(n.target, ast.Name):
            raise NotEvaluable("walrus target")
        sc.store(n.target.id, v)
        return v

    def _e_Yield(self, n, sc, module):
        if not self._yields:
            raise NotEvaluable("yield outside a generator function")
        self._yields[-1].append(self.ev(n.value, sc, module) if n.value is not None else None)
        if len(self._yields[-1]) > 100000:
            raise StepLimit("a generator yields without end")
        return None

    def _e_YieldFrom(self, n, sc, module):
        if not self._yields:
            raise NotEvaluable("yield from outside a generator function")
        it = self._iter(self.ev(n.value, sc, module), n)
        while True:
            self._tick()
            ok, x = self._next(it, n)
            if not ok:
                return None
            self._yields[-1].append(x)

    def _e_Starred(self, n, sc, module):
        raise NotEvaluable("starred expression outside a call/display")

    def _e_Slice(self, n, sc, module):
        return self._slice(n, sc, module)

    # comprehensions: every generator level gets its own scope, conditions are evaluated as the language does
    def _comp(self, gens: List[ast.comprehension], sc: Scope, module: str, first_iter: Optional[Iterator] = None) -> Iterator[Scope]:
        def rec(i: int, cur: Scope) -> Iterator[Scope]:
            if i == len(gens):
                yield cur
                return
            g = gens[i]
            if g.is_async:
                raise NotEvaluable("async comprehension")
            it = first_iter if (i == 0 and first_iter is not None) else self._iter(self.ev(g.iter, cur, module), g.iter)
            while True:
                self._tick()
                ok, item = self._next(it, g.iter)
                if not ok:
                    return
                inner = Scope(cur, comp=True)
                self._assign(g.target, item, inner, module, comp=True)
                if all(self._truth(self.ev(c, inner, module), c) for c in g.ifs):
                    yield from rec(i + 1, inner)

        return rec(0, sc)

    def _e_ListComp(self, n, sc, module):
        return [self.ev(n.elt, s, module) for s in self._comp(n.generators, Scope(sc, comp=True), module)]

    def _e_SetComp(self, n, sc, module):
        out = set()
        for s in self._comp(n.generators, Scope(sc, comp=True), module):
            self._op(n, out.add, self.ev(n.elt, s, module))
        return out

    def _e_DictComp(self, n, sc, module):
        out: Dict[Any, Any] = {}
        for s in self._comp(n.generators, Scope(sc, comp=True), module):
            k = self.ev(n.key, s, module)
            self._op(n, out.__setitem__, k, self.ev(n.value, s, module))
        return out

    def _e_GeneratorExp(self, n, sc, module):
        # the outermost iterable is evaluated at once (as the language does), the rest lazily
        first = self._iter(self.ev(n.generators[0].iter, sc, module), n.generators[0].iter)

        def gen():
            for s in self._comp(n.generators, Scope(sc, comp=True), module, first):
                yield self.ev(n.elt, s, module)

        return gen()


def _walk_own(fn: ast.AST) -> Iterator[ast.AST]:
    """Nodes of a function body without nested function/class definitions and lambdas."""
    stack = list(ast.iter_child_nodes(fn))
    while stack:
        n = stack.pop()
        yield n
        if isinstance(n, (ast.FunctionDef, ast.AsyncFunctionDef, ast.ClassDef, ast.Lambda)):
            continue
        stack.extend(ast.iter_child_nodes(n))


def coverage_gaps(cov: set, fn: ast.AST, limit: int = 3) -> List[str]:
    """Parts of a function that no interpreted run reached: statements, arms of conditional expressions, operands of
    and/or, bodies of nested functions/lambdas.  Empty list = every part was interpreted at least once."""
    gaps: List[str] = []

    def note(n: ast.AST, what: str) -> None:
        if len(gaps) < limit:
            gaps.append(f"line {getattr(n, 'lineno', '?')}: {what} `{ast.unparse(n)[:60].splitlines()[0]}`")

    def block(stmts: Sequence[ast.stmt]) -> None:
        for st in stmts:
            if isinstance(st, ast.Expr) and isinstance(st.value, ast.Constant):
                continue  # docstring
            if isinstance(st, ast.Pass):
                continue
            if id(st) not in cov:
                note(st, "statement never reached")
                continue  # what is inside is unreached too
            if isinstance(st, (ast.FunctionDef, ast.AsyncFunctionDef)):
                if id(st) in cov:  # defined; was it ever called?
                    pass
                inner = st.body
                called = any(id(x) in cov for x in inner)
                if not called:
                    note(st, "nested function never called")
                else:
                    block(inner)
                continue
            for field in ("body", "orelse", "finalbody"):
                sub = getattr(st, field, None)
                if isinstance(sub, list) and sub and isinstance(sub[0], ast.stmt):
                    block(sub)
            for h in getattr(st, "handlers", []) or []:
                block(h.body)
            exprs(st)

    def exprs(st: ast.stmt) -> None:
        stack = [c for c in ast.iter_child_nodes(st) if isinstance(c, ast.expr)]
        while stack:
            e = stack.pop()
            if isinstance(e, ast.IfExp):
                for arm in (e.body, e.orelse):
                    if id(arm) not in cov:
                        note(arm, "arm of a conditional expression never taken")
            elif isinstance(e, ast.BoolOp):
                for v in e.values[1:]:
                    if id(v) not in cov:
                        note(v, "operand of and/or never evaluated")
            elif isinstance(e, ast.Lambda):
                if id(e) not in cov:
                    note(e, "lambda never called")
                    continue
            stack.extend(c for c in ast.iter_child_nodes(e) if isinstance(c, (ast.expr, ast.comprehension, ast.keyword)))

    block(getattr(fn, "body", []))
    return gaps
