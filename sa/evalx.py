"""Fragment evaluation (sa/blockeval.py) extended to fragments that call *local* helpers and methods of their own class.

BlockEvalX   - BlockEval that also reads a nested `def` (the helper becomes a callable that interprets its body with the
               same evaluator, parameters bound, free names read from the enclosing fragment) and expression statements
               that only call rule-supplied stubs.
ClassStub    - an object standing for `self`: attributes given by the rule come first; then constants of the class body
               (folded); then methods / properties / cached properties of the class, whose bodies are *interpreted* from
               the ast with this object as `self` (a cached property is evaluated once).  Names are looked up unmangled,
               exactly as they are written in the class body (`self.__helper()`).
Stub         - a plain attribute bag for the other objects a fragment is handed (residues, atoms, modules).

Nothing of the repository is imported or executed: a callee is interpreted statement by statement by the same
evaluator, or it is a stub supplied by the rule.  Anything outside the supported statements ends the evaluation with
`Unknown` (the rule then reports 'not evaluable', never a verdict).
"""
from __future__ import annotations

import ast
from typing import Any, Callable, Dict, Optional

import copy

from sa.blockeval import BlockEval, Unknown, _Rewrite
from sa.consteval import Folder, NotConst

_PROPERTY = ("property", "cached_property")
_MEMO = ("lru_cache", "cache")
# methods of plain containers that a fragment may call inside an expression (`pool.setdefault(k, {})`, `seen.pop(k, None)`)
_CONTAINER_CALLS = {
    dict: ("setdefault", "get", "pop", "update", "clear", "copy", "keys", "values", "items", "popitem"),
    list: ("append", "extend", "insert", "pop", "remove", "clear", "copy", "index", "count", "sort", "reverse"),
    set: ("add", "discard", "remove", "pop", "clear", "copy", "update", "union", "intersection", "difference", "issubset"),
}
_MISSING = object()
_ITERTOOLS = ("takewhile", "dropwhile", "chain", "islice", "filterfalse", "zip_longest", "pairwise", "compress", "starmap")


def _is_stub(o: Any) -> bool:
    return getattr(o, "_folder_stub", False) is True


class _Yielded:
    """Values a generator function yielded, then (lazily) whatever ended its evaluation."""

    def __init__(self, items, err):
        self.items, self.err = list(items), err

    def __iter__(self):
        for x in self.items:
            yield x
        if self.err is not None:
            raise self.err if isinstance(self.err, Unknown) else Unknown(f"generator stopped by {type(self.err).__name__}: {self.err}")


class FolderX(Folder):
    """Folder + calls of container methods on plain containers reached from the fragment's objects (they change the container
    the analysed code would change), getattr / hasattr / setattr / vars / id on rule-supplied stubs."""

    def child(self, extra):
        f = FolderX(self.repo, self.module, {**self.local, **extra}, self.cls, self.world)
        f._busy = self._busy
        return f

    def _f_Call(self, n):
        f = n.func
        if isinstance(f, ast.Attribute) and isinstance(f.value, ast.Name) and f.value.id not in self.local and not n.keywords and self._module_alias(f.value.id) == "itertools" and f.attr in _ITERTOOLS:
            # pure iterator combinators of the standard library, applied to folded values (lambdas fold to callables)
            import itertools as _it

            args = [self.fold(a) for a in n.args]
            if f.attr == "chain":
                return list(_it.chain(*args))
            return list(getattr(_it, f.attr)(*args))
        if isinstance(f, ast.Attribute) and not n.keywords:
            try:
                recv = self.fold(f.value)
            except NotConst:
                recv = _MISSING
            if recv is not _MISSING:
                for t, names in _CONTAINER_CALLS.items():
                    if type(recv) is t and f.attr in names:
                        r = getattr(recv, f.attr)(*self._elts(n.args))
                        return list(r) if f.attr in ("keys", "values", "items") else r
        if isinstance(f, ast.Name) and f.id not in self.local and not n.keywords:
            # lazy iteration builtins: `next(filter(None, generator()))` must not run the generator further than the first hit
            if f.id == "filter" and len(n.args) == 2:
                pred, it = self.fold(n.args[0]), self.fold(n.args[1])
                return (x for x in it if (pred(x) if pred is not None else x))
            if f.id == "map" and len(n.args) == 2:
                fn_, it = self.fold(n.args[0]), self.fold(n.args[1])
                return (fn_(x) for x in it)
            if f.id == "iter" and len(n.args) == 1:
                return iter(self.fold(n.args[0]))
            if f.id == "next" and len(n.args) in (1, 2):
                it = self.fold(n.args[0])
                if not hasattr(it, "__next__"):
                    it = iter(it)
                try:
                    return next(it)
                except StopIteration:
                    if len(n.args) == 2:
                        return self.fold(n.args[1])
                    raise
            if f.id == "getattr" and len(n.args) in (2, 3):
                o, name = self.fold(n.args[0]), self.fold(n.args[1])
                if _is_stub(o) and isinstance(name, str):
                    try:
                        return getattr(o, name)
                    except AttributeError:
                        if len(n.args) == 3:
                            return self.fold(n.args[2])
                        raise
            if f.id == "hasattr" and len(n.args) == 2:
                o, name = self.fold(n.args[0]), self.fold(n.args[1])
                if _is_stub(o) and isinstance(name, str):
                    try:
                        getattr(o, name)
                        return True
                    except AttributeError:
                        return False
            if f.id == "setattr" and len(n.args) == 3:
                o, name, v = self.fold(n.args[0]), self.fold(n.args[1]), self.fold(n.args[2])
                if _is_stub(o) and isinstance(name, str):
                    set_attribute(o, name, v)
                    return None
            if f.id == "vars" and len(n.args) == 1:
                o = self.fold(n.args[0])
                if _is_stub(o):
                    return instance_dict(o)
            if f.id == "id" and len(n.args) == 1:
                return ("id", id(self.fold(n.args[0])))  # only ever compared with another id of the same evaluation
        return super()._f_Call(n)

    def _f_Compare(self, n):
        if len(n.ops) == 1 and isinstance(n.ops[0], (ast.Eq, ast.NotEq, ast.Lt, ast.LtE, ast.Gt, ast.GtE)):
            # element-wise comparison of a rule-supplied column / array stub gives a mask object, not a truth value
            left, right = self.fold(n.left), self.fold(n.comparators[0])
            if _is_stub(left) or _is_stub(right):
                import operator as _op

                f = {ast.Eq: _op.eq, ast.NotEq: _op.ne, ast.Lt: _op.lt, ast.LtE: _op.le, ast.Gt: _op.gt, ast.GtE: _op.ge}[type(n.ops[0])]
                return f(left, right)
            from sa.consteval import _CMPOPS

            return bool(_CMPOPS[type(n.ops[0])](left, right))
        return super()._f_Compare(n)

    def _f_Attribute(self, n):
        if isinstance(n.value, ast.Name) and n.value.id in self.local and self.local[n.value.id] is None:
            raise AttributeError(f"'NoneType' object has no attribute '{n.attr}'")  # what the analysed code would raise
        if n.attr == "__dict__":
            o = self.fold(n.value)
            if _is_stub(o):
                return instance_dict(o)
        return super()._f_Attribute(n)


def instance_dict(o: Any) -> Dict[str, Any]:
    """what `o.__dict__` is for the analysed code: the attributes the rule gave the stub + those the code stored (one live dict)"""
    if isinstance(o, ClassStub):
        return o.__dict__["_attrs"]
    return o.__dict__


def set_attribute(o: Any, name: str, v: Any) -> None:
    if isinstance(o, ClassStub):
        o.__dict__["_attrs"][name] = v
        o.__dict__["_cache"].pop(name, None)
    else:
        setattr(o, name, v)


class Stub:
    _folder_stub = True

    def __init__(self, _label: str = "stub", **attrs):
        self.__dict__.update(attrs)
        self._label = _label

    def __repr__(self):
        return self._label


class BlockEvalX(BlockEval):
    def __init__(self, repo, module: str, env: Optional[Dict[str, Any]] = None, max_steps: int = 200000, depth: int = 0, module_funcs: bool = True):
        super().__init__(repo, module, env, max_steps)
        self.depth = depth
        self.module_funcs = module_funcs
        if module_funcs:
            # undecorated module-level functions of the analysed module that the rule did not replace by a stub are interpreted
            # like local helpers; their free names are the globals the rule supplied (not the locals of the calling fragment)
            self.globals_env: Dict[str, Any] = dict(env or {}) if depth == 0 else dict((env or {}).get("__globals_env__", {}))
            try:
                funcs = repo.module(module).funcs
            except Exception:
                funcs = {}
            for name, fi in funcs.items():
                if "." in name or name in self.env or fi.node.decorator_list or not isinstance(fi.node, ast.FunctionDef):
                    continue
                self.env[name] = self._module_function(fi.node)

    def fold(self, e: ast.AST) -> Any:
        e2 = ast.fix_missing_locations(_Rewrite().visit(copy.deepcopy(e)))
        f = FolderX(self.repo, self.module, self.env, world=self.world)
        try:
            return f.fold(e2)
        except NotConst as ex:
            raise Unknown(f"`{ast.unparse(e)[:60]}`: {ex}")
        finally:
            for k in getattr(f, "_walrus", ()):
                if k in f.local:
                    self.env[k] = f.local[k]

    def _assign(self, t: ast.AST, v: Any) -> None:
        if isinstance(t, ast.Attribute):
            o = self.fold(t.value)
            if not _is_stub(o):
                raise Unknown(f"assignment target `{ast.unparse(t)[:40]}`")
            set_attribute(o, t.attr, v)
            return
        if isinstance(t, ast.Subscript) and not (isinstance(t.value, ast.Name) and t.value.id in self.env):
            box = self.fold(t.value)
            if type(box) in (dict, list):
                box[self.fold(t.slice)] = v
                return
        super()._assign(t, v)

    def _module_function(self, fn: ast.FunctionDef) -> Callable[..., Any]:
        outer = self
        made: Dict[str, Callable[..., Any]] = {}

        def call(*vals):
            if "f" not in made:
                g = BlockEvalX(outer.repo, outer.module, dict(outer.globals_env), outer.max_steps, 0, True)
                g.depth = outer.depth
                made["f"] = g.make_function(fn)
                made["g"] = g
            made["g"].depth = outer.depth
            return made["f"](*vals)

        call.__name__ = fn.name
        return call

    def make_function(self, fn: ast.FunctionDef, bound_self: Any = None, extra_env: Optional[Dict[str, Any]] = None) -> Callable[..., Any]:
        a = fn.args
        if a.vararg or a.kwarg or a.kwonlyargs or a.posonlyargs:
            raise Unknown(f"signature of helper `{fn.name}`")
        params = [p.arg for p in a.args]
        defaults = dict(zip(params[len(params) - len(a.defaults) :], a.defaults)) if a.defaults else {}
        outer = self
        is_generator = any(isinstance(n, ast.Yield) for n in ast.walk(fn))
        if any(isinstance(n, ast.YieldFrom) for n in ast.walk(fn)):
            raise Unknown(f"`yield from` in `{fn.name}`")

        def call(*vals):
            if outer.depth > 12:
                raise Unknown("helper recursion too deep")
            env = dict(outer.env)
            env.update(extra_env or {})
            ps = list(params)
            if bound_self is not None and ps:
                env[ps[0]] = bound_self
                ps = ps[1:]
            if len(vals) > len(ps):
                raise TypeError(f"{fn.name}() takes {len(ps)} positional arguments but {len(vals)} were given")
            if outer.module_funcs:
                env["__globals_env__"] = outer.globals_env
            sub = BlockEvalX(outer.repo, outer.module, env, outer.max_steps, outer.depth + 1, outer.module_funcs)
            for p, v in zip(ps, vals):
                sub.env[p] = v
            for p in ps[len(vals) :]:
                if p not in defaults:
                    raise TypeError(f"{fn.name}() missing argument {p}")
                sub.env[p] = sub.fold(defaults[p])
            body = [s for s in fn.body if not (isinstance(s, ast.Expr) and isinstance(s.value, ast.Constant))]
            if is_generator:
                # a generator function: its body is run to the end (or to the first construct outside the evaluator) and the yielded values are
                # handed out in order; what stopped the run is raised only when the consumer asks beyond the values yielded before it - exactly
                # what a lazy generator does, as long as the expressions it evaluates have no effects the consumer could see
                sub.env["__yielded__"] = []
                err: Optional[BaseException] = None
                try:
                    sub.run(body)
                except Exception as ex:  # noqa: BLE001 - deferred, see above
                    err = ex
                outer.steps += sub.steps
                return _Yielded(sub.env["__yielded__"], err)
            kind, val = sub.run(body)
            outer.steps += sub.steps
            if outer.steps > outer.max_steps:
                raise Unknown("too many steps")
            if kind in ("continue", "break"):
                raise Unknown(f"`{kind}` outside a loop in helper `{fn.name}`")
            return val if kind == "return" else None

        call.__name__ = fn.name
        return call

    def _stmt(self, st: ast.stmt) -> None:
        if isinstance(st, ast.Expr) and isinstance(st.value, ast.Yield) and "__yielded__" in self.env:
            self.env["__yielded__"].append(self.fold(st.value.value) if st.value.value is not None else None)
            return
        if isinstance(st, ast.FunctionDef):
            if st.decorator_list:
                raise Unknown(f"decorated local helper `{st.name}`")
            self.env[st.name] = self.make_function(st)
            return
        if isinstance(st, ast.Expr) and isinstance(st.value, ast.Call):
            c = st.value
            root = c.func
            while isinstance(root, (ast.Attribute, ast.Subscript)):
                root = root.value
            if isinstance(c.func, ast.Name) and callable(self.env.get(c.func.id)) and c.func.id not in ("print",):
                self.fold(c)
                return
            if isinstance(c.func, ast.Attribute) and isinstance(root, ast.Name) and getattr(self.env.get(root.id), "_folder_stub", False):
                self.fold(c)
                return
            if isinstance(c.func, ast.Attribute):
                try:
                    recv = self.fold(c.func.value)
                except Unknown:
                    recv = None
                if any(type(recv) is t and c.func.attr in names for t, names in _CONTAINER_CALLS.items()):
                    self.fold(c)
                    return
        if isinstance(st, ast.Delete) and all(isinstance(t, ast.Subscript) for t in st.targets):
            for t in st.targets:
                box = self.fold(t.value)
                if type(box) not in (dict, list):
                    raise Unknown(f"statement `{ast.unparse(st)[:50]}`")
                del box[self.fold(t.slice)]
            return
        if isinstance(st, (ast.Assert,)):
            if not self.fold(st.test):
                raise AssertionError(ast.unparse(st.test)[:60])
            return
        super()._stmt(st)


class ClassStub:
    """`self` of a class of the analysed source; see the module docstring."""

    _folder_stub = True

    def __init__(self, repo, module: str, cls: str, attrs: Optional[Dict[str, Any]] = None, globals_: Optional[Dict[str, Any]] = None, label: Optional[str] = None):
        d = self.__dict__
        d["_repo"], d["_module"], d["_cls"] = repo, module, cls
        d["_attrs"] = dict(attrs or {})
        d["_globals"] = dict(globals_ or {})
        d["_cache"] = {}
        d["_busy"] = set()
        d["_label"] = label or f"<{cls}>"
        d["_node"] = repo.cls(module, cls)
        d["_methods"] = {}
        for b in d["_node"].body:
            if isinstance(b, ast.FunctionDef):
                # a later definition of the same name (property setter) does not replace the getter
                if b.name in d["_methods"] and any("setter" in ast.unparse(x) for x in b.decorator_list):
                    continue
                d["_methods"][b.name] = b

    def __repr__(self):
        return self._label

    def _evaluator(self) -> BlockEvalX:
        env = dict(self._globals)
        env["self"] = self
        return BlockEvalX(self._repo, self._module, env)

    def __getattr__(self, name: str):
        d = self.__dict__
        if name.startswith("__") and name.endswith("__"):
            raise AttributeError(name)
        if name in d["_attrs"]:
            return d["_attrs"][name]
        if name in d["_cache"]:
            return d["_cache"][name]
        fn = d["_methods"].get(name)
        if fn is not None:
            decos = [ast.unparse(x.func if isinstance(x, ast.Call) else x).split(".")[-1] for x in fn.decorator_list]
            if any(x in _PROPERTY for x in decos):
                if name in d["_busy"]:
                    raise Unknown(f"property `{name}` depends on itself")
                d["_busy"].add(name)
                try:
                    val = self._evaluator().make_function(fn, bound_self=self)()
                finally:
                    d["_busy"].discard(name)
                if "cached_property" in decos:
                    d["_attrs"][name] = val  # functools.cached_property stores the value in the instance dict under the property's name
                return val
            if decos and all(x in _MEMO for x in decos):
                plain = self._evaluator().make_function(fn, bound_self=self)
                memo = d.setdefault("_memo", {}).setdefault(name, {})

                def memoised(*vals):
                    try:
                        hash(vals)
                    except TypeError:
                        raise Unknown(f"unhashable argument of the memoised method `{name}`")
                    if vals not in memo:
                        memo[vals] = plain(*vals)
                    return memo[vals]

                return memoised
            if [x for x in decos if x not in ("staticmethod",)]:
                raise Unknown(f"method `{name}` is decorated with {decos}")
            if "staticmethod" in decos:
                return self._evaluator().make_function(fn)
            return self._evaluator().make_function(fn, bound_self=self)
        # constant of the class body
        try:
            expr = d["_repo"].class_attr_expr(d["_module"], d["_cls"], name)
        except Exception:
            raise AttributeError(name)
        from sa.consteval import Folder, NotConst

        try:
            val = Folder(d["_repo"], d["_module"], cls=d["_cls"]).fold(expr)
        except NotConst as ex:
            raise Unknown(f"class attribute `{name}` does not fold: {ex}")
        d["_cache"][name] = val
        return val
