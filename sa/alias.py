"""In-place numpy operations on an array the code did not create.

`x += y`, `x -= y`, `x *= y`, `x /= y`, `x[...] = v`, `numpy.add(a, b, out=x)`, `x.fill(v)`, `x.sort()` ... on a numpy
array change the array object itself.  When `x` was not created by the function but *obtained* - the value of a record
field, of a `cached_property` (one array kept per object for the rest of its life), of an attribute set in `__init__`,
a slice / view of such a value, or an array parameter - the write lands in the owner's data: every later reader of that
field sees the modified numbers (a running sum started with `centroid = atoms[0].coordinates` corrupts the coordinates
of that atom for good).

Facts computed from the source (no names or shapes pinned):
    array attributes   attribute names that hold an array for the life of an object: annotated fields / properties /
                       cached properties whose annotation names ndarray / NDArray or whose body returns numpy.array(...)
                       etc.; a plain `property` that builds a fresh array on every access is NOT one of them
    origin of a name   per function, in statement order: 'borrowed' (with the expression it was taken from) for
                       `obj.<array attribute>`, subscripts / views of a borrowed value, aliases of a borrowed name, array
                       parameters; 'fresh' for the result of arithmetic, of a call (numpy.array, numpy.mean, .copy() ...)
    write              augmented assignment to a borrowed name, subscript store into it, out=<borrowed>, an in-place method

A finding is (FuncInfo, node, name, where the value came from, attribute or 'parameter', operation text).  The rule never
fires on a name whose origin is not known to be a borrowed array (it abstains).
"""
from __future__ import annotations

import ast
from typing import Any, Dict, List, Optional, Set, Tuple

from .model import FuncInfo, Repo, norm

_ARRAY_WORDS = ("ndarray", "NDArray", "ArrayLike")
_FRAME_WORDS = ("DataFrame", "Series")
# accessors of a pandas object whose result may share memory with it (a float column's to_numpy() is a view of the block)
_FRAME_ARRAY_CALLS = ("to_numpy", "to_records", "view")
_FRAME_ARRAY_ATTRS = ("values", "array")
_FRAME_VIEW_ATTRS = ("loc", "iloc", "at", "iat", "T")
_MAKERS = ("array", "asarray", "zeros", "ones", "empty", "cross", "mean", "sum", "dot", "stack", "vstack", "hstack", "concatenate", "linspace", "arange", "full")
# calls whose result may share memory with their (first) argument
_VIEWS = ("asarray", "asanyarray", "ascontiguousarray", "atleast_1d", "atleast_2d", "squeeze", "ravel", "reshape", "view", "transpose", "swapaxes", "flatten_view")
_VIEW_ATTRS = ("T", "real", "flat")
_INPLACE_METHODS = ("fill", "sort", "put", "itemset", "resize", "partition", "setfield", "byteswap")
_INPLACE_FUNCS = ("copyto", "put", "place", "putmask", "fill_diagonal")


def _mentions_array(ann: Optional[ast.AST]) -> bool:
    return ann is not None and any(w in ast.unparse(ann) for w in _ARRAY_WORDS)


def _is_maker_call(e: ast.AST) -> bool:
    if not isinstance(e, ast.Call):
        return False
    f = e.func
    return isinstance(f, ast.Attribute) and f.attr in _MAKERS and isinstance(f.value, ast.Name) and f.value.id in ("np", "numpy")


def array_attributes(repo: Repo) -> Dict[str, List[str]]:
    """attribute name -> ['Class.attr (how)'] for attributes that keep one array per object"""
    out: Dict[str, List[str]] = {}
    for mname, mod in repo.modules.items():
        for cname, c in mod.classes.items():
            for b in c.body:
                if isinstance(b, ast.AnnAssign) and isinstance(b.target, ast.Name) and _mentions_array(b.annotation):
                    out.setdefault(b.target.id, []).append(f"{mname}.{cname}.{b.target.id} (field)")
                if isinstance(b, ast.FunctionDef):
                    decos = [ast.unparse(d.func if isinstance(d, ast.Call) else d).split(".")[-1] for d in b.decorator_list]
                    rets = [r.value for r in ast.walk(b) if isinstance(r, ast.Return) and r.value is not None]
                    arrayish = _mentions_array(b.returns) or any(_is_maker_call(r) for r in rets)
                    if "cached_property" in decos and arrayish:
                        out.setdefault(b.name, []).append(f"{mname}.{cname}.{b.name} (cached_property: one array per object)")
                    elif "property" in decos and arrayish and rets and all(isinstance(r, ast.Attribute) for r in rets):
                        out.setdefault(b.name, []).append(f"{mname}.{cname}.{b.name} (property returning a stored array)")
                    elif b.name == "__init__":
                        for st in ast.walk(b):
                            if isinstance(st, ast.Assign) and len(st.targets) == 1 and isinstance(st.targets[0], ast.Attribute) and isinstance(st.targets[0].value, ast.Name) and st.targets[0].value.id == "self" and _is_maker_call(st.value):
                                out.setdefault(st.targets[0].attr, []).append(f"{mname}.{cname}.{st.targets[0].attr} (set in __init__)")
    return out


class _Origins:
    def __init__(self, fi: FuncInfo, attrs: Dict[str, List[str]]):
        self.fi, self.attrs = fi, attrs
        self.origin: Dict[str, Tuple[str, str, str]] = {}  # name -> (source text, attribute name | 'parameter', 'array' | 'container' of such arrays)
        a = fi.node.args
        for p in a.posonlyargs + a.args + a.kwonlyargs:
            if _mentions_array(p.annotation):
                self.origin[p.arg] = (f"the array parameter `{p.arg}`", "parameter", "array")
            elif p.annotation is not None and any(w in ast.unparse(p.annotation) for w in _FRAME_WORDS):
                self.origin[p.arg] = (f"the DataFrame / Series parameter `{p.arg}`", "parameter", "frame")
        self.found: List[Tuple[ast.AST, str, str, str, str]] = []
        self.returned = {r.value.id for r in ast.walk(fi.node) if isinstance(r, ast.Return) and isinstance(r.value, ast.Name)}

    def classify(self, e: Optional[ast.AST]) -> Optional[Tuple[str, str, str]]:
        if e is None:
            return None
        if isinstance(e, ast.Name):
            return self.origin.get(e.id)
        if isinstance(e, ast.Attribute):
            if e.attr in self.attrs:
                return (norm(e), e.attr, "array")
            if e.attr in _FRAME_ARRAY_ATTRS or e.attr in _FRAME_VIEW_ATTRS:
                o = self.classify(e.value)
                if o is not None and o[2] == "frame":
                    return (f"{norm(e)} (shares memory with {o[0]})", o[1], "array" if e.attr in _FRAME_ARRAY_ATTRS else "frame")
            if e.attr in _VIEW_ATTRS:
                return self.classify(e.value)
            return None
        if isinstance(e, ast.Subscript):
            o = self.classify(e.value)
            if o is None:
                return None
            if o[2] == "frame":
                return (f"{norm(e)} (a column / selection of {o[0]})", o[1], "frame")
            if o[2] == "container" and not isinstance(e.slice, ast.Slice):
                return (f"{norm(e)} (an element of {o[0]})", o[1], "array")  # an element of a list of borrowed arrays is that array
            return o  # basic indexing of an array gives a view; a slice of a container is a container of the same arrays
        if isinstance(e, (ast.List, ast.Tuple)):
            for x in e.elts:
                o = self.classify(x)
                if o is not None and o[2] == "array":
                    return (f"[.. {o[0]} ..]", o[1], "container")
            return None
        if isinstance(e, (ast.ListComp, ast.GeneratorExp)):
            o = self.classify(e.elt)
            if o is not None and o[2] == "array":
                return (f"[{o[0]} for ...]", o[1], "container")
            return None
        if isinstance(e, ast.IfExp):
            return self.classify(e.body) or self.classify(e.orelse)
        if isinstance(e, ast.NamedExpr):
            return self.classify(e.value)
        if isinstance(e, ast.Call):
            f = e.func
            if isinstance(f, ast.Attribute) and f.attr in _FRAME_ARRAY_CALLS:
                o = self.classify(f.value)
                copies = any(k.arg == "copy" and isinstance(k.value, ast.Constant) and k.value.value is True for k in e.keywords)
                if o is not None and o[2] == "frame" and not copies:
                    return (f"{norm(e)[:60]} (for a numeric column a view of the data of {o[0]}, not a copy)", o[1], "array")
            if isinstance(f, ast.Attribute) and f.attr in _VIEWS and isinstance(f.value, ast.Name) and f.value.id in ("np", "numpy") and e.args:
                o = self.classify(e.args[0])
                if o is not None and o[2] == "frame":
                    return (f"{norm(e)[:60]} (shares memory with {o[0]})", o[1], "array")
            if isinstance(f, ast.Attribute) and f.attr in _VIEWS:
                if isinstance(f.value, ast.Name) and f.value.id in ("np", "numpy"):
                    return self.classify(e.args[0]) if e.args else None
                return self.classify(f.value)
            return None  # arithmetic helpers, constructors, .copy(): a new array
        return None

    def write(self, node: ast.AST, target: ast.AST, op: str) -> None:
        base = target
        while isinstance(base, ast.Subscript):
            base = base.value
        if isinstance(target, ast.Attribute):
            # the kept array named directly: numpy.mean(xs, out=atom.coordinates), atom.coordinates += v
            o = self.classify(target)
            if o is not None and o[2] == "array":
                self.found.append((node, norm(target), o[0], o[1], op))
            return
        if isinstance(target, ast.Name) or (isinstance(target, ast.Subscript) and isinstance(base, (ast.Name, ast.Attribute))):
            if isinstance(target, ast.Name):
                o = self.origin.get(target.id)
                shown = target
            else:
                # x[i] op= v / x[i] = v : the object written is x (an array) - or the element x[i] when x is a container and the write is in place
                o = self.classify(base)
                shown = base
                if o is not None and o[2] == "container":
                    inner = target
                    while isinstance(inner.value, ast.Subscript):
                        inner = inner.value
                    o = self.classify(inner) if (isinstance(node, ast.AugAssign) or inner is not target) else None
                    shown = inner
            if o is not None and (o[2] == "array" or (o[2] == "frame" and o[1] != "own-result" and not isinstance(target, ast.Name))):
                self.found.append((node, norm(shown), o[0], o[1], op))

    def visit(self, stmts: List[ast.stmt]) -> None:
        for st in stmts:
            if isinstance(st, (ast.FunctionDef, ast.AsyncFunctionDef, ast.ClassDef)):
                continue
            # calls with out= / in-place methods anywhere in the statement
            for n in ast.walk(st):
                if isinstance(n, ast.Call):
                    for k in n.keywords:
                        if k.arg == "out":
                            for t in (k.value.elts if isinstance(k.value, ast.Tuple) else [k.value]):
                                self.write(n, t, f"`{norm(n)[:60]}` writes its result into")
                    f = n.func
                    if isinstance(f, ast.Attribute) and f.attr in _INPLACE_METHODS and isinstance(f.value, (ast.Name, ast.Subscript)):
                        self.write(n, f.value, f"`{norm(n)[:60]}` changes in place")
                    if isinstance(f, ast.Attribute) and f.attr in _INPLACE_FUNCS and isinstance(f.value, ast.Name) and f.value.id in ("np", "numpy") and n.args:
                        self.write(n, n.args[0], f"`{norm(n)[:60]}` changes in place")
            if isinstance(st, ast.AugAssign):
                if isinstance(st.target, (ast.Name, ast.Subscript, ast.Attribute)):
                    self.write(st, st.target, f"`{norm(st)[:60]}` is an in-place operation on")
            elif isinstance(st, ast.Assign):
                for t in st.targets:
                    if isinstance(t, ast.Subscript):
                        self.write(st, t, f"`{norm(st)[:60]}` stores into")
                    elif isinstance(t, ast.Name):
                        o = self.classify(st.value)
                        if o is None and t.id in self.returned and isinstance(st.value, ast.Call) and isinstance(st.value.func, ast.Attribute) and st.value.func.attr in _FRAME_WORDS:
                            # the table this function builds and returns: filling it is its job, but an array that shares its memory is still the result
                            o = (f"the table `{t.id}` this function builds and returns", "own-result", "frame")
                        if o is not None:
                            self.origin[t.id] = o
                        else:
                            self.origin.pop(t.id, None)
                    elif isinstance(t, (ast.Tuple, ast.List)) and isinstance(st.value, (ast.Tuple, ast.List)) and len(t.elts) == len(st.value.elts):
                        for a, b in zip(t.elts, st.value.elts):
                            if isinstance(a, ast.Name):
                                o = self.classify(b)
                                if o is not None:
                                    self.origin[a.id] = o
                                else:
                                    self.origin.pop(a.id, None)
                    elif isinstance(t, (ast.Tuple, ast.List)):
                        for a in t.elts:
                            if isinstance(a, ast.Name):
                                self.origin.pop(a.id, None)
            elif isinstance(st, ast.AnnAssign) and isinstance(st.target, ast.Name) and st.value is not None:
                o = self.classify(st.value)
                if o is not None:
                    self.origin[st.target.id] = o
                else:
                    self.origin.pop(st.target.id, None)
            elif isinstance(st, (ast.For, ast.AsyncFor)):
                # the loop variable of an iteration over array-valued attributes is not tracked (an element of a fresh list is unknown)
                for n in ast.walk(st.target):
                    if isinstance(n, ast.Name):
                        self.origin.pop(n.id, None)
                it = self.classify(st.iter)
                if it is not None and it[2] == "container" and isinstance(st.target, ast.Name):
                    self.origin[st.target.id] = (f"an element of {it[0]}", it[1], "array")
                before = dict(self.origin)
                self.visit(st.body)
                self.visit(st.orelse)
                for k, v in before.items():  # a name borrowed before the loop and only sometimes rebound inside stays suspect
                    self.origin.setdefault(k, v)
            elif isinstance(st, ast.While):
                before = dict(self.origin)
                self.visit(st.body)
                self.visit(st.orelse)
                for k, v in before.items():
                    self.origin.setdefault(k, v)
            elif isinstance(st, ast.If):
                before = dict(self.origin)
                self.visit(st.body)
                after_body = self.origin
                self.origin = dict(before)
                self.visit(st.orelse)
                for k, v in after_body.items():  # borrowed on either path
                    self.origin.setdefault(k, v)
            elif isinstance(st, (ast.With, ast.AsyncWith)):
                self.visit(st.body)
            elif isinstance(st, ast.Try):
                self.visit(st.body)
                for h in st.handlers:
                    self.visit(h.body)
                self.visit(st.orelse)
                self.visit(st.finalbody)


def findings(repo: Repo) -> Tuple[List[Tuple[FuncInfo, ast.AST, str, str, str, str]], Dict[str, List[str]], int]:
    """([(function, node, written name, where its value came from, attribute | 'parameter', operation text)], array attributes, functions read)"""
    attrs = array_attributes(repo)
    out = []
    n = 0
    for fi in repo.all_funcs():
        if not isinstance(fi.node, (ast.FunctionDef, ast.AsyncFunctionDef)):
            continue
        n += 1
        o = _Origins(fi, attrs)
        o.visit(list(fi.node.body))
        for node, name, src, attr, op in o.found:
            out.append((fi, node, name, src, attr, op))
    return out, attrs, n
