"""A2: constant folding of literal expressions in the source.

Evaluates *literals and pure stdlib builtins only* (closed whitelist); it never calls a
function defined in the repository.  Unknown constructs raise NotConst.
"""
from __future__ import annotations

import ast
import math
import operator
import string
from typing import Any, Callable, Dict, Optional

from .model import Repo


class NotConst(Exception):
    pass


_BINOPS = {
    ast.Add: operator.add,
    ast.Sub: operator.sub,
    ast.Mult: operator.mul,
    ast.Div: operator.truediv,
    ast.FloorDiv: operator.floordiv,
    ast.Mod: operator.mod,
    ast.Pow: operator.pow,
    ast.BitOr: operator.or_,
    ast.BitAnd: operator.and_,
}
_CMPOPS = {
    ast.Eq: operator.eq,
    ast.NotEq: operator.ne,
    ast.Lt: operator.lt,
    ast.LtE: operator.le,
    ast.Gt: operator.gt,
    ast.GtE: operator.ge,
    ast.In: lambda a, b: a in b,
    ast.NotIn: lambda a, b: a not in b,
    ast.Is: operator.is_,
    ast.IsNot: operator.is_not,
}
_MODULE_ATTRS = {
    ("string", "ascii_uppercase"): string.ascii_uppercase,
    ("string", "ascii_lowercase"): string.ascii_lowercase,
    ("string", "ascii_letters"): string.ascii_letters,
    ("string", "digits"): string.digits,
    ("string", "printable"): string.printable,
    ("string", "whitespace"): string.whitespace,
    ("string", "punctuation"): string.punctuation,
    ("math", "pi"): math.pi,
    ("math", "nan"): math.nan,
    ("math", "inf"): math.inf,
}
_BUILTINS: Dict[str, Callable[..., Any]] = {
    "len": len,
    "zip": lambda *a: list(zip(*a)),
    "range": lambda *a: list(range(*a)),
    "max": max,
    "min": min,
    "sorted": sorted,
    "set": set,
    "frozenset": frozenset,
    "dict": dict,
    "list": list,
    "tuple": tuple,
    "sum": sum,
    "abs": abs,
    "float": float,
    "int": int,
    "str": str,
    "bool": bool,
    "reversed": lambda x: list(reversed(x)),
    "enumerate": lambda *a: list(enumerate(*a)),
    "next": lambda it, *d: _next(it, *d),
    "filter": lambda f, it: [x for x in it if (f(x) if f is not None else x)],
    "map": lambda f, *its: [f(*xs) for xs in zip(*its)],
    "any": any,
    "all": all,
    "round": round,
}


def _apply_mutations(repo, module, name, val, muts):
    """Module-level statements that keep building a constant after its first binding (NAME.update(...), NAME[k] = v, NAME += ...)."""
    import copy as _copy

    val = _copy.deepcopy(val)
    for st in muts:
        f = Folder(repo, module, {name: val})
        if isinstance(st, ast.Assign):
            t = st.targets[0]
            val[f.fold(t.slice)] = f.fold(st.value)
        elif isinstance(st, ast.AugAssign):
            if not isinstance(st.op, ast.Add):
                raise NotConst(f"module-level {ast.unparse(st)[:40]}")
            val = val + f.fold(st.value)
        else:
            call = st.value
            meth = call.func.attr
            args = [f.fold(a) for a in call.args]
            if call.keywords or not hasattr(val, meth):
                raise NotConst(f"module-level {ast.unparse(st)[:40]}")
            getattr(val, meth)(*args)
    return val


def _next(it, *default):
    seq = list(it)
    if seq:
        return seq[0]
    if default:
        return default[0]
    raise NotConst("next() of an empty iterable (StopIteration)")
def _copy_containers(v, deep: bool, _memo=None):
    """copy.copy / copy.deepcopy over the plain containers of folded values (list, dict, set, tuple); leaves - numbers, strings,
    rule-supplied stubs (Enum members, records are immutable) - are shared, which no evaluated code can observe."""
    _memo = {} if _memo is None else _memo
    if id(v) in _memo:
        return _memo[id(v)]
    rec = (lambda x: _copy_containers(x, True, _memo)) if deep else (lambda x: x)
    if getattr(v, "_folder_stub", False):
        if deep and isinstance(v, tuple) and any(isinstance(x, (list, dict, set)) or (isinstance(x, tuple) and x is not v and getattr(x, "_folder_stub", False) and any(isinstance(y, (list, dict, set)) for y in x)) for x in v):
            raise NotConst(f"deep copy of a {type(v).__name__} that holds containers")
        return v
    if isinstance(v, list):
        out = []
        _memo[id(v)] = out
        out.extend(rec(x) for x in v)
        return out
    if isinstance(v, dict) and type(v) is dict:
        out = {}
        _memo[id(v)] = out
        for k, x in v.items():
            out[k] = rec(x)
        return out
    if isinstance(v, set):
        return set(v)
    if type(v) is tuple:
        return tuple(rec(x) for x in v) if deep else v
    if isinstance(v, (str, int, float, bool, frozenset, type(None))):
        return v
    raise NotConst(f"copy of a {type(v).__name__}")


_METHODS = {
    (str, "join"),
    (str, "upper"),
    (str, "lower"),
    (str, "strip"),
    (str, "split"),
    (str, "replace"),
    (str, "ljust"),
    (str, "rjust"),
    (str, "format"),
    (str, "startswith"),
    (str, "isdigit"),
    (str, "isalpha"),
    (str, "isspace"),
    (str, "rstrip"),
    (str, "lstrip"),
    (str, "endswith"),
    (str, "swapcase"),
    (str, "capitalize"),
    (str, "title"),
    (str, "casefold"),
    (str, "isupper"),
    (str, "islower"),
    (str, "isalnum"),
    (str, "rsplit"),
    (str, "partition"),
    (str, "rpartition"),
    (str, "splitlines"),
    (str, "find"),
    (str, "count"),
    (str, "zfill"),
    (str, "removeprefix"),
    (str, "removesuffix"),
    (dict, "keys"),
    (dict, "values"),
    (dict, "items"),
    (dict, "get"),
    (dict, "copy"),  # shallow, like the language: the values are shared with the original (sa/procstate.py decides what that means across calls)
    (list, "copy"),
    (set, "copy"),
    (list, "index"),
    (list, "count"),
    (tuple, "index"),
    (set, "union"),
    (set, "intersection"),
    (set, "difference"),
    (set, "issubset"),
}
_MODULE_FUNCS = {
    ("math", "isnan"): math.isnan,
    ("itertools", "combinations"): lambda it, r: list(__import__("itertools").combinations(it, r)),
    ("itertools", "product"): lambda *a: list(__import__("itertools").product(*a)),
    ("itertools", "combinations_with_replacement"): lambda it, r: list(__import__("itertools").combinations_with_replacement(it, r)),
    ("math", "isclose"): math.isclose,
    ("math", "radians"): math.radians,
    ("math", "degrees"): math.degrees,
    ("math", "sqrt"): math.sqrt,
    ("math", "cos"): math.cos,
    ("math", "sin"): math.sin,
    ("math", "tan"): math.tan,
    ("math", "acos"): math.acos,
    ("math", "asin"): math.asin,
    ("math", "atan"): math.atan,
    # builtin class methods that build plain values (insertion-ordered de-duplication etc.)
    ("copy", "copy"): lambda v: _copy_containers(v, False),
    ("copy", "deepcopy"): lambda v: _copy_containers(v, True),
    ("dict", "fromkeys"): lambda it, v=None: dict.fromkeys(list(it), v),
    ("str", "join"): lambda sep, it: sep.join(list(it)),
}


class Folder:
    """Folds expressions in the scope of one module (module constants visible, imports followed)."""

    def __init__(self, repo: Repo, module: str, local: Optional[Dict[str, Any]] = None, cls: Optional[str] = None, world: Optional[Dict[str, Any]] = None):
        """`world` (optional): rule-supplied abstract objects that stand for *global* names - stubs for Enum classes, constructors,
        module functions.  Unlike `local` (the scope of the fragment being folded) they stay visible while a module-level constant
        that the fragment refers to is folded, so a table such as `{"s33": StackingTopology.downward}` or
        `{f(m.name): m for m in LeontisWesthof}` is built in the same abstract world as the function body that reads it."""
        self.repo = repo
        self.module = module
        self.world = dict(world or {})
        self.local = {**self.world, **(local or {})}
        self.cls = cls
        self._busy = set()

    def child(self, extra: Dict[str, Any]) -> "Folder":
        f = Folder(self.repo, self.module, {**self.local, **extra}, self.cls, self.world)
        f._busy = self._busy
        return f

    def fold(self, node: ast.AST) -> Any:
        m = getattr(self, "_f_" + type(node).__name__, None)
        if m is None:
            raise NotConst(f"unsupported node {type(node).__name__}: {ast.unparse(node)[:60]}")
        return m(node)

    def try_fold(self, node: ast.AST, default: Any = None) -> Any:
        try:
            return self.fold(node)
        except NotConst:
            return default
        except Exception:
            return default

    # --- leaves ---------------------------------------------------------
    def _f_Constant(self, n):
        return n.value

    def _f_Name(self, n):
        if n.id in self.local:
            return self.local[n.id]
        if n.id in ("True", "False", "None"):
            return {"True": True, "False": False, "None": None}[n.id]
        key = (self.module, n.id)
        if key in self._busy:
            raise NotConst(f"recursive constant {n.id}")
        try:
            home_mod, home_name = self.repo.const_home(self.module, n.id)
            mod = self.repo.module(home_mod)
            if home_name not in mod.consts:
                raise NotConst(f"{n.id} is not a constant")
            expr = mod.consts[home_name]
        except NotConst:
            if n.id in ("int", "float", "str", "len", "bool", "abs", "list", "dict", "set", "tuple", "frozenset"):
                return _BUILTINS[n.id]
            raise
        except Exception:
            if n.id in ("int", "float", "str", "len", "bool", "abs", "list", "dict", "set", "tuple", "frozenset"):
                return _BUILTINS[n.id]
            raise NotConst(f"unknown name {n.id}")
        self._busy.add(key)
        try:
            sub = Folder(self.repo, home_mod, world=self.world)
            sub._busy = self._busy
            val = sub.fold(expr)
            muts = getattr(mod, "mutations", {}).get(home_name, [])
            if muts:
                val = _apply_mutations(self.repo, home_mod, home_name, val, muts)
            return val
        finally:
            self._busy.discard(key)

    def _f_Attribute(self, n):
        # attribute of a local abstract object supplied by the rule (e.g. a pseudo Enum member with .radius)
        if isinstance(n.value, ast.Name) and n.value.id in self.local and hasattr(self.local[n.value.id], n.attr) and (not isinstance(self.local[n.value.id], (str, int, float, list, dict, tuple, set)) or getattr(self.local[n.value.id], "_folder_stub", False)):
            return getattr(self.local[n.value.id], n.attr)
        if not isinstance(n.value, ast.Name):
            try:
                base = self.fold(n.value)
            except NotConst:
                raise
            if hasattr(base, "__dict__") and n.attr in vars(base):
                return getattr(base, n.attr)
            if getattr(base, "_folder_stub", False) and hasattr(base, n.attr):  # property of a rule-supplied stub (Enum member .name / .value)
                return getattr(base, n.attr)
            raise NotConst(f"attribute {ast.unparse(n)}")
        if isinstance(n.value, ast.Name) and n.value.id in self.local and any(isinstance(self.local[n.value.id], t) and name == n.attr for t, name in _METHODS):
            # a pure method of a local plain container, not called here (`min(d, key=d.get)`): the bound method
            return getattr(self.local[n.value.id], n.attr)
        if isinstance(n.value, ast.Name):
            k = (n.value.id, n.attr)
            mod = self.repo.module(self.module)
            # module alias (import numpy as np) is not folded
            imp = mod.imports.get(n.value.id)
            base = imp[0] if imp and imp[1] is None else n.value.id
            if (base, n.attr) in _MODULE_ATTRS:
                return _MODULE_ATTRS[(base, n.attr)]
            # Class attribute constants: Residue3D.nucleobase_heavy_atoms / self.xxx in class scope
            cls = None
            if n.value.id == "self" and self.cls:
                cls = (self.module, self.cls)
            else:
                try:
                    hm, hn = self.repo.const_home(self.module, n.value.id)
                    if hn in self.repo.module(hm).classes:
                        cls = (hm, hn)
                except Exception:
                    cls = None
            if cls:
                try:
                    expr = self.repo.class_attr_expr(cls[0], cls[1], n.attr)
                except Exception:
                    raise NotConst(f"no class attribute {ast.unparse(n)}")
                return Folder(self.repo, cls[0], cls=cls[1], world=self.world).fold(expr)
        raise NotConst(f"attribute {ast.unparse(n)}")

    # --- containers -----------------------------------------------------
    def _f_Tuple(self, n):
        return tuple(self._elts(n.elts))

    def _f_List(self, n):
        return list(self._elts(n.elts))

    def _f_Set(self, n):
        return set(self._elts(n.elts))

    def _elts(self, elts):
        out = []
        for e in elts:
            if isinstance(e, ast.Starred):
                out.extend(self.fold(e.value))
            else:
                out.append(self.fold(e))
        return out

    def _f_Dict(self, n):
        d = {}
        for k, v in zip(n.keys, n.values):
            if k is None:
                d.update(self.fold(v))
            else:
                d[self.fold(k)] = self.fold(v)
        return d

    # --- operators ------------------------------------------------------
    def _f_BinOp(self, n):
        op = _BINOPS.get(type(n.op))
        if op is None:
            raise NotConst("binop")
        return op(self.fold(n.left), self.fold(n.right))

    def _f_UnaryOp(self, n):
        v = self.fold(n.operand)
        if isinstance(n.op, ast.USub):
            return -v
        if isinstance(n.op, ast.UAdd):
            return +v
        if isinstance(n.op, ast.Not):
            return not v
        raise NotConst("unaryop")

    def _f_BoolOp(self, n):
        # short-circuit, like the language
        r = None
        for v in n.values:
            r = self.fold(v)
            if isinstance(n.op, ast.And) and not r:
                return r
            if isinstance(n.op, ast.Or) and r:
                return r
        return r

    def _f_Compare(self, n):
        left = self.fold(n.left)
        for op, c in zip(n.ops, n.comparators):
            right = self.fold(c)
            f = _CMPOPS.get(type(op))
            if f is None:
                raise NotConst("cmpop")
            if not f(left, right):
                return False
            left = right
        return True

    def _f_IfExp(self, n):
        return self.fold(n.body) if self.fold(n.test) else self.fold(n.orelse)

    def _f_Subscript(self, n):
        v = self.fold(n.value)
        s = n.slice
        if isinstance(s, ast.Slice):
            lo = self.fold(s.lower) if s.lower else None
            hi = self.fold(s.upper) if s.upper else None
            st = self.fold(s.step) if s.step else None
            return v[lo:hi:st]
        return v[self.fold(s)]

    def _f_JoinedStr(self, n):
        out = []
        for v in n.values:
            if isinstance(v, ast.Constant):
                out.append(str(v.value))
            elif isinstance(v, ast.FormattedValue):
                val = self.fold(v.value)
                spec = self.fold(v.format_spec) if v.format_spec else ""
                if v.conversion == ord("r"):
                    val = repr(val)
                elif v.conversion == ord("s"):
                    val = str(val)
                out.append(format(val, spec))
            else:
                raise NotConst("joinedstr")
        return "".join(out)

    def _f_Call(self, n):
        f = n.func
        if n.keywords and isinstance(f, ast.Name) and f.id in self.local and getattr(self.local[f.id], "_folder_keywords", False):
            # a rule-supplied callable that declares it takes keyword arguments (an evaluated module function, a constructor stub)
            if any(k.arg is None for k in n.keywords):
                raise NotConst("**kwargs in call")
            return self.local[f.id](*self._elts(n.args), **{k.arg: self.fold(k.value) for k in n.keywords})
        if n.keywords and not (
            isinstance(n.func, ast.Name) and n.func.id in ("sorted", "max", "min", "dict")
        ):
            raise NotConst("keywords in call")
        if isinstance(f, ast.Name):
            if f.id in self.local and callable(self.local[f.id]):
                fn = self.local[f.id]
            elif f.id in _BUILTINS:
                fn = _BUILTINS[f.id]
            elif self._imported_func(f.id) is not None:  # from itertools import product
                fn = self._imported_func(f.id)
            else:
                raise NotConst(f"call of {f.id}")
            args = self._elts(n.args)
            kw = {}
            for k in n.keywords:
                if k.arg == "reverse" or f.id == "dict":
                    kw[k.arg] = self.fold(k.value)
                elif k.arg in ("key", "default") and f.id in ("sorted", "max", "min") and f.id not in self.local:
                    kw[k.arg] = self.fold(k.value)  # a lambda, a bound method of a local container, a rule-supplied callable
                    if k.arg == "key" and not callable(kw[k.arg]):
                        raise NotConst("key is not callable")
                else:
                    raise NotConst("keyword")
            return fn(*args, **kw)
        if isinstance(f, ast.Attribute):
            if isinstance(f.value, ast.Name) and f.value.id not in self.local and (self._module_alias(f.value.id), f.attr) in _MODULE_FUNCS:
                return _MODULE_FUNCS[(self._module_alias(f.value.id), f.attr)](*self._elts(n.args))
            recv = self.fold(f.value)
            for t, name in _METHODS:
                if isinstance(recv, t) and name == f.attr:
                    r = getattr(recv, name)(*self._elts(n.args))
                    if name in ("keys", "values", "items"):
                        r = list(r)
                    return r
            # method of an abstract object supplied by the rule (a stub standing for `self`, a residue, ...)
            if getattr(recv, "_folder_stub", False) and callable(getattr(recv, f.attr, None)):
                return getattr(recv, f.attr)(*self._elts(n.args))
            raise NotConst(f"method {f.attr}")
        raise NotConst("call")

    def _module_alias(self, name: str) -> str:
        """`import itertools as it` -> 'itertools' (stdlib modules of the whitelist only)."""
        try:
            imp = self.repo.module(self.module).imports.get(name)
        except Exception:
            imp = None
        return imp[0] if imp and imp[1] is None else name

    def _imported_func(self, name: str):
        try:
            imp = self.repo.module(self.module).imports.get(name)
        except Exception:
            return None
        if imp and imp[1] is not None and (imp[0], imp[1]) in _MODULE_FUNCS:
            return _MODULE_FUNCS[(imp[0], imp[1])]
        return None

    def _comp(self, generators, emit):
        def rec(i, env):
            if i == len(generators):
                emit(self.child(env))
                return
            g = generators[i]
            sub = self.child(env)
            for item in sub.fold(g.iter):
                env2 = dict(env)
                _bind(g.target, item, env2)
                s2 = self.child(env2)
                if all(s2.fold(c) for c in g.ifs):
                    for k in getattr(s2, "_walrus", ()):  # names bound by := in a condition are visible to the element
                        env2[k] = s2.local[k]
                    rec(i + 1, env2)

        rec(0, {})

    def _f_NamedExpr(self, n):
        v = self.fold(n.value)
        if not isinstance(n.target, ast.Name):
            raise NotConst("walrus target")
        self.local[n.target.id] = v
        self._walrus = getattr(self, "_walrus", set()) | {n.target.id}
        return v

    def _f_Lambda(self, n):
        if n.args.vararg or n.args.kwarg or n.args.kwonlyargs or n.args.defaults:
            raise NotConst("lambda signature")
        params = [a.arg for a in n.args.posonlyargs + n.args.args]

        def call(*vals):
            if len(vals) != len(params):
                raise NotConst("lambda arity")
            return self.child(dict(zip(params, vals))).fold(n.body)

        return call

    def _f_ListComp(self, n):
        out = []
        self._comp(n.generators, lambda f: out.append(f.fold(n.elt)))
        return out

    def _f_GeneratorExp(self, n):
        return self._f_ListComp(n)

    def _f_SetComp(self, n):
        out = set()
        self._comp(n.generators, lambda f: out.add(f.fold(n.elt)))
        return out

    def _f_DictComp(self, n):
        out = {}
        self._comp(n.generators, lambda f: out.__setitem__(f.fold(n.key), f.fold(n.value)))
        return out


def _bind(target, value, env):
    if isinstance(target, ast.Name):
        env[target.id] = value
    elif isinstance(target, (ast.Tuple, ast.List)):
        vals = list(value)
        if len(vals) != len(target.elts):
            raise NotConst("unpack")
        for t, v in zip(target.elts, vals):
            _bind(t, v, env)
    else:
        raise NotConst("bind target")
