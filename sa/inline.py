"""Helper inlining: undo "extract function" refactorings before the rules look at the code.

A function that exists in the analysed source but not in the reference copy of the same module (spec/reference) is
a *new helper*.  Calls of new helpers from functions that do exist in the reference are replaced by the helper's body
(parameters substituted by the arguments, helper locals renamed apart, `return`s turned into the value of the call),
so an extracted helper is analysed as part of its caller, exactly as before the extraction.  Only helpers whose
control flow can be inlined faithfully are handled: straight-line bodies, if/else trees whose branches return, and
bodies whose only `return`s are guard clauses (`if c: return X`) or the final statement; a `return` inside a loop, a
`try` or a `with` stops the inlining of that helper (the rules then see the call, and say so).
"""
from __future__ import annotations

import ast
import copy
import itertools
from typing import Dict, List, Optional, Sequence, Set, Tuple

from .align import local_names

_counter = itertools.count()


def _simple(e: ast.AST) -> bool:
    """Argument that can be substituted for a parameter textually (no side effects, cheap, stable)."""
    if isinstance(e, (ast.Name, ast.Constant)):
        return True
    if isinstance(e, ast.Attribute):
        return _simple(e.value)
    if isinstance(e, ast.Subscript):
        return _simple(e.value) and (isinstance(e.slice, (ast.Name, ast.Constant)) or (isinstance(e.slice, ast.Tuple) and all(isinstance(x, (ast.Name, ast.Constant)) for x in e.slice.elts)))
    if isinstance(e, ast.UnaryOp):
        return _simple(e.operand)
    return False


def _has_bad_return(stmts: Sequence[ast.stmt]) -> bool:
    """Return inside a loop / try / with / nested def: not inlinable."""
    for st in stmts:
        if isinstance(st, (ast.For, ast.While, ast.AsyncFor, ast.Try, ast.With, ast.AsyncWith)):
            if any(isinstance(n, ast.Return) for n in ast.walk(st)):
                return True
        elif isinstance(st, ast.If):
            if _has_bad_return(st.body) or _has_bad_return(st.orelse):
                return True
        elif isinstance(st, (ast.FunctionDef, ast.AsyncFunctionDef, ast.ClassDef)):
            return True
    return False


def _ends(stmts: Sequence[ast.stmt]) -> bool:
    if not stmts:
        return False
    last = stmts[-1]
    if isinstance(last, (ast.Return, ast.Raise)):
        return True
    if isinstance(last, ast.If) and last.orelse:
        return _ends(last.body) and _ends(last.orelse)
    return False


class _TooBig(Exception):
    """return elimination would duplicate too many statements: the helper is left as a call"""


def _assign_form(stmts: List[ast.stmt], res: str, budget: Optional[List[int]] = None) -> List[ast.stmt]:
    """Return elimination: the statement list computes `res` instead of returning."""
    budget = budget if budget is not None else [400]
    out: List[ast.stmt] = []
    for i, st in enumerate(stmts):
        rest = stmts[i + 1 :]
        if isinstance(st, ast.Return):
            val = st.value if st.value is not None else ast.Constant(value=None)
            out.append(ast.copy_location(ast.Assign(targets=[ast.Name(id=res, ctx=ast.Store())], value=val), st))
            return out
        if isinstance(st, ast.If) and any(isinstance(n, ast.Return) for n in ast.walk(st)):
            body = _assign_form(list(st.body), res, budget)
            if _ends(st.body) and not st.orelse:
                orelse = _assign_form(list(rest), res, budget)
                out.append(ast.copy_location(ast.If(test=st.test, body=body, orelse=orelse), st))
                return out
            orelse_src = list(st.orelse)
            if _ends(st.body) and _ends(st.orelse):
                out.append(ast.copy_location(ast.If(test=st.test, body=body, orelse=_assign_form(orelse_src, res, budget)), st))
                return out
            # one branch falls through: the rest belongs to the fall-through branch
            if _ends(st.orelse) and not _ends(st.body):
                out.append(ast.copy_location(ast.If(test=st.test, body=_assign_form(list(st.body) + list(rest), res, budget), orelse=_assign_form(orelse_src, res, budget)), st))
                return out
            if _ends(st.body) and st.orelse:
                out.append(ast.copy_location(ast.If(test=st.test, body=body, orelse=_assign_form(orelse_src + list(rest), res, budget)), st))
                return out
            # some path through this `if` returns and another one falls through: the statements that follow run only on the
            # paths that fall through, so they move into both branches (appending them after the `if` would overwrite the result
            # of the paths that returned)
            budget[0] -= len(rest) + 1
            if budget[0] < 0:
                raise _TooBig()
            out.append(ast.copy_location(ast.If(test=st.test, body=_assign_form(list(st.body) + copy.deepcopy(list(rest)), res, budget), orelse=_assign_form(orelse_src + list(rest), res, budget)), st))
            return out
        out.append(st)
    # fell off the end: implicit None
    out.append(ast.Assign(targets=[ast.Name(id=res, ctx=ast.Store())], value=ast.Constant(value=None), lineno=getattr(stmts[-1], "lineno", 1) if stmts else 1, col_offset=0))
    return out


def _expr_form(body: Sequence[ast.stmt]) -> Optional[ast.expr]:
    """Guard-clause bodies (`if t: return a` ... `return b`, optionally if/else of returns) as one expression.
    `if t: return False; return x` -> `not t and x`;  `if t: return True; return x` -> `t or x`;  otherwise a conditional expression."""
    if not body:
        return None
    st = body[0]
    if isinstance(st, ast.Return):
        return st.value if st.value is not None else ast.Constant(value=None)
    if isinstance(st, ast.If):
        a = _expr_form(st.body)
        if a is None or not _ends(st.body):
            return None
        b = _expr_form(list(st.orelse) if st.orelse else list(body[1:]))
        if b is None:
            return None
        if st.orelse and not _ends(st.orelse):
            return None
        if isinstance(a, ast.Constant) and a.value is False:
            return ast.BoolOp(op=ast.And(), values=[ast.UnaryOp(op=ast.Not(), operand=st.test), b])
        if isinstance(a, ast.Constant) and a.value is True:
            return ast.BoolOp(op=ast.Or(), values=[st.test, b])
        return ast.IfExp(test=st.test, body=a, orelse=b)
    return None


class _Subst(ast.NodeTransformer):
    def __init__(self, env: Dict[str, ast.AST], ren: Dict[str, str]):
        self.env, self.ren = env, ren

    def visit_Name(self, n: ast.Name):
        if n.id in self.env and isinstance(n.ctx, ast.Load):
            return copy.deepcopy(self.env[n.id])
        if n.id in self.ren:
            return ast.copy_location(ast.Name(id=self.ren[n.id], ctx=n.ctx), n)
        return n

    def visit_arg(self, n: ast.arg):
        if n.arg in self.ren:
            n.arg = self.ren[n.arg]
        return n


def _relocate(node: ast.AST, lineno: int) -> ast.AST:
    for n in ast.walk(node):
        if hasattr(n, "lineno"):
            n.lineno = lineno
            n.end_lineno = lineno
    return node


def expand_call(helper: ast.FunctionDef, call: ast.Call, caller_locals: Set[str], bound_method: bool) -> Optional[Tuple[List[ast.stmt], ast.expr]]:
    """(prelude statements, value expression) equivalent to the call, or None."""
    body = [s for s in helper.body if not (isinstance(s, ast.Expr) and isinstance(s.value, ast.Constant))]
    if not body or _has_bad_return(body):
        return None
    if any(isinstance(n, (ast.Yield, ast.YieldFrom, ast.Await, ast.Global, ast.Nonlocal)) for s in body for n in ast.walk(s)):
        return None
    a = helper.args
    if a.vararg or a.kwarg or a.posonlyargs:
        return None
    params = [p.arg for p in a.args]
    if bound_method and params and params[0] in ("self", "cls"):
        params = params[1:]
    defaults = dict(zip(reversed(params), reversed(a.defaults))) if a.defaults else {}
    kwparams = [p.arg for p in a.kwonlyargs]
    for p, d in zip(kwparams, a.kw_defaults):
        if d is not None:
            defaults[p] = d
    actual: Dict[str, ast.AST] = {}
    if any(isinstance(x, ast.Starred) for x in call.args) or any(k.arg is None for k in call.keywords):
        return None
    if len(call.args) > len(params):
        return None
    for p, x in zip(params, call.args):
        actual[p] = x
    for k in call.keywords:
        if k.arg not in params + kwparams:
            return None
        actual[k.arg] = k.value
    for p in params + kwparams:
        if p not in actual:
            if p in defaults:
                actual[p] = defaults[p]
            else:
                return None
    tag = next(_counter)
    hlocals = local_names(helper) - set(params) - set(kwparams)
    assigned_params = {n.id for s in body for n in ast.walk(s) if isinstance(n, ast.Name) and isinstance(n.ctx, ast.Store) and n.id in actual}
    prelude: List[ast.stmt] = []
    env: Dict[str, ast.AST] = {}
    ren: Dict[str, str] = {}
    for p, x in actual.items():
        if _simple(x) and p not in assigned_params:
            env[p] = x
        else:
            nm = p if p not in caller_locals else f"{p}_{tag}"
            ren[p] = nm
            prelude.append(ast.Assign(targets=[ast.Name(id=nm, ctx=ast.Store())], value=copy.deepcopy(x), lineno=call.lineno, col_offset=0))
    for v in hlocals:
        ren[v] = v if v not in caller_locals else f"{v}_{tag}"
    sub = _Subst(env, ren)
    line = call.lineno
    # pure expression helper: single return (maybe after simple assignments)
    if len(body) == 1 and isinstance(body[0], ast.Return) and body[0].value is not None:
        e = sub.visit(copy.deepcopy(body[0].value))
        return [ast.fix_missing_locations(_relocate(s, line)) for s in prelude], ast.fix_missing_locations(_relocate(e, line))
    if isinstance(body[-1], ast.Return) and not any(isinstance(n, ast.Return) for s in body[:-1] for n in ast.walk(s)) and body[-1].value is not None:
        stmts = [sub.visit(copy.deepcopy(s)) for s in body[:-1]]
        e = sub.visit(copy.deepcopy(body[-1].value))
        return [ast.fix_missing_locations(_relocate(s, line)) for s in prelude + stmts], ast.fix_missing_locations(_relocate(e, line))
    ef = _expr_form(body)
    if ef is not None:
        e = sub.visit(copy.deepcopy(ef))
        return [ast.fix_missing_locations(_relocate(s, line)) for s in prelude], ast.fix_missing_locations(_relocate(e, line))
    res = f"{helper.name.lstrip('_')}_result_{tag}"
    try:
        stmts = [sub.visit(s) for s in _assign_form([copy.deepcopy(s) for s in body], res)]
    except _TooBig:
        return None
    return [ast.fix_missing_locations(_relocate(s, line)) for s in prelude + stmts], ast.Name(id=res, ctx=ast.Load(), lineno=line, col_offset=0)


def _callee_name(call: ast.Call, cls: Optional[str]) -> Optional[Tuple[str, bool]]:
    """(helper simple name, is bound method call)"""
    f = call.func
    if isinstance(f, ast.Name):
        return f.id, False
    if isinstance(f, ast.Attribute) and isinstance(f.value, ast.Name):
        if f.value.id in ("self", "cls"):
            return f.attr, True
        if cls is not None and f.value.id == cls:
            return f.attr, False
    return None


def _first_evaluated(stmt: ast.stmt, call: ast.Call) -> bool:
    """The call is evaluated exactly once, unconditionally, before anything else of the statement that matters."""
    if isinstance(stmt, (ast.Assign, ast.AnnAssign, ast.AugAssign, ast.Return, ast.Expr)):
        root = stmt.value
    elif isinstance(stmt, (ast.If, ast.While)):
        root = stmt.test
        if isinstance(stmt, ast.While):
            return False
    elif isinstance(stmt, (ast.For, ast.AsyncFor)):
        root = stmt.iter
    else:
        return False
    if root is None:
        return False
    # walk down: the call must not sit under a short-circuit (except as first operand), conditional branch, lambda or comprehension
    def ok(n: ast.AST) -> Optional[bool]:
        if n is call:
            return True
        if isinstance(n, ast.BoolOp):
            r = ok(n.values[0])
            if r:
                return True
            return False if any(any(x is call for x in ast.walk(v)) for v in n.values[1:]) else None
        if isinstance(n, ast.IfExp):
            r = ok(n.test)
            if r:
                return True
            return False if any(x is call for x in ast.walk(n)) else None
        if isinstance(n, (ast.Lambda, ast.ListComp, ast.SetComp, ast.DictComp, ast.GeneratorExp)):
            return False if any(x is call for x in ast.walk(n)) else None
        for c in ast.iter_child_nodes(n):
            r = ok(c)
            if r is not None:
                return r
        return None

    return bool(ok(root))


class _Replace(ast.NodeTransformer):
    def __init__(self, target: ast.Call, value: ast.expr):
        self.target, self.value = target, value

    def visit_Call(self, n: ast.Call):
        if n is self.target:
            return self.value
        self.generic_visit(n)
        return n


def inline_in_function(fn: ast.FunctionDef, helpers: Dict[str, ast.FunctionDef], cls: Optional[str], log: List[str]) -> int:
    """Inline calls of `helpers` inside fn (in place); nested defs of fn that are helpers are removed once unused."""
    done = 0
    for _ in range(12):
        changed = False
        caller_locals = local_names(fn)
        # blocks of fn
        for parent in list(ast.walk(fn)):
            for field in ("body", "orelse", "finalbody"):
                blk = getattr(parent, field, None)
                if not (isinstance(blk, list) and blk and isinstance(blk[0], ast.stmt)):
                    continue
                for idx, st in enumerate(list(blk)):
                    if isinstance(st, (ast.FunctionDef, ast.AsyncFunctionDef, ast.ClassDef)):
                        continue
                    header = [st]
                    calls = [c for c in _header_calls(st) if isinstance(c, ast.Call)]
                    for c in calls:
                        cn = _callee_name(c, cls)
                        if cn is None or cn[0] not in helpers or helpers[cn[0]] is fn:
                            continue
                        exp = expand_call(helpers[cn[0]], c, caller_locals, cn[1])
                        if exp is None:
                            continue
                        prelude, value = exp
                        if prelude and not _first_evaluated(st, c):
                            continue
                        new_st = _Replace(c, value).visit(st)
                        blk[idx : idx + 1] = prelude + [new_st]
                        log.append(f"{cn[0]} inlined into {fn.name} at line {getattr(st, 'lineno', '?')}")
                        done += 1
                        changed = True
                        break
                    if changed:
                        break
                if changed:
                    break
            if changed:
                break
        if not changed:
            break
    # drop nested helper definitions that are no longer referenced
    for parent in list(ast.walk(fn)):
        for field in ("body", "orelse"):
            blk = getattr(parent, field, None)
            if isinstance(blk, list):
                for st in list(blk):
                    if isinstance(st, ast.FunctionDef) and st is not fn and st.name in helpers and helpers[st.name] is st:
                        used = any(isinstance(n, ast.Name) and n.id == st.name and isinstance(n.ctx, ast.Load) for n in ast.walk(fn) if n is not st and not any(n is x for x in ast.walk(st)))
                        if not used:
                            blk.remove(st)
    return done


def _header_calls(st: ast.stmt) -> List[ast.AST]:
    """Call nodes of the statement's own expressions (not of nested statements)."""
    out: List[ast.AST] = []
    roots: List[ast.AST] = []
    if isinstance(st, (ast.Assign, ast.AnnAssign, ast.AugAssign, ast.Return, ast.Expr)):
        if getattr(st, "value", None) is not None:
            roots.append(st.value)
    elif isinstance(st, (ast.If, ast.While)):
        roots.append(st.test)
    elif isinstance(st, (ast.For, ast.AsyncFor)):
        roots.append(st.iter)
    for r in roots:
        out.extend(n for n in ast.walk(r) if isinstance(n, ast.Call))
    return out
