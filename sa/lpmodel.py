"""A14b: a symbolic model of the PuLP API for the fragment interpreter (sa/microeval.py).

The MILP encoder of common.py talks to `pulp`.  To read the model it *builds* (and what it does with each class of solver
outcome) the interpreter is handed this stand-in instead of the library: variables are symbols, arithmetic on them
builds linear expressions, comparisons build constraints, `problem += x` files an objective or a constraint, and
`problem.solve(solver)` asks the rule-supplied `World` what the solver "did" (raise PulpSolverError, leave a status,
assign values).  Nothing is solved here.  This is the PuLP API model that C02/C13 list in their trusted base:

  LpVariable(name, lowBound, upBound, cat) / LpVariable.dicts(name, indices, lowBound, upBound, cat)
  v * c, c * v, v + w, -v, lpSum(iterable), e == c, e <= c, e >= c
  LpProblem(name, sense);  problem += expression | constraint;  problem.variables() = the variables that occur in the
  objective or a constraint, ordered by name;  problem.solve(solver) -> status;  problem.status;  variable.varValue
  status constants: Optimal 1, Not Solved 0, Infeasible -1, Unbounded -2, Undefined -3
"""
from __future__ import annotations

from fractions import Fraction
from typing import Any, Callable, Dict, Iterable, List, Optional, Tuple

LpStatusOptimal, LpStatusNotSolved, LpStatusInfeasible, LpStatusUnbounded, LpStatusUndefined = 1, 0, -1, -2, -3
STATUS_NAMES = {1: "Optimal", 0: "Not Solved", -1: "Infeasible", -2: "Unbounded", -3: "Undefined"}
LpMaximize, LpMinimize = -1, 1


class PulpSolverError(Exception):
    pass


class PulpError(Exception):
    pass


def _num(x: Any) -> bool:
    return isinstance(x, (int, float, Fraction)) and not isinstance(x, bool)


class LinExpr:
    """sum(coef * variable) + const"""

    _folder_stub = True

    def __init__(self, terms: Optional[Dict["LpVariable", Any]] = None, const: Any = 0):
        self.terms: Dict[LpVariable, Any] = dict(terms or {})
        self.const = const

    @staticmethod
    def of(x: Any) -> "LinExpr":
        if isinstance(x, LinExpr):
            return LinExpr(x.terms, x.const)
        if isinstance(x, LpVariable):
            return LinExpr({x: 1}, 0)
        if _num(x):
            return LinExpr({}, x)
        if x is None:
            return LinExpr({}, 0)
        raise TypeError(f"unsupported operand for a linear expression: {type(x).__name__}")

    def __add__(self, o):
        o = LinExpr.of(o)
        t = dict(self.terms)
        for v, c in o.terms.items():
            t[v] = t.get(v, 0) + c
        return LinExpr(t, self.const + o.const)

    __radd__ = __add__

    def __neg__(self):
        return LinExpr({v: -c for v, c in self.terms.items()}, -self.const)

    def __sub__(self, o):
        return self + (-LinExpr.of(o))

    def __rsub__(self, o):
        return LinExpr.of(o) + (-self)

    def __mul__(self, k):
        if isinstance(k, (LinExpr, LpVariable)):
            k = LinExpr.of(k)
            if k.terms and self.terms:
                raise TypeError("Non-constant expressions cannot be multiplied")
            if not k.terms:
                k = k.const
            else:
                return k * self.const
        if not _num(k):
            raise TypeError(f"cannot multiply a linear expression by {type(k).__name__}")
        return LinExpr({v: c * k for v, c in self.terms.items()}, self.const * k)

    __rmul__ = __mul__

    def __truediv__(self, k):
        if not _num(k):
            raise TypeError("division of a linear expression by a non-number")
        return self * Fraction(1, k) if isinstance(k, int) else self * (1 / k)

    def __eq__(self, o):  # type: ignore[override]
        return Constraint(self - LinExpr.of(o), "==")

    def __le__(self, o):
        return Constraint(self - LinExpr.of(o), "<=")

    def __ge__(self, o):
        return Constraint(self - LinExpr.of(o), ">=")

    __hash__ = None  # type: ignore[assignment]

    def value(self):
        tot = self.const
        for v, c in self.terms.items():
            x = v.varValue
            if x is None:
                return None
            tot += c * x
        return tot

    def normal(self) -> Tuple[Tuple[Tuple[str, Any], ...], Any]:
        return tuple(sorted((v.name, c) for v, c in self.terms.items() if c != 0)), self.const

    def __str__(self):
        return " + ".join(f"{c}*{v.name}" for v, c in self.terms.items()) + (f" + {self.const}" if self.const else "")

    __repr__ = __str__


class LpVariable:
    _folder_stub = True
    _seq = 0

    def __init__(self, name, lowBound=None, upBound=None, cat="Continuous", e=None):
        self.name = str(name)
        self.lowBound, self.upBound, self.cat = lowBound, upBound, cat
        if cat == "Binary":
            self.lowBound, self.upBound, self.cat = 0, 1, "Integer"
        self._value = None
        self.reads = 0
        LpVariable._seq += 1
        self.serial = LpVariable._seq

    @property
    def varValue(self):
        """Reads are counted: a rule can tell whether solution values were consulted at all."""
        self.reads += 1
        return self._value

    @varValue.setter
    def varValue(self, v):
        self._value = v

    # identity hash like the library (variables are dictionary keys), comparisons build constraints
    def __hash__(self):
        return self.serial

    def getName(self):
        return self.name

    def value(self):
        return self.varValue

    def peek(self):
        return self._value

    @classmethod
    def dicts(cls, name, indices=None, lowBound=None, upBound=None, cat="Continuous", indexStart=[], indexs=None):
        if indices is None:
            indices = indexs
        if not isinstance(indices, tuple):
            indices = (indices,)
        first, rest = indices[0], indices[1:]
        out = {}
        for i in first:
            if rest:
                out[i] = cls.dicts(name, rest, lowBound, upBound, cat, list(indexStart) + [i])
            else:
                out[i] = cls(name + "_" + "_".join(str(x) for x in list(indexStart) + [i]), lowBound, upBound, cat)
        return out

    dict = dicts

    def __add__(self, o):
        return LinExpr.of(self) + o

    __radd__ = __add__

    def __sub__(self, o):
        return LinExpr.of(self) - o

    def __rsub__(self, o):
        return LinExpr.of(o) - LinExpr.of(self)

    def __neg__(self):
        return -LinExpr.of(self)

    def __mul__(self, k):
        return LinExpr.of(self) * k

    __rmul__ = __mul__

    def __truediv__(self, k):
        return LinExpr.of(self) / k

    def __eq__(self, o):  # type: ignore[override]
        return Constraint(LinExpr.of(self) - LinExpr.of(o), "==")

    def __ne__(self, o):  # type: ignore[override]
        return not (self is o)

    def __le__(self, o):
        return Constraint(LinExpr.of(self) - LinExpr.of(o), "<=")

    def __ge__(self, o):
        return Constraint(LinExpr.of(self) - LinExpr.of(o), ">=")

    def __bool__(self):
        return True

    def __str__(self):
        return self.name

    __repr__ = __str__


class Constraint:
    """expr (sense) 0"""

    _folder_stub = True

    def __init__(self, expr: LinExpr, sense: str):
        self.expr, self.sense = expr, sense

    def normal(self) -> Tuple[Tuple[Tuple[str, Any], ...], str, Any]:
        terms, const = self.expr.normal()
        return terms, self.sense, -const  # sum(terms) sense rhs

    def __bool__(self):
        # the library's LpConstraint is truthy when it has terms; `if a == b` on variables is therefore True
        return bool(self.expr.terms)

    def __str__(self):
        t, s, r = self.normal()
        return " + ".join(f"{c}*{n}" for n, c in t) + f" {s} {r}"

    __repr__ = __str__


def lpSum(vector: Iterable) -> LinExpr:
    out = LinExpr()
    for x in vector:
        out = out + LinExpr.of(x)
    return out


class LpProblem:
    _folder_stub = True

    def __init__(self, name="NoName", sense=LpMinimize, world: Optional["World"] = None):
        self.name, self.sense = name, sense
        self.objective: Optional[LinExpr] = None
        self.objectives_set = 0
        self.constraints: List[Constraint] = []
        self.status = LpStatusNotSolved
        self.solutionTime = 0.0
        self.solver = None
        self.world = world

    def __iadd__(self, other):
        if isinstance(other, tuple):
            other = other[0]
        if isinstance(other, Constraint):
            self.constraints.append(other)
        elif isinstance(other, (LinExpr, LpVariable)) or _num(other):
            self.objective = LinExpr.of(other)
            self.objectives_set += 1
        elif other is True or other is False:
            raise TypeError("A False object cannot be passed as a constraint")
        else:
            raise TypeError("Can only add LpConstraintVar, LpConstraint, LpAffineExpression or True objects")
        return self

    def variables(self) -> List[LpVariable]:
        seen: Dict[int, LpVariable] = {}
        if self.objective is not None:
            for v in self.objective.terms:
                seen[id(v)] = v
        for c in self.constraints:
            for v in c.expr.terms:
                seen[id(v)] = v
        return sorted(seen.values(), key=lambda v: v.name)

    def numVariables(self):
        return len(self.variables())

    def numConstraints(self):
        return len(self.constraints)

    def solve(self, solver=None, **kwargs):
        if solver is None:
            solver = self.solver
        if solver is None and self.world is not None:
            solver = self.world.default_solver
        status = solver.actualSolve(self)  # AttributeError when there is no solver at all, as in the library
        self.status = status
        return status

    def __str__(self):
        return f"{self.name}: {len(self.constraints)} constraints"

    __repr__ = __str__


class Solver:
    _folder_stub = True

    def __init__(self, world: "World", name: str = "STUB_CMD", available: bool = True):
        self.world, self.name, self._available = world, name, available
        self.msg = True
        self.timeLimit = None

    def available(self):
        return self._available

    def copy(self):
        c = Solver(self.world, self.name, self._available)
        c.msg, c.timeLimit = self.msg, self.timeLimit
        return c

    def __repr__(self):
        return f"<solver {self.name}>"

    def actualSolve(self, problem: LpProblem, **kw):
        return self.world.solve(problem, self)


class World:
    """What the rule decides about the environment: which solvers exist and what a solve does.

    outcome(problem, solver) -> status; it may raise PulpSolverError and may assign `varValue`s."""

    def __init__(self, outcome: Optional[Callable[[LpProblem, Solver], int]] = None, highs: bool = True, default: bool = True):
        self.outcome = outcome
        self.problems: List[LpProblem] = []
        self.solves: List[Tuple[LpProblem, Any]] = []
        self.highs_solver = Solver(self, "HiGHS_CMD", highs)
        self.default_solver = Solver(self, "PULP_CBC_CMD", True) if default else None

    def solve(self, problem: LpProblem, solver: Solver) -> int:
        self.solves.append((problem, solver))
        if self.outcome is None:
            return LpStatusNotSolved
        return self.outcome(problem, solver)


class Pulp:
    """The `pulp` namespace seen by the interpreted fragment."""

    _folder_stub = True

    def __init__(self, world: World):
        w = world
        self.world = w
        self.LpVariable = LpVariable
        self.lpSum = lpSum
        self.LpAffineExpression = LinExpr
        self.PulpSolverError = PulpSolverError
        self.PulpError = PulpError
        self.LpMaximize, self.LpMinimize = LpMaximize, LpMinimize
        self.LpInteger, self.LpBinary, self.LpContinuous = "Integer", "Binary", "Continuous"
        self.LpStatusOptimal, self.LpStatusNotSolved, self.LpStatusInfeasible = LpStatusOptimal, LpStatusNotSolved, LpStatusInfeasible
        self.LpStatusUnbounded, self.LpStatusUndefined = LpStatusUnbounded, LpStatusUndefined
        self.LpStatus = dict(STATUS_NAMES)
        self.LpSolverDefault = w.default_solver
        self.LpSolver = Solver

        def problem(name="NoName", sense=LpMinimize):
            p = LpProblem(name, sense, w)
            w.problems.append(p)
            return p

        self.LpProblem = problem
        self.HiGHS_CMD = lambda *a, **k: w.highs_solver
        self.HiGHS = lambda *a, **k: w.highs_solver
        self.PULP_CBC_CMD = lambda *a, **k: (w.default_solver or Solver(w, "PULP_CBC_CMD", False))
        self.getSolver = lambda *a, **k: w.default_solver

    @staticmethod
    def value(x):
        if x is None or _num(x):
            return x
        if isinstance(x, (LpVariable, LinExpr)):
            return x.value()
        raise TypeError("value() of a non-expression")
