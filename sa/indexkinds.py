"""A6(b): index-conversion discipline between 1-based BPSEQ numbers and 0-based sequence positions.

Every integer that names a nucleotide carries (base, offset): base 1 for BPSEQ numbers (Entry.index_, Entry.pair,
Strand.first/last, region start/partner), base 0 for positions in Python sequences (DotBracket.pairs, range/enumerate
counters), offset = accumulated +-constant.  len(seq) is one past the last position.  At the places where a
nucleotide number meets a *position sequence* (entries, the dot-bracket string, the structure list):
   subscript / slice lower bound needs (0,0) or (1,-1);  slice upper bound needs (0,+1) or (1,0);
   a value stored into a 1-based field or constructor argument needs (1,0), (0,+1) or the literal 0;
   range(lo, hi) over names needs hi = (base of lo, +1);  a comparison of two names needs equal bases;
   a container never mixes bases.
The analysis reports dropped or doubled +-1 at every crossing between the two numberings."""
from __future__ import annotations

import ast
from typing import Any, Dict, List, Optional, Tuple

UNK = "UNK"


def I(b: int, o: int = 0):
    return ("I", b, o)


def normalise(k: Any) -> Any:
    """(1,-1) names the same element as position (0,0); (0,+1) the same as number (1,0).  Applied only when a value is
    bound to a name or put into a container, never inside an expression (neighbour arithmetic stays visible)."""
    if isinstance(k, tuple) and k and k[0] == "I":
        if (k[1], k[2]) == (1, -1):
            return I(0, 0)
        if (k[1], k[2]) == (0, 1):
            return I(1, 0)
    return k


# seeds: which attributes / constructors are 1-based (confirmed by reading, frozen)
SEQ0_ATTRS = {"self.entries": ("SEQ0", "ENTRY"), "self.sequence": ("SEQ0", UNK), "self.dot_bracket.structure": ("SEQ0", UNK), "self.fcfs.structure": ("SEQ0", UNK), "dot_bracket.sequence": ("SEQ0", UNK), "dot_bracket.structure": ("SEQ0", UNK), "self.structure": ("SEQ0", UNK)}
LIST_ATTRS = {"dot_bracket.pairs": ("LIST", ("TUP", [I(0), I(0)])), "self.pairs": ("LIST", ("TUP", [I(0), I(0)]))}


class IndexTyper:
    def __init__(self, func: ast.AST, env: Dict[str, Any], where: str):
        self.f, self.env, self.where = func, dict(env), where
        self.errors: List[Tuple[ast.AST, str]] = []
        self.sites: List[Tuple[ast.AST, str]] = []

    def err(self, n: ast.AST, msg: str) -> None:
        self.errors.append((n, msg))

    def site(self, n: ast.AST, what: str) -> None:
        self.sites.append((n, what))

    def run(self) -> "IndexTyper":
        for k in range(2):
            if k == 1:
                self.errors, self.sites = [], []
            for st in self.f.body:
                self.stmt(st)
        return self

    def stmt(self, st: ast.AST) -> None:
        if isinstance(st, ast.Assign):
            v = self.ev(st.value)
            for t in st.targets:
                self.bind(t, v, st)
        elif isinstance(st, ast.AnnAssign) and st.value is not None:
            self.bind(st.target, self.ev(st.value), st)
        elif isinstance(st, ast.AugAssign):
            self.ev(st.value)
        elif isinstance(st, ast.For):
            if isinstance(st.iter, (ast.Tuple, ast.List)) and st.iter.elts:
                ks = [self.ev(x) for x in st.iter.elts]
                self.bind(st.target, ks[0] if all(k == ks[0] for k in ks) else UNK, st)
            else:
                self.bind(st.target, self.elem(self.ev(st.iter)), st)
            for b in st.body + st.orelse:
                self.stmt(b)
        elif isinstance(st, (ast.If, ast.While)):
            self.ev(st.test)
            for b in st.body + st.orelse:
                self.stmt(b)
        elif isinstance(st, ast.Return) and st.value is not None:
            self.ev(st.value)
        elif isinstance(st, ast.Expr):
            self.ev(st.value)

    def elem(self, k: Any) -> Any:
        if isinstance(k, tuple) and k[0] in ("LIST", "SEQ0"):
            return k[1]
        if isinstance(k, tuple) and k[0] == "RANGE":
            return k[1]
        if isinstance(k, tuple) and k[0] == "ENUM":
            # enumerate(x, start=c): the counter is the position plus c
            return ("TUP", [I(0, k[2]) if len(k) > 2 else I(0), k[1]])
        return UNK

    def bind(self, t: ast.AST, v: Any, st: ast.AST) -> None:
        if isinstance(t, ast.Name):
            self.env[t.id] = normalise(v)
        elif isinstance(t, (ast.Tuple, ast.List)):
            if v == "ENTRY":
                v = ("TUP", [I(1), UNK, I(1)])
            for i, e in enumerate(t.elts):
                self.bind(e, v[1][i] if isinstance(v, tuple) and v[0] == "TUP" and i < len(v[1]) else UNK, st)
        elif isinstance(t, ast.Attribute):
            if t.attr in ("pair", "index_"):
                self.need_field(st, v, f"Entry.{t.attr}")
        elif isinstance(t, ast.Subscript):
            b = self.ev(t.value)
            self.check_sub(t, b)

    def need_field(self, n: ast.AST, v: Any, what: str) -> None:
        self.site(n, f"store->{what}")
        if isinstance(v, tuple) and v[0] == "I":
            if not ((v[1] == 1 and v[2] == 0) or (v[1] == 0 and v[2] == 1)):
                self.err(n, f"value of kind (base {v[1]}, offset {v[2]:+d}) stored into the 1-based field {what}")
        elif isinstance(v, tuple) and v[0] == "C" and v[1] == 0:
            pass
        elif v == UNK or v == "LEN":
            self.err(n, f"value without index kind stored into {what}")

    def check_idx(self, n: ast.AST, k: Any, role: str) -> None:
        if isinstance(k, tuple) and k[0] == "I":
            b, o = k[1], k[2]
            ok = {"sub": (b == 0 and o == 0) or (b == 1 and o == -1), "lo": (b == 0 and o == 0) or (b == 1 and o == -1), "hi": (b == 0 and o == 1) or (b == 1 and o == 0)}[role]
            if not ok:
                what = {"sub": "subscript", "lo": "slice lower bound", "hi": "slice upper bound"}[role]
                self.err(n, f"{what} of kind (base {b}, offset {o:+d}) into a 0-based position sequence")
        elif isinstance(k, tuple) and k[0] == "C":
            pass
        elif k is None:
            pass
        else:
            self.err(n, f"{role} index has no index kind")

    def check_sub(self, e: ast.Subscript, b: Any) -> Any:
        if isinstance(b, tuple) and b[0] == "SEQ0":
            sl = e.slice
            if isinstance(sl, ast.Slice):
                self.site(e, "slice")
                self.check_idx(e, self.ev(sl.lower) if sl.lower else None, "lo")
                self.check_idx(e, self.ev(sl.upper) if sl.upper else None, "hi")
                return b
            self.site(e, "subscript")
            self.check_idx(e, self.ev(sl), "sub")
            return b[1]
        if isinstance(b, tuple) and b[0] == "LIST":
            if isinstance(e.slice, ast.Slice):
                return b
            self.ev(e.slice)
            return b[1]
        if b == "ENTRY" and isinstance(e.slice, ast.Constant) and e.slice.value in (0, 1, 2):
            return [I(1), UNK, I(1)][e.slice.value]
        if isinstance(b, tuple) and b[0] == "TUP" and isinstance(e.slice, ast.Constant) and isinstance(e.slice.value, int) and e.slice.value < len(b[1]):
            return b[1][e.slice.value]
        return UNK

    def ev(self, e: Optional[ast.AST]) -> Any:
        if e is None:
            return None
        if isinstance(e, ast.Constant):
            return ("C", e.value) if isinstance(e.value, int) and not isinstance(e.value, bool) else UNK
        if isinstance(e, ast.UnaryOp) and isinstance(e.op, ast.USub) and isinstance(e.operand, ast.Constant):
            return ("C", -e.operand.value)
        if isinstance(e, ast.Name):
            return self.env.get(e.id, UNK)
        if isinstance(e, ast.Attribute):
            t = ast.unparse(e)
            if t in SEQ0_ATTRS:
                return SEQ0_ATTRS[t]
            if t in LIST_ATTRS:
                return LIST_ATTRS[t]
            b = self.ev(e.value)
            if b == "ENTRY" and e.attr in ("index_", "pair"):
                return I(1)
            if b == "STRAND" and e.attr in ("first", "last"):
                return I(1)
            if b == "STEM" and e.attr in ("strand5p", "strand3p"):
                return "STRAND"
            if e.attr == "strand":
                return "STRAND"
            return UNK
        if isinstance(e, ast.Subscript):
            return self.check_sub(e, self.ev(e.value))
        if isinstance(e, ast.BinOp) and isinstance(e.op, (ast.Add, ast.Sub)):
            a, b = self.ev(e.left), self.ev(e.right)
            sg = 1 if isinstance(e.op, ast.Add) else -1
            if isinstance(a, tuple) and a[0] == "I" and isinstance(b, tuple) and b[0] == "C":
                return I(a[1], a[2] + sg * b[1])
            if isinstance(a, tuple) and a[0] == "C" and isinstance(b, tuple) and b[0] == "I" and sg == 1:
                return I(b[1], b[2] + a[1])
            if isinstance(a, tuple) and a[0] == "I" and b == "LEN" and sg == 1:
                return I(a[1], a[2] + 1)  # name of one past the span; "- 1" brings it back
            if a == "LEN" and isinstance(b, tuple) and b[0] == "C":
                return I(0, 1 + sg * b[1])  # len(seq) = position of the last element + 1
            if isinstance(a, tuple) and a[0] == "I" and b == "OFF":
                return a  # a position moved by an offset inside its span names a position of the same base
            if a == "OFF" and isinstance(b, tuple) and b[0] == "I" and sg == 1:
                return b
            if a == "OFF" and isinstance(b, tuple) and b[0] == "C":
                return "OFF"
            if isinstance(a, tuple) and a[0] == "I" and isinstance(b, tuple) and b[0] == "I":
                if a[1] != b[1] and sg == -1:
                    self.err(e, f"difference of a base-{a[1]} and a base-{b[1]} index")
                return "LEN"
            return UNK
        if isinstance(e, ast.Compare):
            ks = [self.ev(e.left)] + [self.ev(c) for c in e.comparators]
            ii = [k for k in ks if isinstance(k, tuple) and k[0] == "I"]
            # (1, 0) and (0, +1) are the same numbering: a base mismatch is a mix-up only if the shifts base + offset differ too
            if len(ii) >= 2 and len({k[1] for k in ii}) > 1 and len({k[1] + k[2] for k in ii}) > 1:
                self.err(e, f"comparison mixes 0-based and 1-based indices {[(k[1], k[2]) for k in ii]}")
            elif len(ii) >= 2:
                self.site(e, "compare")
            return UNK
        if isinstance(e, ast.BoolOp):
            for v in e.values:
                self.ev(v)
            return UNK
        if isinstance(e, ast.IfExp):
            self.ev(e.test)
            a, b = self.ev(e.body), self.ev(e.orelse)
            return a if a == b else UNK
        if isinstance(e, ast.Call):
            f = ast.unparse(e.func)
            args = [self.ev(a) for a in e.args]
            for k in e.keywords:
                self.ev(k.value)
            if f == "len":
                return "LEN"
            if f == "range":
                if len(args) == 1:
                    # range(len(x)) enumerates positions of x; range(<a length held in a variable>) enumerates offsets within a span
                    if args[0] == "LEN" and not (isinstance(e.args[0], ast.Call) and ast.unparse(e.args[0].func) == "len"):
                        return ("RANGE", "OFF")
                    return ("RANGE", I(0))
                lo, hi = args[0], args[1]
                if isinstance(lo, tuple) and lo[0] == "I":
                    if isinstance(hi, tuple) and hi[0] == "I":
                        self.site(e, "range")
                        if not (hi[1] == lo[1] and hi[2] == 1):
                            self.err(e, f"range upper bound of kind (base {hi[1]}, offset {hi[2]:+d}) is not one past a base-{lo[1]} name")
                    return ("RANGE", I(lo[1], 0))
                return ("RANGE", I(0))
            if f == "enumerate":
                start = e.args[1] if len(e.args) > 1 else next((k.value for k in e.keywords if k.arg == "start"), None)
                if start is None:
                    return ("ENUM", self.elem(args[0])) if args else UNK
                if isinstance(start, ast.Constant) and isinstance(start.value, int) and not isinstance(start.value, bool) and args:
                    return ("ENUM", self.elem(args[0]), start.value)
                return UNK
            if f == "zip" and args:
                return ("LIST", ("TUP", [self.elem(a) for a in args]))
            if f.split(".")[-1] in ("combinations", "permutations", "combinations_with_replacement") and len(args) == 2 and isinstance(e.args[1], ast.Constant) and isinstance(e.args[1].value, int) and 1 <= e.args[1].value <= 4:
                # r-tuples of elements of one iterable: every member has the element's kind
                return ("LIST", ("TUP", [self.elem(args[0])] * e.args[1].value))
            if f.split(".")[-1] == "pairwise" and len(args) == 1:
                return ("LIST", ("TUP", [self.elem(args[0])] * 2))
            if f.split(".")[-1] == "product" and args and not e.keywords:
                return ("LIST", ("TUP", [self.elem(a) for a in args]))
            if (f.endswith(".update") or f.endswith(".extend")) and len(args) == 1 and isinstance(e.args[0], (ast.Tuple, ast.List, ast.Set)):
                tgt = ast.unparse(e.func.value)
                ks = [normalise(self.ev(x)) for x in e.args[0].elts]
                old = self.env.get(tgt)
                if ks and all(k == ks[0] for k in ks) and (old is None or old == ("LIST", UNK) or old == UNK):
                    self.env[tgt] = ("LIST", ks[0])
                return UNK
            if f == "sorted":
                return ("LIST", self.elem(args[0])) if args and isinstance(args[0], tuple) else (args[0] if args else UNK)
            if f in ("list", "reversed", "tuple"):
                return args[0] if args else UNK
            if f == "Entry" and len(args) == 3:
                self.need_field(e, args[0], "Entry.index_")
                self.need_field(e, args[2], "Entry.pair")
                return "ENTRY"
            if f == "Strand" and len(args) >= 2:
                self.need_field(e, args[0], "Strand.first")
                self.need_field(e, args[1], "Strand.last")
                return "STRAND"
            if f.endswith(".add") or f.endswith(".append"):
                tgt = ast.unparse(e.func.value)
                old = self.env.get(tgt)
                args = [normalise(a) for a in args]
                if args and (old is None or old == ("LIST", UNK) or old == UNK):
                    self.env[tgt] = ("LIST", args[0])
                elif args and isinstance(old, tuple) and old[0] == "LIST" and old[1] != args[0] and isinstance(args[0], tuple) and args[0][0] == "I" and isinstance(old[1], tuple) and old[1][0] == "I":
                    self.err(e, f"container {tgt} mixes index kinds {old[1][1:]} and {args[0][1:]}")
                return UNK
            if f == "Strand.from_bpseq_entries":
                return "STRAND"
            if f == "Stem.from_bpseq_entries":
                return "STEM"
            if f == "set" and args:
                return args[0]
            return UNK
        if isinstance(e, (ast.ListComp, ast.GeneratorExp, ast.SetComp)):
            g = e.generators[0]
            sub = IndexTyper(self.f, self.env, self.where)
            sub.bind(g.target, self.elem(self.ev(g.iter)), e)
            for c in g.ifs:
                sub.ev(c)
            k = sub.ev(e.elt)
            self.errors += sub.errors
            self.sites += sub.sites
            return ("LIST", k)
        if isinstance(e, ast.Tuple):
            return ("TUP", [self.ev(x) for x in e.elts])
        if isinstance(e, ast.List):
            ks = [self.ev(x) for x in e.elts]
            return ("LIST", ks[0] if ks else UNK)
        if isinstance(e, ast.Lambda):
            sub = IndexTyper(self.f, self.env, self.where)
            for a in e.args.args:
                sub.env[a.arg] = "ENTRY" if a.arg in ("entry", "e") else UNK
            sub.ev(e.body)
            self.errors += sub.errors
            self.sites += sub.sites
            return UNK
        return UNK
