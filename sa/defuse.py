"""Reaching definitions in structured code and expression inlining.

`Inliner(func).inline(expr, at_stmt)` replaces local names by the expression they were last assigned on
*every* path to the statement (a dominating simple assignment with no other assignment in between), repeatedly,
so rules can look at closed expressions over inputs instead of depending on variable names.
"""
from __future__ import annotations

import ast
import copy
from typing import Dict, List, Optional, Tuple

from . import astq


class Inliner:
    def __init__(self, func: ast.AST):
        self.func = func
        self.parent: Dict[int, ast.AST] = {}
        self.block_of: Dict[int, Tuple[int, List[ast.stmt], int]] = {}  # stmt id -> (block id, block list, index)
        self._index(func)
        # accumulators (containers built up by mutation) are never inlined: their initial value is not their value
        self.mutated = set()
        for n in ast.walk(func):
            if isinstance(n, ast.Call) and isinstance(n.func, ast.Attribute) and isinstance(n.func.value, ast.Name) and n.func.attr in (
                "append", "add", "extend", "update", "insert", "remove", "pop", "clear", "sort", "reverse", "discard", "setdefault"):
                self.mutated.add(n.func.value.id)
            if isinstance(n, (ast.Assign, ast.AugAssign)):
                for t in (n.targets if isinstance(n, ast.Assign) else [n.target]):
                    if isinstance(t, ast.Subscript) and isinstance(t.value, ast.Name):
                        self.mutated.add(t.value.id)

    def _index(self, node: ast.AST) -> None:
        for field in ("body", "orelse", "finalbody", "handlers"):
            blk = getattr(node, field, None)
            if isinstance(blk, list) and blk and isinstance(blk[0], (ast.stmt, ast.ExceptHandler)):
                for i, st in enumerate(blk):
                    self.parent[id(st)] = node
                    if isinstance(st, ast.stmt):
                        self.block_of[id(st)] = (id(blk), blk, i)
                    if not isinstance(st, (ast.FunctionDef, ast.AsyncFunctionDef, ast.ClassDef)):
                        self._index(st)

    def stmt_containing(self, node: ast.AST) -> Optional[ast.stmt]:
        best = None
        for sid, (bid, blk, i) in self.block_of.items():
            st = blk[i]
            for n in ast.walk(st):
                if n is node:
                    if best is None or _depth(self, st) > _depth(self, best):
                        best = st
                    break
        return best

    def _assigned_names(self, st: ast.AST) -> Dict[str, int]:
        out: Dict[str, int] = {}
        for n in astq.walk_no_nested(st) if not isinstance(st, (ast.FunctionDef, ast.ClassDef)) else []:
            tg = []
            if isinstance(n, ast.Assign):
                tg = n.targets
            elif isinstance(n, (ast.AugAssign, ast.AnnAssign)):
                tg = [n.target]
            elif isinstance(n, (ast.For, ast.AsyncFor)):
                tg = [n.target]
            elif isinstance(n, ast.With):
                tg = [i.optional_vars for i in n.items if i.optional_vars is not None]
            elif isinstance(n, ast.NamedExpr):
                tg = [n.target]
            for t in tg:
                for nm in astq.target_names(t):
                    out[nm] = out.get(nm, 0) + 1
        return out

    def reaching(self, name: str, at: ast.stmt) -> Optional[ast.expr]:
        """Value expression of the unique simple assignment `name = e` that reaches `at` on every path."""
        cur: ast.AST = at
        while id(cur) in self.block_of:
            bid, blk, i = self.block_of[id(cur)]
            for k in range(i - 1, -1, -1):
                st = blk[k]
                names = self._assigned_names(st)
                if name in names:
                    if isinstance(st, ast.Assign) and len(st.targets) == 1 and isinstance(st.targets[0], ast.Name) and st.targets[0].id == name:
                        return st.value
                    if isinstance(st, ast.AnnAssign) and isinstance(st.target, ast.Name) and st.target.id == name and st.value is not None:
                        return st.value
                    if isinstance(st, ast.Assign) and len(st.targets) == 1 and isinstance(st.targets[0], (ast.Tuple, ast.List)):
                        elts = st.targets[0].elts
                        for i, e in enumerate(elts):
                            if isinstance(e, ast.Name) and e.id == name and not any(isinstance(x, ast.Starred) for x in elts):
                                if isinstance(st.value, (ast.Tuple, ast.List)) and len(st.value.elts) == len(elts):
                                    return st.value.elts[i]
                                return ast.copy_location(ast.Subscript(value=st.value, slice=ast.Constant(value=i), ctx=ast.Load()), st.value)
                    # `if t: name = a  else: name = b` (each branch a single simple assignment of the name, nothing else
                    # assigning it): the definition is the conditional expression `a if t else b`
                    if isinstance(st, ast.If) and st.orelse:
                        a = [x for x in st.body if name in self._assigned_names(x)]
                        b = [x for x in st.orelse if name in self._assigned_names(x)]
                        simple = lambda x: isinstance(x, ast.Assign) and len(x.targets) == 1 and isinstance(x.targets[0], ast.Name) and x.targets[0].id == name
                        if len(a) == 1 and len(b) == 1 and simple(a[0]) and simple(b[0]):
                            return ast.copy_location(ast.IfExp(test=st.test, body=a[0].value, orelse=b[0].value), st)
                    return None  # assigned in a nested construct / augmented: not a unique closed definition
            par = self.parent.get(id(cur))
            if par is None or par is self.func:
                break
            # a loop that re-assigns the name in its body makes the definition before the loop non-unique
            if isinstance(par, (ast.For, ast.While, ast.AsyncFor)):
                if name in self._assigned_names(par):
                    inner = [s for s in ast.walk(par) if s is not at]
                    # assignments later in the loop body reach `at` through the back edge
                    later = False
                    for st in par.body:
                        if name in self._assigned_names(st):
                            later = True
                    if later:
                        return None
            cur = par
        return None

    def inline(self, expr: ast.expr, at: ast.stmt, depth: int = 8, stop: Tuple[str, ...] = ()) -> ast.expr:
        if depth == 0:
            return expr
        e = copy.deepcopy(expr)

        shadow = set()
        for c in ast.walk(e):
            if isinstance(c, (ast.ListComp, ast.SetComp, ast.DictComp, ast.GeneratorExp)):
                for g in c.generators:
                    shadow |= {x.id for x in ast.walk(g.target) if isinstance(x, ast.Name)}
            elif isinstance(c, ast.NamedExpr) and isinstance(c.target, ast.Name):
                shadow.add(c.target.id)

        class Sub(ast.NodeTransformer):
            def visit_Name(s, n: ast.Name):
                if isinstance(n.ctx, ast.Load) and n.id not in stop and n.id not in self.mutated and n.id not in shadow:
                    d = self.reaching(n.id, at)
                    if d is not None:
                        dst = self.stmt_of_value(d)
                        return self.inline(d, dst if dst is not None else at, depth - 1, stop)
                return n

            def visit_Lambda(s, n):
                return n

        return ast.fix_missing_locations(Sub().visit(e))

    def stmt_of_value(self, value: ast.expr) -> Optional[ast.stmt]:
        for sid, (bid, blk, i) in self.block_of.items():
            st = blk[i]
            if isinstance(st, (ast.Assign, ast.AnnAssign)) and st.value is not None and any(n is value for n in ast.walk(st.value)):
                return st
        return None


def _depth(inl: Inliner, st: ast.AST) -> int:
    d = 0
    cur = st
    while id(cur) in inl.parent:
        cur = inl.parent[id(cur)]
        d += 1
    return d
