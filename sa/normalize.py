"""Semantics-preserving rewrites applied before a rule reads a block (normalisation only, never a verdict).

* split_ifexp:   `f(a if t else b)` as a statement  ->  `if t: f(a) else: f(b)`  (so that sa/paths.py forks on t)
* beta:          `(lambda x: E)(A)` -> E[x:=A];  `factory(K)(A)` where `def factory(p): return lambda x: E` -> E[p:=K, x:=A]
* unroll_tables: `for a, b in TABLE: body` with TABLE a literal (or module-level constant) tuple/list of tuples -> body[a,b := row] per row
* lambdaize:     a nested `def f(x): return E` used only as a value -> `lambda x: E` at its uses
* backward_slice: the statements of a block a set of names depends on
"""
from __future__ import annotations

import ast
import copy
from typing import Dict, List, Optional, Sequence, Set


def _pure_simple(e: ast.AST) -> bool:
    if isinstance(e, (ast.Name, ast.Constant)):
        return True
    if isinstance(e, ast.Attribute):
        return _pure_simple(e.value)
    if isinstance(e, ast.Subscript):
        return _pure_simple(e.value) and _pure_simple(e.slice)
    if isinstance(e, (ast.Tuple, ast.List)):
        return all(_pure_simple(x) for x in e.elts)
    return False


def split_ifexp(block: Sequence[ast.stmt]) -> List[ast.stmt]:
    """Expression statements `recv.method(..., X if T else Y, ...)` (everything else simple) become if/else statements; recursive
    through if/for/while/with/try bodies."""
    out: List[ast.stmt] = []
    for st in block:
        if isinstance(st, ast.Expr) and isinstance(st.value, ast.Call):
            c = st.value
            idx = [k for k, a in enumerate(c.args) if isinstance(a, ast.IfExp)]
            others_ok = all(_pure_simple(a) for k, a in enumerate(c.args) if k not in idx) and _pure_simple(c.func) and not c.keywords
            if len(idx) == 1 and others_ok and not isinstance(c.args[idx[0]].body, ast.IfExp) and not isinstance(c.args[idx[0]].orelse, ast.IfExp):
                ie = c.args[idx[0]]

                def variant(val: ast.expr) -> ast.stmt:
                    c2 = copy.copy(c)
                    c2.args = list(c.args)
                    c2.args[idx[0]] = val
                    return ast.copy_location(ast.Expr(value=ast.copy_location(c2, c)), st)

                out.append(ast.copy_location(ast.If(test=ie.test, body=[variant(ie.body)], orelse=[variant(ie.orelse)]), st))
                continue
        new = st
        for fld in ("body", "orelse", "finalbody"):
            b = getattr(st, fld, None)
            if isinstance(b, list) and b and isinstance(b[0], ast.stmt):
                if new is st:
                    new = copy.copy(st)
                setattr(new, fld, split_ifexp(b))
        out.append(new)
    return out


class _Sub(ast.NodeTransformer):
    def __init__(self, env: Dict[str, ast.AST]):
        self.env = env

    def visit_Name(self, n: ast.Name):
        if isinstance(n.ctx, ast.Load) and n.id in self.env:
            return copy.deepcopy(self.env[n.id])
        return n

    def visit_Lambda(self, n: ast.Lambda):
        shadow = {a.arg for a in n.args.args}
        inner = _Sub({k: v for k, v in self.env.items() if k not in shadow})
        n.body = inner.visit(n.body)
        return n

    def _comp(self, n):
        shadow = {x.id for g in n.generators for x in ast.walk(g.target) if isinstance(x, ast.Name)}
        for g in n.generators:
            g.iter = self.visit(g.iter)
        inner = _Sub({k: v for k, v in self.env.items() if k not in shadow})
        for g in n.generators:
            g.ifs = [inner.visit(c) for c in g.ifs]
        if isinstance(n, ast.DictComp):
            n.key, n.value = inner.visit(n.key), inner.visit(n.value)
        else:
            n.elt = inner.visit(n.elt)
        return n

    visit_ListComp = visit_SetComp = visit_DictComp = visit_GeneratorExp = _comp


def substitute(e: ast.AST, env: Dict[str, ast.AST]) -> ast.AST:
    return ast.fix_missing_locations(_Sub(env).visit(copy.deepcopy(e)))


def _lambda_of(fdef: ast.FunctionDef) -> Optional[ast.Lambda]:
    body = [s for s in fdef.body if not (isinstance(s, ast.Expr) and isinstance(s.value, ast.Constant))]
    a = fdef.args
    if len(body) != 1 or not isinstance(body[0], ast.Return) or body[0].value is None or a.vararg or a.kwarg or a.kwonlyargs or a.defaults or a.posonlyargs:
        return None
    return ast.Lambda(args=ast.arguments(posonlyargs=[], args=[ast.arg(arg=p.arg) for p in a.args], kwonlyargs=[], kw_defaults=[], defaults=[]), body=copy.deepcopy(body[0].value))


def beta(e: ast.AST, funcs: Optional[Dict[str, ast.FunctionDef]] = None, consts: Optional[Dict[str, ast.AST]] = None) -> ast.AST:
    """Reduce applications whose function is statically known: a lambda, a single-return function of `funcs`
    (also a closure factory `def f(p): return lambda x: E`), a name bound to one of those in `consts`."""
    funcs = funcs or {}
    consts = consts or {}

    def resolve(f: ast.AST, depth: int = 0) -> Optional[ast.Lambda]:
        if depth > 6:
            return None
        if isinstance(f, ast.Lambda):
            return f
        if isinstance(f, ast.Name):
            if f.id in funcs:
                return _lambda_of(funcs[f.id])
            if f.id in consts:
                return resolve(consts[f.id], depth + 1)
        if isinstance(f, ast.Call):
            r = apply(f, depth + 1)
            if r is not None and isinstance(r, ast.Lambda):
                return r
        return None

    def apply(c: ast.Call, depth: int = 0) -> Optional[ast.AST]:
        lam = resolve(c.func, depth)
        if lam is None or c.keywords or any(isinstance(a, ast.Starred) for a in c.args):
            return None
        params = [a.arg for a in lam.args.args]
        if len(params) != len(c.args) or lam.args.vararg or lam.args.kwarg or lam.args.defaults or lam.args.kwonlyargs:
            return None
        return substitute(lam.body, dict(zip(params, c.args)))

    class _B(ast.NodeTransformer):
        def visit_Call(self, n: ast.Call):
            self.generic_visit(n)
            r = apply(n)
            if r is not None:
                return _B().visit(r)
            return n

    return ast.fix_missing_locations(_B().visit(copy.deepcopy(e)))


def unroll_tables(block: Sequence[ast.stmt], consts: Optional[Dict[str, ast.AST]] = None, max_rows: int = 12) -> List[ast.stmt]:
    """`for <names> in <literal tuple/list | module constant bound to one>: body` without break/continue/else is replaced by
    one copy of the body per row with the loop names substituted.  `return` inside the body is fine (the copies are sequential)."""
    consts = consts or {}
    out: List[ast.stmt] = []
    for st in block:
        if isinstance(st, ast.For) and not st.orelse:
            it = st.iter
            if isinstance(it, ast.Name) and it.id in consts:
                it = consts[it.id]
            names: List[str] = []
            tgt = st.target
            flat_ok = isinstance(tgt, ast.Name) or (isinstance(tgt, ast.Tuple) and all(isinstance(x, ast.Name) for x in tgt.elts))
            if isinstance(it, (ast.Tuple, ast.List)) and 0 < len(it.elts) <= max_rows and flat_ok and not any(isinstance(n, (ast.Break, ast.Continue)) for b in st.body for n in ast.walk(b)):
                names = [tgt.id] if isinstance(tgt, ast.Name) else [x.id for x in tgt.elts]
                stored = {n.id for b in st.body for n in ast.walk(b) if isinstance(n, ast.Name) and isinstance(n.ctx, ast.Store)}
                rows_ok = all(isinstance(tgt, ast.Name) or (isinstance(r, (ast.Tuple, ast.List)) and len(r.elts) == len(names)) for r in it.elts)
                if rows_ok and not (stored & set(names)):
                    for r in it.elts:
                        env = {names[0]: r} if isinstance(tgt, ast.Name) else dict(zip(names, r.elts))
                        for b in st.body:
                            nb = substitute(b, env)
                            ast.copy_location(nb, b)
                            out.append(nb)
                    continue
        new = st
        if isinstance(st, ast.If):
            new = copy.copy(st)
            new.body = unroll_tables(st.body, consts, max_rows)
            new.orelse = unroll_tables(st.orelse, consts, max_rows)
        out.append(new)
    return out


def beta_block(block: Sequence[ast.stmt], funcs: Optional[Dict[str, ast.FunctionDef]] = None, consts: Optional[Dict[str, ast.AST]] = None) -> List[ast.stmt]:
    """beta() on the expressions of every statement of the block (tests, values, call statements), recursively."""

    class _T(ast.NodeTransformer):
        def visit_Call(self, n: ast.Call):
            return beta(n, funcs, consts)

    return [ast.fix_missing_locations(_T().visit(copy.deepcopy(s))) for s in block]


def lambdaize(fn: ast.AST) -> Dict[str, ast.Lambda]:
    """Nested single-return defs of fn as lambdas (name -> lambda), for substitution at their uses."""
    out: Dict[str, ast.Lambda] = {}
    for n in ast.walk(fn):
        if isinstance(n, ast.FunctionDef) and n is not fn:
            lam = _lambda_of(n)
            if lam is not None and _closure_stable(fn, n):
                out[n.name] = lam
    return out


def _closure_stable(fn: ast.AST, inner: ast.FunctionDef) -> bool:
    """The free names of `inner` are bound once in `fn` (parameters, or a single plain assignment outside any loop), and the name
    of `inner` itself is bound only by its def: replacing a use of the closure by its body then reads the same values."""
    params = {a.arg for a in inner.args.args}
    free = {x.id for b in inner.body for x in ast.walk(b) if isinstance(x, ast.Name) and isinstance(x.ctx, ast.Load)} - params
    stores: Dict[str, int] = {}
    in_loop: Set[str] = set()

    def walk(node: ast.AST, loop: bool) -> None:
        for ch in ast.iter_child_nodes(node):
            if ch is inner:
                continue
            if isinstance(ch, ast.Name) and isinstance(ch.ctx, (ast.Store, ast.Del)):
                stores[ch.id] = stores.get(ch.id, 0) + 1
                if loop:
                    in_loop.add(ch.id)
            if isinstance(ch, (ast.FunctionDef, ast.ClassDef)) and ch is not inner:
                stores[ch.name] = stores.get(ch.name, 0) + 1
            walk(ch, loop or isinstance(ch, (ast.For, ast.While, ast.comprehension)))

    walk(fn, False)
    fparams = {a.arg for a in getattr(getattr(fn, "args", None), "args", [])}
    for name in free:
        k = stores.get(name, 0)
        if name in fparams and k == 0:
            continue
        if name not in fparams and k <= 1 and name not in in_loop:
            continue
        return False
    return stores.get(inner.name, 0) == 0


def alpha(lam: ast.Lambda, names: Sequence[str]) -> ast.Lambda:
    """The lambda with its parameters renamed to `names` (for comparison up to parameter names)."""
    params = [a.arg for a in lam.args.args]
    if len(params) != len(names):
        return lam
    body = substitute(lam.body, {p: ast.Name(id=n, ctx=ast.Load()) for p, n in zip(params, names)})
    return ast.Lambda(args=ast.arguments(posonlyargs=[], args=[ast.arg(arg=n) for n in names], kwonlyargs=[], kw_defaults=[], defaults=[]), body=body)


def stored_names(st: ast.AST) -> Set[str]:
    out: Set[str] = set()
    for n in ast.walk(st):
        if isinstance(n, ast.Name) and isinstance(n.ctx, (ast.Store, ast.Del)):
            out.add(n.id)
        elif isinstance(n, (ast.Subscript, ast.Attribute)) and isinstance(n.ctx, (ast.Store, ast.Del)):
            b = n.value
            while isinstance(b, (ast.Subscript, ast.Attribute)):
                b = b.value
            if isinstance(b, ast.Name):
                out.add(b.id)
        elif isinstance(n, ast.Call) and isinstance(n.func, ast.Attribute) and n.func.attr in ("append", "extend", "add", "update", "setdefault", "pop", "remove", "discard", "insert", "clear"):
            b = n.func.value
            while isinstance(b, (ast.Subscript, ast.Attribute)):
                b = b.value
            if isinstance(b, ast.Name):
                out.add(b.id)
    return out


def loaded_names(st: ast.AST) -> Set[str]:
    return {n.id for n in ast.walk(st) if isinstance(n, ast.Name) and isinstance(n.ctx, ast.Load)}


def backward_slice(block: Sequence[ast.stmt], upto: int, names: Set[str], stop: Sequence[str] = ()) -> List[ast.stmt]:
    """Statements of block[:upto] (in order) that the values of `names` at position `upto` may depend on (whole compound
    statements are kept when anything inside them stores a needed name).  Names in `stop` are inputs: not followed."""
    need = set(names) - set(stop)
    keep: List[int] = []
    for k in range(upto - 1, -1, -1):
        st = block[k]
        if isinstance(st, (ast.FunctionDef, ast.ClassDef)):
            if st.name in need:
                keep.append(k)
                need |= loaded_names(st) - set(stop)
            continue
        if stored_names(st) & need:
            keep.append(k)
            need |= loaded_names(st) - set(stop)
    return [block[k] for k in sorted(keep)]


def merge_default_override(block: Sequence[ast.stmt]) -> List[ast.stmt]:
    """`x = A` directly followed by `if t: x = B` (no else, t does not read x, A a constant or name)  ->  `x = B if t else A`."""
    out: List[ast.stmt] = []
    k = 0
    block = list(block)
    while k < len(block):
        st = block[k]
        nxt = block[k + 1] if k + 1 < len(block) else None
        if (
            isinstance(st, ast.Assign)
            and len(st.targets) == 1
            and isinstance(st.targets[0], ast.Name)
            and isinstance(st.value, (ast.Constant, ast.Name))
            and isinstance(nxt, ast.If)
            and not nxt.orelse
            and len(nxt.body) == 1
            and isinstance(nxt.body[0], ast.Assign)
            and len(nxt.body[0].targets) == 1
            and isinstance(nxt.body[0].targets[0], ast.Name)
            and nxt.body[0].targets[0].id == st.targets[0].id
            and st.targets[0].id not in loaded_names(nxt.test)
        ):
            merged = ast.Assign(targets=[ast.Name(id=st.targets[0].id, ctx=ast.Store())], value=ast.IfExp(test=nxt.test, body=nxt.body[0].value, orelse=st.value))
            out.append(ast.fix_missing_locations(ast.copy_location(merged, nxt)))
            k += 2
            continue
        out.append(st)
        k += 1
    return out


def inline_local_lambdas(fn: ast.FunctionDef) -> ast.FunctionDef:
    """A copy of fn in which nested single-return defs are removed and their uses as values replaced by the equivalent lambda."""
    lams = lambdaize(fn)
    if not lams:
        return fn
    new = copy.deepcopy(fn)

    class _T(ast.NodeTransformer):
        def visit_FunctionDef(self, n: ast.FunctionDef):
            if n is not new and n.name in lams:
                return None
            self.generic_visit(n)
            return n

        def visit_Name(self, n: ast.Name):
            if isinstance(n.ctx, ast.Load) and n.id in lams:
                return copy.deepcopy(lams[n.id])
            return n

    new = _T().visit(new)
    return ast.fix_missing_locations(new)
