"""A12: algebraic normal form for straight-line vector code (torsion angles).

Values are Laurent polynomials over the 12 coordinates of four points and a few *positive* symbols (norms of
vectors, fresh positive scale factors from `v / |v| if ... else v`).  norm(c*v) = c*norm(v) for positive c,
norm(v)^2 reduces to v.v.  Two expressions are equal iff their difference reduces to the zero polynomial after
clearing negative exponents.  Hand-rolled dictionary polynomials with exact Fractions; no CAS, no solver, nothing
from the repository is executed: the function body is read statement by statement.
"""
from __future__ import annotations

import ast
import itertools
from fractions import Fraction
from typing import Any, Dict, List, Optional, Tuple

Poly = Dict[Tuple, Fraction]


class AlgebraError(Exception):
    pass


def P(c=0) -> Poly:
    return {(): Fraction(c)} if c else {}


def var(v: str) -> Poly:
    return {((v, 1),): Fraction(1)}


def add(a: Poly, b: Poly, s=1) -> Poly:
    r = dict(a)
    for m, c in b.items():
        r[m] = r.get(m, 0) + s * c
        if r[m] == 0:
            del r[m]
    return r


def mmul(m1, m2):
    d = dict(m1)
    for v, e in m2:
        d[v] = d.get(v, 0) + e
        if d[v] == 0:
            del d[v]
    return tuple(sorted(d.items()))


def mul(a: Poly, b: Poly) -> Poly:
    r: Poly = {}
    for m1, c1 in a.items():
        for m2, c2 in b.items():
            m = mmul(m1, m2)
            r[m] = r.get(m, 0) + c1 * c2
            if r[m] == 0:
                del r[m]
    return r


def neg(a: Poly) -> Poly:
    return {m: -c for m, c in a.items()}


class Vec:
    def __init__(self, c):
        self.c = list(c)


class Algebra:
    def __init__(self):
        self.POS: set = set()
        self.NORMSQ: Dict[str, Poly] = {}
        self.ATOMS: Dict[Any, str] = {}
        self.fresh = itertools.count()

    # -- vectors -----------------------------------------------------------------
    def vsub(self, a: Vec, b: Vec) -> Vec:
        return Vec(add(x, y, -1) for x, y in zip(a.c, b.c))

    def vadd(self, a: Vec, b: Vec) -> Vec:
        return Vec(add(x, y) for x, y in zip(a.c, b.c))

    def vscale(self, a: Vec, s: Poly) -> Vec:
        return Vec(mul(x, s) for x in a.c)

    def cross(self, a: Vec, b: Vec) -> Vec:
        ax, ay, az = a.c
        bx, by, bz = b.c
        return Vec([add(mul(ay, bz), mul(az, by), -1), add(mul(az, bx), mul(ax, bz), -1), add(mul(ax, by), mul(ay, bx), -1)])

    def dot(self, a: Vec, b: Vec) -> Poly:
        r: Poly = {}
        for x, y in zip(a.c, b.c):
            r = add(r, mul(x, y))
        return r

    def split_pos(self, m):
        return tuple((v, e) for v, e in m if v in self.POS), tuple((v, e) for v, e in m if v not in self.POS)

    def factor_vec(self, v: Vec):
        monos = set()
        for comp in v.c:
            for m in comp:
                monos.add(self.split_pos(m)[0])
        if len(monos) > 1:
            return None
        pm = monos.pop() if monos else ()
        q = Vec({self.split_pos(m)[1]: c for m, c in comp.items()} for comp in v.c)
        return pm, q

    @staticmethod
    def canon(q: Vec):
        return tuple(tuple(sorted(c.items())) for c in q.c)

    def norm(self, v: Vec) -> Poly:
        f = self.factor_vec(v)
        if not f:
            raise AlgebraError("norm of a vector that is not (positive monomial) x (coordinate polynomial vector)")
        pm, q = f
        # rational content: |g * w| = g |w| for a positive rational g, so 2 * v, v / 2 and v share the atom |v|
        g = None
        for comp in q.c:
            for m in sorted(comp):
                g = abs(comp[m])
                break
            if g is not None:
                break
        if g is not None and g != 1:
            q = Vec({m: c / g for m, c in comp.items()} for comp in q.c)
            pm_poly = {pm: Fraction(g)}
        else:
            pm_poly = {pm: Fraction(1)}
        key, nkey = self.canon(q), self.canon(Vec(neg(c) for c in q.c))
        k = min(key, nkey)
        if k not in self.ATOMS:
            name = f"N{len(self.ATOMS)}"
            self.ATOMS[k] = name
            self.POS.add(name)
            self.NORMSQ[name] = self.dot(q, q)
        return mul(pm_poly, var(self.ATOMS[k]))

    def join_pos_scaled(self, a: Vec, b: Vec) -> Vec:
        fa, fb = self.factor_vec(a), self.factor_vec(b)
        if not (fa and fb and self.canon(fa[1]) == self.canon(fb[1])):
            raise AlgebraError("conditional expression whose branches are not positive multiples of the same vector")
        c = f"C{next(self.fresh)}"
        self.POS.add(c)
        return self.vscale(fa[1], var(c))

    # -- identities -------------------------------------------------------------------
    def reduce(self, p: Poly) -> Poly:
        changed = True
        while changed:
            changed = False
            r: Poly = {}
            for m, c in p.items():
                d = dict(m)
                done = False
                for v, e in m:
                    if v in self.NORMSQ and e >= 2:
                        d[v] = e - 2
                        if d[v] == 0:
                            del d[v]
                        r = add(r, mul({tuple(sorted(d.items())): c}, self.NORMSQ[v]))
                        done = True
                        changed = True
                        break
                if not done:
                    r = add(r, {m: c})
            p = r
        return p

    @staticmethod
    def clear_neg(p: Poly) -> Poly:
        need: Dict[str, int] = {}
        for m in p:
            for v, e in m:
                if e < 0:
                    need[v] = max(need.get(v, 0), -e)
        return mul(p, {tuple(sorted(need.items())): Fraction(1)})

    def is_zero(self, p: Poly) -> bool:
        return not self.reduce(self.clear_neg(p))

    # -- interpretation ------------------------------------------------------------------
    def ev(self, e: ast.AST, env: Dict[str, Any]) -> Any:
        if isinstance(e, ast.Name):
            if e.id not in env:
                raise AlgebraError(f"name `{e.id}` has no algebraic value")
            return env[e.id]
        if isinstance(e, ast.Constant) and isinstance(e.value, (int, float)) and not isinstance(e.value, bool):
            return P(Fraction(e.value).limit_denominator(10**9))
        if isinstance(e, ast.UnaryOp) and isinstance(e.op, ast.USub):
            x = self.ev(e.operand, env)
            return Vec(neg(c) for c in x.c) if isinstance(x, Vec) else neg(x)
        if isinstance(e, ast.BinOp):
            a, b = self.ev(e.left, env), self.ev(e.right, env)
            if isinstance(e.op, ast.Sub):
                return self.vsub(a, b) if isinstance(a, Vec) and isinstance(b, Vec) else add(a, b, -1)
            if isinstance(e.op, ast.Add):
                return self.vadd(a, b) if isinstance(a, Vec) and isinstance(b, Vec) else add(a, b)
            if isinstance(e.op, ast.Mult):
                if isinstance(a, Vec) and not isinstance(b, Vec):
                    return self.vscale(a, b)
                if isinstance(b, Vec) and not isinstance(a, Vec):
                    return self.vscale(b, a)
                if isinstance(a, Vec) or isinstance(b, Vec):
                    raise AlgebraError("component-wise product of two vectors")
                return mul(a, b)
            if isinstance(e.op, ast.Div):
                if isinstance(b, Vec) or len(b) != 1:
                    raise AlgebraError("division by something that is not a positive monomial")
                ((m, c),) = b.items()
                if not (all(v in self.POS for v, _ in m) and c > 0):
                    raise AlgebraError("division by a quantity not known to be positive")
                inv = {tuple((v, -x) for v, x in m): 1 / c}
                return self.vscale(a, inv) if isinstance(a, Vec) else mul(a, inv)
        if isinstance(e, ast.Call):
            name = ast.unparse(e.func)
            args = [self.ev(a, env) for a in e.args]
            if name.endswith(".cross") and len(args) == 2:
                return self.cross(*args)
            if name.endswith(".dot") and len(args) == 2:
                return self.dot(*args)
            if name.endswith("linalg.norm") and len(args) == 1:
                return self.norm(args[0])
            if name.endswith(".clip"):
                return args[0]  # clipping to [-1, 1] only acts on round-off of a normalised cosine
            if name in ("float",) and len(args) == 1:
                return args[0]
        if isinstance(e, ast.IfExp):
            return self.join_pos_scaled(self.ev(e.body, env), self.ev(e.orelse, env))
        raise AlgebraError(f"expression outside the vector algebra: {ast.unparse(e)[:60]}")


def analyse_torsion(fn: ast.FunctionDef) -> Dict[str, Any]:
    """Compare the atan2(y, x) of a torsion function with the IUPAC closed form
    y_ref = |b2| det(b1,b2,b3),  x_ref = (b1 x b2).(b2 x b3)."""
    alg = Algebra()
    pnames = [a.arg for a in fn.args.args][:4]
    if len(pnames) != 4:
        raise AlgebraError("torsion function does not take four points")
    pts = {p: Vec(var(f"{p}{ax}") for ax in "xyz") for p in pnames}
    at = [c for c in ast.walk(fn) if isinstance(c, ast.Call) and ast.unparse(c.func).endswith(("atan2", "arctan2"))]
    if len(at) != 1 or len(at[0].args) != 2:
        raise AlgebraError("expected exactly one atan2(y, x)")
    env: Dict[str, Any] = dict(pts)
    guards: List[ast.If] = []
    at_stmt = None
    for st in fn.body:
        if any(c is at[0] for c in ast.walk(st)):
            at_stmt = st
            break
        if isinstance(st, ast.Expr):
            continue
        if isinstance(st, ast.Assign) and len(st.targets) == 1 and isinstance(st.targets[0], ast.Name):
            env[st.targets[0].id] = alg.ev(st.value, env)
        elif isinstance(st, ast.If):
            guards.append(st)
        else:
            raise AlgebraError(f"statement outside the straight-line idiom: {ast.unparse(st)[:60]}")
    y = alg.ev(at[0].args[0], env)
    x = alg.ev(at[0].args[1], env)
    p1, p2, p3, p4 = [pts[p] for p in pnames]
    b1, b2, b3 = alg.vsub(p2, p1), alg.vsub(p3, p2), alg.vsub(p4, p3)
    yref = mul(alg.norm(b2), alg.dot(b1, alg.cross(b2, b3)))
    xref = alg.dot(alg.cross(b1, b2), alg.cross(b2, b3))
    same = alg.is_zero(add(mul(y, xref), mul(x, yref), -1))
    negated = alg.is_zero(add(mul(y, xref), mul(x, yref)))
    monos = {alg.split_pos(m)[0] for m in x}
    x_pos = None
    if len(monos) == 1:
        pm = monos.pop()
        x_pos = alg.is_zero(add(x, mul({pm: Fraction(1)}, xref), -1))
        x_neg = alg.is_zero(add(x, mul({pm: Fraction(1)}, xref)))
    else:
        x_neg = None
    return {"same_ratio": same, "negated_ratio": negated, "x_positive_multiple": x_pos, "x_negative_multiple": x_neg, "norm_atoms": len(alg.ATOMS), "guards": guards, "atan2_stmt": at_stmt, "atan2": at[0]}
