"""A4: accept regions of threshold guards (piecewise-constant predicates over real quantities).

A guard that compares quantities q1..qn with constants (chained or not, combined with and/or/not) is constant
on every cell of the grid spanned by its thresholds.  It is evaluated at one sample per open cell - an exact,
finite abstract domain - and compared with the reference predicate on the same samples.  Thresholds themselves
(measure zero; the properties declare a 1e-6 undecided band) are not sampled, so `<` vs `<=` is not a report.
Units: a quantity declared radian-valued gets radians(sample); math.degrees/math.radians are applied numerically.
"""
from __future__ import annotations

import ast
import itertools
import math
from typing import Callable, Dict, List, Optional, Sequence, Tuple


class NotThreshold(Exception):
    pass


_CMP = {
    ast.Lt: lambda a, b: a < b,
    ast.LtE: lambda a, b: a <= b,
    ast.Gt: lambda a, b: a > b,
    ast.GtE: lambda a, b: a >= b,
    ast.Eq: lambda a, b: a == b,
    ast.NotEq: lambda a, b: a != b,
}


def evaluate(expr: ast.AST, leaf: Callable[[ast.AST], Optional[float]], fold: Callable[[ast.AST], float]):
    """Numeric/boolean value of expr; `leaf` gives the value of quantity leaves (None: not a quantity)."""
    v = leaf(expr)
    if v is not None:
        return v
    if isinstance(expr, ast.BoolOp):
        vals = [evaluate(x, leaf, fold) for x in expr.values]
        return all(vals) if isinstance(expr.op, ast.And) else any(vals)
    if isinstance(expr, ast.UnaryOp):
        x = evaluate(expr.operand, leaf, fold)
        if isinstance(expr.op, ast.Not):
            return not x
        if isinstance(expr.op, ast.USub):
            return -x
        if isinstance(expr.op, ast.UAdd):
            return x
    if isinstance(expr, ast.Compare):
        left = evaluate(expr.left, leaf, fold)
        for op, c in zip(expr.ops, expr.comparators):
            right = evaluate(c, leaf, fold)
            f = _CMP.get(type(op))
            if f is None:
                raise NotThreshold(f"operator {type(op).__name__}")
            if not f(left, right):
                return False
            left = right
        return True
    if isinstance(expr, ast.IfExp):
        return evaluate(expr.body, leaf, fold) if evaluate(expr.test, leaf, fold) else evaluate(expr.orelse, leaf, fold)
    if isinstance(expr, ast.BinOp) and isinstance(expr.op, (ast.Add, ast.Sub, ast.Mult, ast.Div)):
        a, b = evaluate(expr.left, leaf, fold), evaluate(expr.right, leaf, fold)
        return {ast.Add: a + b, ast.Sub: a - b, ast.Mult: a * b, ast.Div: a / b if b else math.inf}[type(expr.op)]
    if isinstance(expr, ast.Call):
        d = ast.unparse(expr.func)
        if d in ("math.degrees", "numpy.degrees", "np.degrees", "numpy.rad2deg", "np.rad2deg") and len(expr.args) == 1:
            return math.degrees(evaluate(expr.args[0], leaf, fold))
        if d in ("math.radians", "numpy.radians", "np.radians", "numpy.deg2rad", "np.deg2rad") and len(expr.args) == 1:
            return math.radians(evaluate(expr.args[0], leaf, fold))
        if d == "abs" and len(expr.args) == 1:
            return abs(evaluate(expr.args[0], leaf, fold))
        if d in ("min", "max") and expr.args:
            xs = expr.args[0].elts if len(expr.args) == 1 and isinstance(expr.args[0], (ast.List, ast.Tuple)) else expr.args
            vals = [evaluate(x, leaf, fold) for x in xs]
            return min(vals) if d == "min" else max(vals)
    try:
        return fold(expr)
    except Exception as ex:
        raise NotThreshold(f"cannot evaluate `{ast.unparse(expr)[:60]}`: {ex}")


def constants_in(expr: ast.AST, is_leaf: Callable[[ast.AST], bool], fold: Callable[[ast.AST], float]) -> List[float]:
    """Folded values of the maximal quantity-free numeric sub-expressions that are compared with something."""
    out: List[float] = []

    def has_leaf(n: ast.AST) -> bool:
        return any(is_leaf(x) for x in ast.walk(n))

    for n in ast.walk(expr):
        if isinstance(n, ast.Compare):
            for side in [n.left] + list(n.comparators):
                if not has_leaf(side):
                    try:
                        v = fold(side)
                        if isinstance(v, (int, float)) and not isinstance(v, bool):
                            out.append(float(v))
                    except Exception:
                        pass
    return out


def cells(thresholds: Sequence[float]) -> List[float]:
    ts = sorted(set(round(t, 9) for t in thresholds if math.isfinite(t)))
    if not ts:
        return [0.0]
    pts = [ts[0] - 1.0]
    for a, b in zip(ts, ts[1:]):
        pts.append((a + b) / 2.0)
    pts.append(ts[-1] + 1.0)
    return pts


def region(
    expr: ast.AST,
    quantities: Sequence[Tuple[Callable[[ast.AST], bool], str]],
    fold: Callable[[ast.AST], float],
    extra_thresholds: Sequence[float] = (),
    negate: bool = False,
) -> Dict[Tuple[float, ...], bool]:
    """Truth of expr on one sample per cell; quantities = [(leaf predicate, unit 'deg'|'rad'|'raw')], samples are in
    the canonical unit (degrees for angles)."""
    def any_leaf(n):
        return any(p(n) for p, _ in quantities)

    cs = constants_in(expr, any_leaf, fold)
    ths = list(extra_thresholds)
    for c in cs:
        ths += [c, math.degrees(c), math.radians(c)] if any(u != "raw" for _, u in quantities) else [c]
        if any(u == "cos" for _, u in quantities) and -1.0 <= c <= 1.0:
            # a cosine compared with c changes sign at the angles acos(c) and acos(-c) (abs(), negated operands)
            ths += [math.degrees(math.acos(c)), math.degrees(math.acos(-c))]
    pts = cells(ths)
    out: Dict[Tuple[float, ...], bool] = {}
    for combo in itertools.product(pts, repeat=len(quantities)):
        def leaf(n, combo=combo):
            for (p, unit), s in zip(quantities, combo):
                if p(n):
                    # 'rad': the quantity is the angle in radians; 'cos': the quantity is the cosine of the angle (sample in degrees)
                    return math.radians(s) if unit == "rad" else (math.cos(math.radians(s)) if unit == "cos" else s)
            return None

        v = bool(evaluate(expr, leaf, fold))
        out[combo] = (not v) if negate else v
    return out
