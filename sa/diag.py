"""Cross-cutting rule `diagnostic-purity` (round 6).

Whatever is evaluated only to produce a log message must not change an object that outlives the message: the argument of a
`logging` call is evaluated whatever the log level is, and a helper that exists for the log must leave its arguments as it
found them.  Three seeded faults of round 6 are instances (a `readline()` for the message eats the first line of the input;
a read of a `defaultdict` for the message creates the entry the report then prints; an in-place unit conversion for the
message rewrites the table that is returned) - none of them is visible in the value any test looks at, and each property
that talks about the function's result is broken by them.

What is read, from the ast only:

* loggers: the `logging` module and every name bound to `logging.getLogger(...)`; also `warnings.warn`;
* diagnostic contexts: (a) the argument expressions of a logging call; (b) the body of an `if` whose test asks the logger
  (`isEnabledFor`, `getEffectiveLevel`, `.level`); (c) the body of a *diagnostic-only* function: one with at least one
  call site, all of whose call sites in the package lie in diagnostic contexts (fixpoint);
* effects in a diagnostic context, on an object that is not *fresh* there (fresh = bound in that very context/function to a
  literal, a comprehension, a constructor or copying call, an arithmetic result, a string operation):
    - a consuming or mutating method (`readline`, `read`, `pop`, `append`, `sort`, `seek`, ...), `next(x)`, `setattr`;
    - a store / augmented store through a subscript or attribute, and an augmented assignment to a name that aliases a
      non-fresh array (`values = df[c].to_numpy(); values *= k`);
    - a subscript *read* of a `defaultdict` (it inserts), unless the key is drawn from the container itself;
    - one level of callee: a package function called from the context that consumes / mutates one of its parameters.

The rule is attributed to a property through the reachability relation of sa/memo.py (the function that holds the context,
or for a diagnostic-only helper the functions that call it).
"""
from __future__ import annotations

import ast
from typing import Dict, Iterable, List, Optional, Set, Tuple

from . import astq
from .model import FuncInfo, Repo, norm

LEVELS = {"debug", "info", "warning", "warn", "error", "exception", "critical", "log"}
ASK = {"isEnabledFor", "getEffectiveLevel"}

CONSUME = {
    "readline", "read", "readlines", "seek", "truncate", "close", "pop", "popitem", "popleft", "append", "appendleft", "extend", "add", "update", "remove",
    "discard", "clear", "sort", "reverse", "insert", "setdefault", "__next__", "send", "resize", "fill", "itemset", "put", "setflags", "drop_duplicates_inplace",
    "difference_update", "intersection_update", "symmetric_difference_update", "rotate", "write", "writelines", "flush", "__setitem__", "__delitem__",
}
# calls that hand out a new object (the result can be changed without touching anything else)
FRESH_CALLS = {
    "list", "dict", "set", "frozenset", "tuple", "sorted", "str", "repr", "int", "float", "bool", "len", "sum", "min", "max", "abs", "round", "range", "enumerate", "zip", "map", "filter",
    "reversed", "Counter", "defaultdict", "OrderedDict", "deque", "array", "zeros", "ones", "empty", "full", "arange", "linspace", "copy", "deepcopy", "format", "join", "isnan",
    "degrees", "radians", "rad2deg", "deg2rad", "concatenate", "stack", "vstack", "hstack", "where", "unique", "mean", "std", "DataFrame", "Series", "getattr", "type", "isinstance",
    "strip", "lstrip", "rstrip", "split", "decode", "encode", "lower", "upper", "replace", "startswith", "endswith", "astype", "tolist", "keys", "values_list", "items", "most_common",
    "StringIO", "BytesIO",
}
# attribute reads / calls that hand out a view of (or the very) object they are applied to
VIEW_ATTRS = {"values", "T", "flat", "real", "imag", "array", "iloc", "loc", "at", "iat", "base", "data"}
VIEW_CALLS = {"to_numpy", "asarray", "asanyarray", "view", "reshape", "ravel", "squeeze", "transpose", "swapaxes", "iter", "get", "setdefault", "__getitem__", "ascontiguousarray", "atleast_1d", "atleast_2d"}


def _loggers(tree: ast.Module) -> Set[str]:
    out: Set[str] = set()
    for n in ast.walk(tree):
        if isinstance(n, ast.Import):
            for a in n.names:
                if a.name == "logging":
                    out.add(a.asname or "logging")
        elif isinstance(n, ast.Assign) and isinstance(n.value, ast.Call) and norm(n.value.func).split(".")[-1] == "getLogger":
            for t in n.targets:
                if isinstance(t, ast.Name):
                    out.add(t.id)
    return out


def _is_log_call(n: ast.AST, loggers: Set[str]) -> bool:
    if not (isinstance(n, ast.Call) and isinstance(n.func, ast.Attribute)):
        return False
    f = n.func
    if f.attr in LEVELS and isinstance(f.value, ast.Name) and f.value.id in loggers:
        return True
    if f.attr in LEVELS and isinstance(f.value, ast.Attribute) and f.value.attr in ("logger", "log", "_logger", "_log"):
        return True
    if f.attr == "warn" and isinstance(f.value, ast.Name) and f.value.id == "warnings":
        return True
    return False


def _asks_logger(test: ast.AST, loggers: Set[str]) -> bool:
    for n in ast.walk(test):
        if isinstance(n, ast.Call) and isinstance(n.func, ast.Attribute) and n.func.attr in ASK:
            return True
        if isinstance(n, ast.Attribute) and n.attr == "level" and isinstance(n.value, ast.Name) and n.value.id in loggers:
            return True
    return False


class Context:
    """One diagnostic context: the nodes evaluated for the message, the function that holds it, and the scope in which
    freshness is judged (None: every name belongs to the enclosing function, i.e. nothing named is fresh)."""

    def __init__(self, fi: FuncInfo, nodes: List[ast.AST], kind: str, fresh_scope: Optional[ast.AST], site: ast.AST):
        self.fi, self.nodes, self.kind, self.fresh_scope, self.site = fi, nodes, kind, fresh_scope, site


def _contexts_of(fi: FuncInfo, loggers: Set[str]) -> List[Context]:
    out: List[Context] = []
    for n in astq.walk_no_nested(fi.node):
        if _is_log_call(n, loggers):
            args = list(n.args) + [k.value for k in n.keywords]
            if args:
                out.append(Context(fi, args, "the arguments of a logging call", None, n))
        elif isinstance(n, ast.If) and _asks_logger(n.test, loggers):
            out.append(Context(fi, list(n.body), "a block that runs only when the logger asks for it", None, n))
    return out


def _root(e: ast.AST) -> Optional[str]:
    while isinstance(e, (ast.Attribute, ast.Subscript, ast.Starred)):
        e = e.value
    if isinstance(e, ast.Call) and isinstance(e.func, ast.Attribute) and e.func.attr in VIEW_CALLS:
        return _root(e.func.value)
    return e.id if isinstance(e, ast.Name) else None


def _fresh_expr(e: ast.AST, fresh: Set[str]) -> bool:
    """The value of `e` is a new object nobody else holds (or an immutable scalar/string)."""
    if isinstance(e, (ast.Constant, ast.JoinedStr, ast.List, ast.Tuple, ast.Set, ast.Dict, ast.ListComp, ast.SetComp, ast.DictComp, ast.GeneratorExp, ast.BinOp, ast.UnaryOp, ast.Compare, ast.BoolOp, ast.Lambda)):
        return True
    if isinstance(e, ast.IfExp):
        return _fresh_expr(e.body, fresh) and _fresh_expr(e.orelse, fresh)
    if isinstance(e, ast.Name):
        return e.id in fresh
    if isinstance(e, ast.Call):
        fn = e.func
        name = fn.id if isinstance(fn, ast.Name) else fn.attr if isinstance(fn, ast.Attribute) else None
        if name in VIEW_CALLS:
            return isinstance(fn, ast.Attribute) and _fresh_expr(fn.value, fresh) or (isinstance(fn, ast.Name) and bool(e.args) and _fresh_expr(e.args[0], fresh))
        if name in FRESH_CALLS or (name and name[:1].isupper()):
            return True
        if name in CONSUME:
            return True  # readline() etc. return a new string / element; the *call* is judged as an effect, not its value
        return False
    if isinstance(e, ast.Attribute):
        if e.attr in VIEW_ATTRS:
            return _fresh_expr(e.value, fresh)
        return False
    if isinstance(e, ast.Subscript):
        return _fresh_expr(e.value, fresh)
    return False


def _fresh_names(scope: ast.AST, params: Set[str]) -> Set[str]:
    """Local names of `scope` every binding of which is a fresh value (fixpoint over aliases)."""
    binds: Dict[str, List[Optional[ast.AST]]] = {}
    for n in astq.walk_no_nested(scope):
        if isinstance(n, ast.Assign):
            for t in n.targets:
                if isinstance(t, ast.Name):
                    binds.setdefault(t.id, []).append(n.value)
                else:
                    for nm in astq.target_names(t):
                        binds.setdefault(nm, []).append(None if not isinstance(t, (ast.Tuple, ast.List)) else ast.Constant(value=0) if _fresh_expr(n.value, set()) else None)
        elif isinstance(n, ast.AnnAssign) and isinstance(n.target, ast.Name):
            binds.setdefault(n.target.id, []).append(n.value)
        elif isinstance(n, (ast.For, ast.comprehension)):
            for nm in astq.target_names(n.target):
                # elements of a container: fresh only if the container is a fresh container of scalars; unknown -> not fresh,
                # except loop counters and string keys (range / enumerate / literal lists of constants)
                it = n.iter
                scalar = isinstance(it, ast.Call) and isinstance(it.func, ast.Name) and it.func.id in ("range",) or isinstance(it, (ast.List, ast.Tuple, ast.Set)) and all(isinstance(x, ast.Constant) for x in it.elts)
                binds.setdefault(nm, []).append(ast.Constant(value=0) if scalar else None)
        elif isinstance(n, ast.NamedExpr) and isinstance(n.target, ast.Name):
            binds.setdefault(n.target.id, []).append(n.value)
        elif isinstance(n, (ast.With, ast.AsyncWith)):
            for it in n.items:
                if it.optional_vars is not None:
                    for nm in astq.target_names(it.optional_vars):
                        binds.setdefault(nm, []).append(it.context_expr)
    fresh: Set[str] = set()
    changed = True
    while changed:
        changed = False
        for nm, vals in binds.items():
            if nm in fresh or nm in params:
                continue
            if vals and all(v is not None and _fresh_expr(v, fresh) for v in vals):
                fresh.add(nm)
                changed = True
    return fresh


def _defaultdicts(scope: ast.AST) -> Dict[str, int]:
    """name -> nesting depth of defaultdict levels (defaultdict(lambda: defaultdict(set)) = 2)."""
    out: Dict[str, int] = {}

    def depth(v: ast.AST) -> int:
        if isinstance(v, ast.Call) and norm(v.func).split(".")[-1] == "defaultdict":
            d = 1
            if v.args:
                f = v.args[0]
                if isinstance(f, ast.Lambda):
                    d += depth(f.body)
                elif isinstance(f, ast.Name) and f.id == "defaultdict":
                    d += 1
            return d
        return 0

    for n in ast.walk(scope):
        if isinstance(n, ast.Assign) and len(n.targets) == 1 and isinstance(n.targets[0], ast.Name):
            d = depth(n.value)
            if d:
                out[n.targets[0].id] = max(out.get(n.targets[0].id, 0), d)
    return out


def _key_from_container(sub: ast.Subscript, cont: str, par: Dict[int, ast.AST]) -> bool:
    """The key of cont[key] is a name bound by iterating `cont` itself (for k in cont / cont.keys() / cont.items()), or the read
    is guarded by `key in cont`."""
    key = sub.slice
    names = {n.id for n in ast.walk(key) if isinstance(n, ast.Name)}
    cur: ast.AST = sub
    while id(cur) in par:
        p = par[id(cur)]
        gens: List[Tuple[ast.AST, ast.AST]] = []
        if isinstance(p, ast.For):
            gens.append((p.target, p.iter))
        elif isinstance(p, (ast.ListComp, ast.SetComp, ast.GeneratorExp, ast.DictComp)):
            gens += [(g.target, g.iter) for g in p.generators]
        for tgt, it in gens:
            base = it
            if isinstance(base, ast.Call) and isinstance(base.func, ast.Name) and base.func.id in ("sorted", "list", "tuple", "set", "reversed") and base.args:
                base = base.args[0]
            if isinstance(base, ast.Call) and isinstance(base.func, ast.Attribute) and base.func.attr in ("keys", "items"):
                base = base.func.value
            if isinstance(base, ast.Name) and base.id == cont:
                tn = set(astq.target_names(tgt))
                first = astq.target_names(tgt.elts[0]) if isinstance(tgt, (ast.Tuple, ast.List)) and isinstance(it, ast.Call) and isinstance(it.func, ast.Attribute) and it.func.attr == "items" else list(tn)
                if names and names <= set(first) and isinstance(key, ast.Name):
                    return True
        if isinstance(p, (ast.If, ast.IfExp)) and cur is not p.test:
            for c in ast.walk(p.test):
                if isinstance(c, ast.Compare) and len(c.ops) == 1 and isinstance(c.ops[0], ast.In) and isinstance(c.comparators[0], ast.Name) and c.comparators[0].id == cont and norm(c.left) == norm(key):
                    in_body = any(cur is s for s in (p.body if isinstance(p.body, list) else [p.body]))
                    if in_body:
                        return True
        cur = p
    return False


def _effects(nodes: Iterable[ast.AST], fresh: Set[str], ddicts: Dict[str, int], par: Dict[int, ast.AST], statements: bool, fnode: ast.AST) -> List[Tuple[ast.AST, str]]:
    out: List[Tuple[ast.AST, str]] = []
    for top in nodes:
        for n in ast.walk(top):
            if isinstance(n, ast.Call):
                f = n.func
                if isinstance(f, ast.Attribute) and f.attr in CONSUME:
                    if not _fresh_expr(f.value, fresh):
                        out.append((n, f"`{norm(n)[:70]}` changes `{norm(f.value)[:40]}`, which outlives the message"))
                elif isinstance(f, ast.Name) and f.id == "next" and n.args and not _fresh_expr(n.args[0], fresh):
                    out.append((n, f"`{norm(n)[:70]}` advances `{norm(n.args[0])[:40]}`, which outlives the message"))
                elif isinstance(f, ast.Name) and f.id in ("setattr", "delattr") and n.args and not _fresh_expr(n.args[0], fresh):
                    out.append((n, f"`{norm(n)[:70]}` changes `{norm(n.args[0])[:40]}`"))
                for kw in n.keywords:
                    if kw.arg == "out" and not _fresh_expr(kw.value, fresh):
                        out.append((n, f"`{norm(n)[:70]}` writes its result into `{norm(kw.value)[:40]}`"))
                    if kw.arg == "inplace" and isinstance(kw.value, ast.Constant) and kw.value.value is True and isinstance(f, ast.Attribute) and not _fresh_expr(f.value, fresh):
                        out.append((n, f"`{norm(n)[:70]}` changes `{norm(f.value)[:40]}` in place"))
            elif isinstance(n, ast.Subscript) and isinstance(n.ctx, ast.Load):
                # defaultdict read: cont[k] (depth 1), cont[k1][k2] (depth 2)
                chain: List[ast.Subscript] = []
                e: ast.AST = n
                while isinstance(e, ast.Subscript):
                    chain.append(e)
                    e = e.value
                if isinstance(e, ast.Name) and e.id in ddicts and len(chain) <= ddicts[e.id]:
                    # only the outermost subscript of the chain is reported; a chain that is the target of a store is not a read
                    p = par.get(id(n))
                    if isinstance(p, ast.Subscript) and p.value is n and len(chain) + 1 <= ddicts[e.id]:
                        continue
                    if not _key_from_container(chain[-1], e.id, par):
                        out.append((n, f"`{norm(n)[:60]}` reads the defaultdict `{e.id}` by subscript: a key that is not there yet is created by the read"))
            elif statements and isinstance(n, ast.AugAssign):
                t = n.target
                if isinstance(t, ast.Name):
                    # `values = df[c].to_numpy(); values *= k`: in place on a view of an object that outlives the message
                    src = None if t.id in fresh else _alias_source(t.id, fnode)
                    if src is not None:
                        out.append((n, f"`{norm(n)[:70]}` works in place on `{t.id}`, a view of `{src}`"))
                elif not _fresh_expr(t, fresh):
                    out.append((n, f"`{norm(n)[:70]}` stores into `{norm(t)[:40]}`, which outlives the message"))
            elif statements and isinstance(n, (ast.Assign, ast.AnnAssign)):
                targets = n.targets if isinstance(n, ast.Assign) else [n.target]
                for t in targets:
                    for tt in ([t] if not isinstance(t, (ast.Tuple, ast.List)) else t.elts):
                        if isinstance(tt, (ast.Subscript, ast.Attribute)) and not _fresh_expr(tt.value, fresh):
                            out.append((n, f"`{norm(n)[:70]}` stores into `{norm(tt.value)[:40]}`, which outlives the message"))
            elif statements and isinstance(n, ast.Delete):
                for t in n.targets:
                    if isinstance(t, (ast.Subscript, ast.Attribute)) and not _fresh_expr(t.value, fresh):
                        out.append((n, f"`{norm(n)[:70]}` deletes from `{norm(t.value)[:40]}`"))
    return out


def _alias_source(name: str, scope: ast.AST) -> Optional[str]:
    """`name` is bound in `scope` to a view of another object (to_numpy / asarray / .values / a slice ...): the text of that object."""
    for n in ast.walk(scope):
        if isinstance(n, ast.Assign) and any(isinstance(t, ast.Name) and t.id == name for t in n.targets):
            v = n.value
            if isinstance(v, ast.Call) and isinstance(v.func, ast.Attribute) and v.func.attr in VIEW_CALLS and v.func.attr not in ("get", "setdefault", "iter"):
                base = v.func.value
                if isinstance(base, ast.Name) and base.id in ("np", "numpy") and v.args:
                    base = v.args[0]
                return norm(base)[:40]
            if isinstance(v, ast.Attribute) and v.attr in VIEW_ATTRS:
                return norm(v.value)[:40]
            if isinstance(v, ast.Subscript):
                return norm(v.value)[:40]
    return None


def _param_effects(fi: FuncInfo) -> List[Tuple[ast.AST, str]]:
    """Consuming / mutating operations of a package function on its own parameters (one level of callee for a context)."""
    params = {a.arg for a in fi.node.args.args + fi.node.args.kwonlyargs + fi.node.args.posonlyargs} - {"self", "cls"}
    out = []
    for n in astq.walk_no_nested(fi.node):
        if isinstance(n, ast.Call) and isinstance(n.func, ast.Attribute) and n.func.attr in CONSUME and isinstance(n.func.value, ast.Name) and n.func.value.id in params:
            out.append((n, f"`{norm(n)[:60]}`"))
        elif isinstance(n, ast.AugAssign) and isinstance(n.target, (ast.Subscript, ast.Attribute)) and _root(n.target) in params:
            out.append((n, f"`{norm(n)[:60]}`"))
        elif isinstance(n, ast.Assign):
            for t in n.targets:
                if isinstance(t, (ast.Subscript, ast.Attribute)) and _root(t) in params:
                    out.append((n, f"`{norm(n)[:60]}`"))
    return out


def _owner(outer: ast.AST, inner: ast.AST) -> Optional[ast.AST]:
    """The closest function definition that encloses `inner` within `outer`."""
    par = astq.parents(outer)
    cur = inner
    while id(cur) in par:
        cur = par[id(cur)]
        if isinstance(cur, (ast.FunctionDef, ast.AsyncFunctionDef, ast.Lambda)):
            return cur
    return None


def findings(repo: Repo):
    """[(FuncInfo holding the construct, node, message, key, holders)] and the number of logging sites read.  `holders` are the
    functions through which the construct is reached from non-diagnostic code (itself, or the callers of a diagnostic-only helper)."""
    # the raw source is read (the repository model inlines small helpers, which would hide a log-only helper)
    raw = {m: ast.parse(mod.source) for m, mod in repo.modules.items()}
    loggers_of = {m: _loggers(t) for m, t in raw.items()}
    funcs: List[FuncInfo] = []

    def index(mod, body, prefix: str, cls) -> None:
        for st in body:
            if isinstance(st, (ast.FunctionDef, ast.AsyncFunctionDef)):
                q = prefix + st.name
                funcs.append(FuncInfo(mod, q, st, cls))
                index(mod, [x for x in ast.walk(st) if x is not st and isinstance(x, (ast.FunctionDef, ast.AsyncFunctionDef)) and astq.parents(st).get(id(x)) is not None and _owner(st, x) is st], q + ".<locals>.", cls)
            elif isinstance(st, ast.ClassDef):
                index(mod, st.body, prefix + st.name + ".", st)

    for m, t in raw.items():
        index(repo.modules[m], t.body, "", None)
    ctxs: List[Context] = []
    n_sites = 0
    for fi in funcs:
        cs = _contexts_of(fi, loggers_of[fi.module.name])
        n_sites += sum(1 for c in cs if c.kind.startswith("the arguments")) + sum(1 for n in astq.walk_no_nested(fi.node) if _is_log_call(n, loggers_of[fi.module.name]) and not (n.args or n.keywords))
        ctxs += cs
    by_name: Dict[str, List[FuncInfo]] = {}
    for fi in funcs:
        by_name.setdefault(fi.node.name, []).append(fi)

    def calls_in(nodes: Iterable[ast.AST]) -> List[Tuple[str, ast.Call]]:
        out = []
        for top in nodes:
            for n in ast.walk(top):
                if isinstance(n, ast.Call):
                    nm = n.func.id if isinstance(n.func, ast.Name) else n.func.attr if isinstance(n.func, ast.Attribute) else None
                    if nm in by_name:
                        out.append((nm, n))
        return out

    # diagnostic-only functions: every call site of the name lies in a diagnostic context (fixpoint)
    all_calls: Dict[str, List[Tuple[FuncInfo, ast.Call]]] = {}
    for fi in funcs:
        for n in astq.walk_no_nested(fi.node):
            if isinstance(n, ast.Call):
                nm = n.func.id if isinstance(n.func, ast.Name) else n.func.attr if isinstance(n.func, ast.Attribute) else None
                if nm in by_name:
                    all_calls.setdefault(nm, []).append((fi, n))
    # references that are not calls (a function passed as a value) disqualify
    referenced: Set[str] = set()
    for fi in funcs:
        call_funcs = {id(n.func) for n in ast.walk(fi.node) if isinstance(n, ast.Call)}
        for n in ast.walk(fi.node):
            if isinstance(n, ast.Name) and isinstance(n.ctx, ast.Load) and n.id in by_name and id(n) not in call_funcs:
                referenced.add(n.id)
    diag_only: Dict[str, List[FuncInfo]] = {}
    in_ctx: Set[int] = set()
    for c in ctxs:
        for top in c.nodes:
            in_ctx |= {id(n) for n in ast.walk(top)}
    changed = True
    while changed:
        changed = False
        for nm, sites in all_calls.items():
            if nm in diag_only or nm in referenced or nm.startswith("__"):
                continue
            if len(by_name[nm]) != 1:
                continue
            if all(id(call) in in_ctx for _, call in sites):
                target = by_name[nm][0]
                diag_only[nm] = [f for f, _ in sites]
                body = list(target.node.body)
                ctxs.append(Context(target, body, f"the helper `{target.qualname}`, which is called only for log messages", target.node, target.node))
                for top in body:
                    in_ctx |= {id(n) for n in ast.walk(top)}
                changed = True

    found = []
    seen: Set[Tuple[str, str, str]] = set()
    for c in ctxs:
        fn = c.fi.node
        par = astq.parents(fn)
        params = {a.arg for a in fn.args.args + fn.args.kwonlyargs + fn.args.posonlyargs}
        if c.fresh_scope is not None:
            fresh = _fresh_names(c.fresh_scope, params)
            statements = True
        elif c.kind.startswith("a block"):
            inside = {id(y) for st in c.nodes for y in ast.walk(st)}
            stored_outside = {x.id for x in ast.walk(fn) if isinstance(x, ast.Name) and isinstance(x.ctx, ast.Store) and id(x) not in inside}
            fresh = _fresh_names(ast.Module(body=list(c.nodes), type_ignores=[]), params) - stored_outside
            statements = True
        else:
            fresh = set()
            statements = False
        ddicts = _defaultdicts(fn)
        effs = _effects(c.nodes, fresh, ddicts, par, statements, fn)
        # one level of callee
        for nm, call in calls_in(c.nodes):
            if nm in diag_only or len(by_name[nm]) != 1:
                continue
            callee = by_name[nm][0]
            pe = _param_effects(callee)
            if pe and any(not _fresh_expr(a, fresh) for a in list(call.args) + [k.value for k in call.keywords]):
                effs.append((call, f"`{norm(call)[:60]}` calls {callee.qualname}, which changes its argument ({pe[0][1]})"))
        holders = [c.fi]
        nm = c.fi.node.name
        if c.fresh_scope is not None and nm in diag_only:
            holders = [c.fi] + diag_only[nm]
        for node, msg in effs:
            key = (c.fi.module.name, c.fi.qualname, norm(node)[:80])
            if key in seen:
                continue
            seen.add(key)
            found.append((c.fi, node, f"{msg} - evaluated in {c.kind}: the log changes what the function computes", f"diag:{norm(node)[:60]}", holders))
    return found, n_sites, len(diag_only)


def check(chk, pid: str) -> None:
    from . import memo

    repo = chk.repo
    if repo is None or pid not in memo.ENTRIES:
        return
    rule = "diagnostic-purity"
    chk.robust.add(rule)
    try:
        found, n_sites, n_helpers = findings(repo)
        rel = memo.relevant(repo, pid) or set()
    except Exception as e:  # never a verdict
        chk.error(rule, "-", f"diagnostic analysis failed: {type(e).__name__}: {e}")
        return
    n = 0
    for fi, node, msg, key, holders in found:
        hit = False
        for h in holders:
            q = h.qualname.split(".<locals>.")[0]
            if (h.module.name, h.qualname) in rel or (h.module.name, q) in rel:
                hit = True
        if hit:
            n += 1
            chk.violation(rule, fi.site(node), msg, f"{fi.module.name}:{fi.qualname}:{key}")
    if n == 0:
        chk.ok(rule, "package", f"{n_sites} logging call sites and {n_helpers} log-only helper(s) in the package: nothing evaluated for a message in code this property reaches consumes, mutates or creates state that outlives the message")
