"""Alpha-renaming aid: make rules independent of local variable names.

Rules are written against the names the pinned source uses for its locals (`residue_i`, `stops`, `canonical`, ...).
A behaviour-preserving rename of a local must not change any verdict.  Before a function is analysed, its local
names are aligned with those of the same function in a *reference copy* of the source (spec/reference/<module>.py,
taken at the pinned commit): binding sites are compared by their shape with all local names blanked out, matched
with a sequence alignment, and every local whose binding site corresponds to a differently named local of the
reference is renamed to the reference name in the in-memory AST (line numbers are kept).  The reference copy is used
for nothing else: no rule compares the source with it.  Unmatched names (new locals, rewritten statements) stay as
they are, so real edits are seen by the rules exactly as written.
"""
from __future__ import annotations

import ast
import builtins
import difflib
from typing import Dict, List, Optional, Set, Tuple

_BUILTINS = set(dir(builtins))


def _targets(t: ast.AST) -> List[str]:
    if isinstance(t, ast.Name):
        return [t.id]
    if isinstance(t, (ast.Tuple, ast.List)):
        out: List[str] = []
        for e in t.elts:
            out.extend(_targets(e))
        return out
    if isinstance(t, ast.Starred):
        return _targets(t.value)
    return []


def local_names(fn: ast.AST) -> Set[str]:
    names: Set[str] = set()
    for n in ast.walk(fn):
        if isinstance(n, ast.arg):
            names.add(n.arg)
        elif isinstance(n, ast.Name) and isinstance(n.ctx, (ast.Store, ast.Del)):
            names.add(n.id)
        elif isinstance(n, ast.ExceptHandler) and n.name:
            names.add(n.name)
        elif isinstance(n, (ast.FunctionDef, ast.AsyncFunctionDef)) and n is not fn:
            names.add(n.name)
    names.discard("self")
    names.discard("cls")
    # names declared global/nonlocal are not local
    for n in ast.walk(fn):
        if isinstance(n, (ast.Global, ast.Nonlocal)):
            for x in n.names:
                names.discard(x)
    return names


class _Blank(ast.NodeTransformer):
    def __init__(self, locs: Set[str]):
        self.locs = locs

    def visit_Name(self, n: ast.Name):
        return ast.copy_location(ast.Name(id="_", ctx=n.ctx), n) if n.id in self.locs else n

    def visit_arg(self, n: ast.arg):
        return ast.copy_location(ast.arg(arg="_", annotation=None), n) if n.arg in self.locs else n


def _blank(node: ast.AST, locs: Set[str]) -> str:
    import copy

    try:
        return ast.unparse(_Blank(locs).visit(copy.deepcopy(node)))
    except Exception:
        return type(node).__name__


def binding_sites(fn: ast.AST) -> List[Tuple[str, str]]:
    """[(local name, shape signature of its first binding site)] in traversal (source) order."""
    locs = local_names(fn)
    seen: Set[str] = set()
    out: List[Tuple[str, str]] = []

    def add(name: str, sig: str) -> None:
        if name in locs and name not in seen:
            seen.add(name)
            out.append((name, sig))

    def visit(node: ast.AST) -> None:
        if isinstance(node, (ast.FunctionDef, ast.AsyncFunctionDef, ast.Lambda)):
            args = node.args
            allargs = args.posonlyargs + args.args + ([args.vararg] if args.vararg else []) + args.kwonlyargs + ([args.kwarg] if args.kwarg else [])
            kind = "lam" if isinstance(node, ast.Lambda) else ("param" if node is fn else "innerparam")
            for i, a in enumerate(allargs):
                add(a.arg, f"{kind}:{i}")
            if isinstance(node, (ast.FunctionDef, ast.AsyncFunctionDef)) and node is not fn:
                add(node.name, "def")
        if isinstance(node, ast.Assign):
            sig = "assign:" + _blank(node.value, locs)
            for t in node.targets:
                for i, nm in enumerate(_targets(t)):
                    add(nm, f"{sig}#{i}")
        elif isinstance(node, ast.AnnAssign):
            for nm in _targets(node.target):
                add(nm, "assign:" + (_blank(node.value, locs) if node.value is not None else ""))
        elif isinstance(node, ast.AugAssign):
            for nm in _targets(node.target):
                add(nm, "aug:" + _blank(node.value, locs))
        elif isinstance(node, (ast.For, ast.AsyncFor)):
            for i, nm in enumerate(_targets(node.target)):
                add(nm, f"for:{_blank(node.iter, locs)}#{i}")
        elif isinstance(node, ast.comprehension):
            for i, nm in enumerate(_targets(node.target)):
                add(nm, f"comp:{_blank(node.iter, locs)}#{i}")
        elif isinstance(node, ast.With):
            for it in node.items:
                if it.optional_vars is not None:
                    for nm in _targets(it.optional_vars):
                        add(nm, "with:" + _blank(it.context_expr, locs))
        elif isinstance(node, ast.ExceptHandler) and node.name:
            add(node.name, "except")
        elif isinstance(node, ast.NamedExpr):
            for nm in _targets(node.target):
                add(nm, "walrus:" + _blank(node.value, locs))
        # comprehensions bind before their element is evaluated: visit generators first
        if isinstance(node, (ast.ListComp, ast.SetComp, ast.GeneratorExp, ast.DictComp)):
            for g in node.generators:
                visit(g)
            for c in ([node.key, node.value] if isinstance(node, ast.DictComp) else [node.elt]):
                visit(c)
            return
        for c in ast.iter_child_nodes(node):
            visit(c)

    visit(fn)
    return out


def mapping(ref_fn: ast.AST, act_fn: ast.AST) -> Dict[str, str]:
    """actual local name -> reference local name (only where they differ and the correspondence is one-to-one)."""
    ref, act = binding_sites(ref_fn), binding_sites(act_fn)
    rs, as_ = [s for _, s in ref], [s for _, s in act]
    sm = difflib.SequenceMatcher(None, rs, as_, autojunk=False)
    pairs: List[Tuple[str, str]] = []
    last_r = last_a = 0
    for blk in sm.get_matching_blocks():
        # gap before the block: same number of unmatched bindings on both sides -> positional correspondence
        gr, ga = ref[last_r : blk.a], act[last_a : blk.b]
        if len(gr) == len(ga):
            pairs.extend((a[0], r[0]) for r, a in zip(gr, ga))
        for k in range(blk.size):
            pairs.append((act[blk.b + k][0], ref[blk.a + k][0]))
        last_r, last_a = blk.a + blk.size, blk.b + blk.size
    m: Dict[str, str] = {}
    used_ref: Dict[str, str] = {}
    bad: Set[str] = set()
    for a, r in pairs:
        if a in m and m[a] != r:
            bad.add(a)
        if r in used_ref and used_ref[r] != a:
            bad.add(a)
            bad.add(used_ref[r])
        m.setdefault(a, r)
        used_ref.setdefault(r, a)
    m = {a: r for a, r in m.items() if a not in bad and a != r}
    # a target name must be free: not a local of the actual function that keeps its name, not a builtin/global use
    act_locals = local_names(act_fn)
    free_names = {n.id for n in ast.walk(act_fn) if isinstance(n, ast.Name)} - act_locals
    while True:
        # to a fixpoint: dropping one renaming makes its source a local that keeps its name, which may be the target of another
        # renaming (two distinct variables must never be merged into one name)
        staying = act_locals - set(m)
        m2 = {a: r for a, r in m.items() if r not in staying and r not in free_names and r not in _BUILTINS}
        if m2 == m:
            break
        m = m2
    return m


class _Rename(ast.NodeTransformer):
    def __init__(self, m: Dict[str, str], root: ast.AST = None):
        self.m = m
        self.root = root

    def visit_Name(self, n: ast.Name):
        if n.id in self.m:
            n.id = self.m[n.id]
        return n

    def visit_arg(self, n: ast.arg):
        if n.arg in self.m:
            n.arg = self.m[n.arg]
        return n

    def visit_ExceptHandler(self, n: ast.ExceptHandler):
        if n.name in self.m:
            n.name = self.m[n.name]
        self.generic_visit(n)
        return n

    def visit_FunctionDef(self, n: ast.FunctionDef):
        # a nested def is a local binding like any other: its name follows the renaming of its uses (the function being aligned
        # keeps its own name)
        if n is not self.root and n.name in self.m:
            n.name = self.m[n.name]
        self.generic_visit(n)
        return n

    visit_AsyncFunctionDef = visit_FunctionDef

    def visit_keyword(self, n: ast.keyword):
        self.generic_visit(n)
        return n


def align_function(ref_fn: ast.AST, act_fn: ast.AST) -> Dict[str, str]:
    """Rename the locals of act_fn in place to the reference names; returns the renaming applied."""
    m = mapping(ref_fn, act_fn)
    # a parameter of a nested function that some call passes by keyword keeps its name (the keyword would no longer match)
    kw = {k.arg for n in ast.walk(act_fn) if isinstance(n, ast.Call) for k in n.keywords if k.arg}
    m = {a: r for a, r in m.items() if a not in kw and r not in kw}
    if m:
        _Rename(m, act_fn).visit(act_fn)
    return m
