"""A5: truth tables of comparison-only predicates over all orderings of their variables.

A predicate built from  <, <=, >, >=, ==, !=  between variables (chained or not), and/or/not, has a
value that depends only on the relative order of its variables.  It is evaluated on one representative per
ordering the input domain allows - a finite, exhaustive abstract domain - and compared with a reference."""
from __future__ import annotations

import ast
import itertools
from typing import Callable, Dict, Iterable, List, Optional, Sequence, Tuple


class NotOrderPredicate(Exception):
    pass


_CMP = {
    ast.Lt: lambda a, b: a < b,
    ast.LtE: lambda a, b: a <= b,
    ast.Gt: lambda a, b: a > b,
    ast.GtE: lambda a, b: a >= b,
    ast.Eq: lambda a, b: a == b,
    ast.NotEq: lambda a, b: a != b,
}


def evaluate(expr: ast.expr, val: Callable[[ast.expr], Optional[int]]) -> bool:
    """Evaluate a comparison-only predicate; `val` maps a leaf expression to its rank (None: not a leaf)."""
    if isinstance(expr, ast.BoolOp):
        vals = [evaluate(v, val) for v in expr.values]
        return all(vals) if isinstance(expr.op, ast.And) else any(vals)
    if isinstance(expr, ast.UnaryOp) and isinstance(expr.op, ast.Not):
        return not evaluate(expr.operand, val)
    if isinstance(expr, ast.Compare):
        left = _leaf(expr.left, val)
        for op, c in zip(expr.ops, expr.comparators):
            right = _leaf(c, val)
            f = _CMP.get(type(op))
            if f is None:
                raise NotOrderPredicate(f"operator {type(op).__name__}")
            if not f(left, right):
                return False
            left = right
        return True
    if isinstance(expr, ast.Constant) and isinstance(expr.value, bool):
        return expr.value
    raise NotOrderPredicate(f"not a comparison predicate: {ast.unparse(expr)[:60]}")


def _leaf(e: ast.expr, val) -> int:
    v = val(e)
    if v is None:
        raise NotOrderPredicate(f"leaf without role: {ast.unparse(e)[:60]}")
    return v


def crossing_orderings() -> List[Tuple[int, int, int, int]]:
    """All orderings of (a0, a1, b0, b1) with a0 < a1, b0 < b1 and four distinct positions: ranks 0..3."""
    out = []
    for perm in itertools.permutations(range(4)):
        a0, a1, b0, b1 = perm
        if a0 < a1 and b0 < b1:
            out.append(perm)
    return out


def crossing_reference(a0: int, a1: int, b0: int, b1: int) -> bool:
    """Arcs (a0,a1) and (b0,b1) cross: exactly one end of one lies inside the other."""
    return (a0 < b0 < a1 < b1) or (b0 < a0 < b1 < a1)
