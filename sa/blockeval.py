"""Evaluation of a small statement block on representatives of its input partition.

Some rules need the value a formatting/decoding fragment produces for each *class* of input (a positive number, a
negative one, an already formatted string, a missing value ...).  The fragment is read from the ast and its expressions
are folded with the constant folder on one representative per class; statements supported: assignments (names, tuple
targets, augmented), if/elif/else, try/except (an exception raised while folding selects the handler that names it),
`name.append(x)` / `name.extend(x)` on local lists, for-loops over folded iterables, return/continue/break, `raise` of a builtin
exception type, `with` over a rule-supplied context stub, calls of rule-supplied callables as statements, nested `def` (a closure
evaluated the same way), `match` over literal / capture / fixed-length sequence patterns.  Anything
else stops the evaluation with Unknown - the rule then reports 'not evaluable', never a verdict.  No code of the
repository is imported or executed: only literals, operators and a fixed table of builtins are interpreted.
"""
from __future__ import annotations

import ast
import copy
from typing import Any, Dict, List, Optional, Sequence, Tuple

from sa.consteval import Folder, NotConst


class Unknown(Exception):
    pass


class _Stop(Exception):
    def __init__(self, kind: str, value: Any = None):
        self.kind, self.value = kind, value


def _isna(v: Any) -> bool:
    return v is None or (isinstance(v, float) and v != v)


class Vec(tuple):
    """Stand-in for a one-dimensional numpy array of coordinates: element-wise difference and sum, nothing else."""

    _folder_stub = True

    def __sub__(self, o):
        return Vec(a - b for a, b in zip(self, o))

    def __add__(self, o):
        return Vec(a + b for a, b in zip(self, o))


class NumpyStub:
    """`numpy` / `np` for evaluated fragments that only measure a distance: numpy.linalg.norm of one stand-in vector.  An evaluation
    that has its own stand-in for numpy in its environment (checks/c15e.py) is not touched: this one is opt-in, through the env."""

    _folder_stub = True

    class _Linalg:
        _folder_stub = True

        @staticmethod
        def norm(v):
            return _norm(v)

    linalg = _Linalg()


def _norm(v: Any) -> float:
    if not isinstance(v, (tuple, list)) or not all(isinstance(x, (int, float)) for x in v):
        raise Unknown("numpy.linalg.norm of a value that is not a vector of numbers")
    return sum(float(x) * float(x) for x in v) ** 0.5


class _Rewrite(ast.NodeTransformer):
    """pd.isna(x) / pandas.isna(x) / pd.isnull(x) / pd.notna(x) -> local callables"""

    def visit_Call(self, n: ast.Call):
        self.generic_visit(n)
        f = n.func
        if isinstance(f, ast.Attribute) and isinstance(f.value, ast.Name) and f.value.id in ("pd", "pandas", "np", "numpy", "math"):
            if f.attr in ("isna", "isnull", "isnan"):
                return ast.copy_location(ast.Call(func=ast.Name(id="isna__", ctx=ast.Load()), args=n.args, keywords=[]), n)
            if f.attr in ("notna", "notnull"):
                return ast.copy_location(ast.Call(func=ast.Name(id="notna__", ctx=ast.Load()), args=n.args, keywords=[]), n)
        return n


MUTATORS = ("append", "extend", "add", "update", "discard", "remove", "setdefault", "pop", "clear", "insert")


class OrderedSetStub:
    """Insertion-ordered set with the operations the analysed code uses (model of ordered_set.OrderedSet)."""

    _blockeval_container = True

    def __init__(self, items=()):
        self.items = []
        for x in items:
            self.add(x)

    def add(self, x):
        if x not in self.items:
            self.items.append(x)

    def remove(self, x):
        self.items.remove(x)

    def discard(self, x):
        if x in self.items:
            self.items.remove(x)

    def __contains__(self, x):
        return x in self.items

    def __len__(self):
        return len(self.items)

    def __getitem__(self, i):
        return self.items[i]

    def __iter__(self):
        return iter(self.items)

    def __eq__(self, o):
        return isinstance(o, OrderedSetStub) and self.items == o.items

    def __repr__(self):
        return f"OrderedSet({self.items})"


class DefaultDictStub(dict):
    def __init__(self, factory=None, *args, **kw):
        super().__init__(*args, **kw)  # defaultdict(factory, <mapping or pairs>, **items) like the original
        self.factory = factory

    def __missing__(self, k):
        if self.factory is None:
            raise KeyError(k)
        v = self.factory()
        self[k] = v
        return v


BASE = {
    "isna__": _isna,
    "notna__": lambda v: not _isna(v),
    "isinstance": lambda v, t: isinstance(v, t),
    "repr": repr,
    "OrderedSet": OrderedSetStub,
    "defaultdict": DefaultDictStub,
}


_EXC = {n: getattr(__import__("builtins"), n) for n in ("ValueError", "KeyError", "IndexError", "TypeError", "LookupError", "ArithmeticError", "ZeroDivisionError", "AttributeError", "RuntimeError", "NotImplementedError", "AssertionError", "StopIteration", "OverflowError", "UnicodeError", "OSError", "FileNotFoundError", "Exception")}


class BlockEval:
    def __init__(self, repo, module: str, env: Optional[Dict[str, Any]] = None, max_steps: int = 2000, world: Optional[Dict[str, Any]] = None):
        """`world` (optional): rule-supplied stand-ins for global names (Enum classes, constructors, module functions); they are
        visible in the fragment *and* while module-level constants the fragment reads are folded (see Folder)."""
        self.repo, self.module = repo, module
        self.world: Dict[str, Any] = dict(world or {})
        self.env: Dict[str, Any] = dict(BASE)
        self.env.update(self.world)
        self.env.update(env or {})
        self.steps = 0
        self.max_steps = max_steps
        self.trace: List[ast.stmt] = []
        self._handling: List[BaseException] = []

    # ---- expressions ---------------------------------------------------------------------------
    def fold(self, e: ast.AST) -> Any:
        e2 = ast.fix_missing_locations(_Rewrite().visit(copy.deepcopy(e)))
        f = Folder(self.repo, self.module, self.env, world=self.world)
        try:
            return f.fold(e2)
        except NotConst as ex:
            raise Unknown(f"`{ast.unparse(e)[:60]}`: {ex}")
        finally:
            for k in getattr(f, "_walrus", ()):  # `if (m := table.get(k)) is not None:` binds m for the statements that follow
                if k in f.local:
                    self.env[k] = f.local[k]

    # ---- statements ----------------------------------------------------------------------------
    def run(self, block: Sequence[ast.stmt]) -> Tuple[str, Any]:
        """('fall' | 'return' | 'continue' | 'break', value)"""
        try:
            self._block(block)
        except _Stop as s:
            return s.kind, s.value
        return "fall", None

    def _block(self, block: Sequence[ast.stmt]) -> None:
        for st in block:
            self.steps += 1
            if self.steps > self.max_steps:
                raise Unknown("too many steps")
            self.trace.append(st)
            self._stmt(st)

    def _assign(self, t: ast.AST, v: Any) -> None:
        if isinstance(t, ast.Name):
            self.env[t.id] = v
        elif isinstance(t, (ast.Tuple, ast.List)):
            vals = list(v)
            star = [i for i, e in enumerate(t.elts) if isinstance(e, ast.Starred)]
            if len(star) == 1:  # a, *rest, z = vals
                i, after = star[0], len(t.elts) - star[0] - 1
                if len(vals) < len(t.elts) - 1:
                    raise ValueError(f"not enough values to unpack (expected at least {len(t.elts) - 1}, got {len(vals)})")
                for a, b in zip(t.elts[:i], vals[:i]):
                    self._assign(a, b)
                self._assign(t.elts[i].value, vals[i : len(vals) - after])
                for a, b in zip(t.elts[i + 1 :], vals[len(vals) - after :]):
                    self._assign(a, b)
                return
            if star:
                raise Unknown(f"assignment target `{ast.unparse(t)[:40]}`")
            if len(vals) != len(t.elts):
                raise ValueError("unpack")
            for a, b in zip(t.elts, vals):
                self._assign(a, b)
        elif isinstance(t, ast.Subscript) and isinstance(t.value, ast.Name) and t.value.id in self.env:
            self.env[t.value.id][self.fold(t.slice)] = v
        else:
            raise Unknown(f"assignment target `{ast.unparse(t)[:40]}`")

    def _stmt(self, st: ast.stmt) -> None:
        if isinstance(st, ast.Assign):
            v = self.fold(st.value)
            for t in st.targets:
                self._assign(t, v)
        elif isinstance(st, ast.AnnAssign):
            if st.value is not None:
                self._assign(st.target, self.fold(st.value))
        elif isinstance(st, ast.AugAssign):
            cur = self.fold(ast.Name(id=st.target.id, ctx=ast.Load())) if isinstance(st.target, ast.Name) else None
            if not isinstance(st.target, ast.Name):
                raise Unknown("augmented assignment target")
            self.env[st.target.id] = self.fold(ast.BinOp(left=ast.Constant(value=cur), op=st.op, right=st.value)) if isinstance(cur, (int, float, str)) else self._aug(cur, st)
        elif isinstance(st, ast.If):
            self._block(st.body if self.fold(st.test) else st.orelse)
        elif isinstance(st, ast.Try):
            snapshot = None
            try:
                self._block(st.body)
            except (_Stop, Unknown):
                raise
            except Exception as ex:  # raised by an interpreted builtin (int('x'), float(None), ...)
                name = type(ex).__name__
                for h in st.handlers:
                    types = [] if h.type is None else ([ast.unparse(t).split(".")[-1] for t in h.type.elts] if isinstance(h.type, ast.Tuple) else [ast.unparse(h.type).split(".")[-1]])
                    if h.type is None or name in types or "Exception" in types or "BaseException" in types or any(t in _EXC and isinstance(ex, _EXC[t]) for t in types):
                        if h.name:
                            self.env[h.name] = ex
                        self._handling.append(ex)
                        try:
                            self._block(h.body)
                        finally:
                            self._handling.pop()
                        break
                else:
                    raise
            else:
                self._block(st.orelse)
            finally:
                if st.finalbody:
                    self._block(st.finalbody)
        elif isinstance(st, ast.Expr):
            c = st.value
            if isinstance(c, ast.Call) and isinstance(c.func, ast.Attribute) and c.func.attr in MUTATORS and not c.keywords and not (isinstance(c.func.value, ast.Name) and c.func.value.id not in self.env):
                recv = self.env[c.func.value.id] if isinstance(c.func.value, ast.Name) else self.fold(c.func.value)
                if not isinstance(recv, (list, dict, set)) and not getattr(recv, "_blockeval_container", False):
                    raise Unknown(f"method call on `{ast.unparse(c.func.value)[:40]}`")
                args = [self.fold(a) for a in c.args]
                getattr(recv, c.func.attr)(*args)
            elif isinstance(c, (ast.Constant, ast.Name)):
                pass
            elif isinstance(c, ast.Call) and (ast.unparse(c.func).split(".")[0] in ("logging", "logger", "warnings", "print")):
                pass
            elif isinstance(c, ast.Call) and isinstance(c.func, ast.Name) and callable(self.env.get(c.func.id)) and c.func.id not in BASE:
                self.fold(c)  # a rule-supplied callable (stub or evaluated module function) called for its effect on the containers it is handed
            else:
                raise Unknown(f"statement `{ast.unparse(st)[:50]}`")
        elif isinstance(st, ast.For):
            it = self.fold(st.iter)
            # the language's own iteration protocol, not a snapshot: a body that removes from / appends to the list (or ordered set)
            # it is walking over skips or repeats members exactly as the interpreter does; a dict that changes size raises
            for item in it:
                self._assign(st.target, item)
                try:
                    self._block(st.body)
                except _Stop as s:
                    if s.kind == "continue":
                        continue
                    if s.kind == "break":
                        break
                    raise
            else:
                self._block(st.orelse)
        elif isinstance(st, ast.With):
            # `with <expr> as name:` - only for context managers the rule supplies (a stub marked _blockeval_context, e.g. an opened listing)
            for item in st.items:
                v = self.fold(item.context_expr)
                if not getattr(v, "_blockeval_context", False):
                    raise Unknown(f"with-statement over `{ast.unparse(item.context_expr)[:40]}`")
                if item.optional_vars is not None:
                    self._assign(item.optional_vars, v)
            self._block(st.body)
        elif isinstance(st, ast.FunctionDef):
            # a nested helper: a callable on folded values whose body is evaluated in the enclosing scope as it is at call time
            a = st.args
            if st.decorator_list or a.vararg or a.kwarg or a.kwonlyargs or a.posonlyargs or any(isinstance(n, (ast.Nonlocal, ast.Global, ast.Yield, ast.YieldFrom)) for n in ast.walk(st)):
                raise Unknown(f"nested function `{st.name}`")
            self.env[st.name] = self._closure(st)
        elif isinstance(st, ast.Match):
            subject = self.fold(st.subject)
            for case in st.cases:
                binds: Dict[str, Any] = {}
                if self._match(case.pattern, subject, binds):
                    saved = {k: self.env[k] for k in binds if k in self.env}
                    self.env.update(binds)
                    if case.guard is not None and not self.fold(case.guard):
                        for k in binds:
                            self.env.pop(k, None)
                        self.env.update(saved)
                        continue
                    self._block(case.body)
                    break
        elif isinstance(st, ast.Raise):
            # `raise ValueError(...)` of a builtin exception type is the exception itself (selects a handler like one raised by an
            # interpreted builtin); a bare `raise` in a handler re-raises the exception being handled
            if st.exc is None:
                if not self._handling:
                    raise Unknown("bare raise outside a handler")
                raise self._handling[-1]
            f = st.exc.func if isinstance(st.exc, ast.Call) else st.exc
            if not (isinstance(f, ast.Name) and f.id in _EXC and f.id not in self.env):
                raise Unknown(f"statement `{ast.unparse(st)[:50]}`")
            args = []
            if isinstance(st.exc, ast.Call):
                for a in st.exc.args:
                    try:
                        args.append(self.fold(a))
                    except Unknown:
                        args.append("...")
            raise _EXC[f.id](*args)
        elif isinstance(st, ast.Return):
            raise _Stop("return", self.fold(st.value) if st.value is not None else None)
        elif isinstance(st, ast.Continue):
            raise _Stop("continue")
        elif isinstance(st, ast.Break):
            raise _Stop("break")
        elif isinstance(st, ast.Pass):
            pass
        else:
            raise Unknown(f"statement kind {type(st).__name__}")

    def _closure(self, fn: ast.FunctionDef):
        params = [x.arg for x in fn.args.args]
        defaults = dict(zip(params[len(params) - len(fn.args.defaults) :], fn.args.defaults))
        body = [b for b in fn.body if not (isinstance(b, ast.Expr) and isinstance(b.value, ast.Constant))]

        def call(*vals):
            if len(vals) > len(params):
                raise TypeError(f"{fn.name}() takes {len(params)} positional arguments but {len(vals)} were given")
            env = dict(self.env)
            env.update(zip(params, vals))
            for p_ in params[len(vals) :]:
                if p_ not in defaults:
                    raise TypeError(f"{fn.name}() missing required argument: '{p_}'")
                env[p_] = self.fold(defaults[p_])
            sub = BlockEval(self.repo, self.module, env, max_steps=self.max_steps, world=self.world)
            kind, val = sub.run(body)
            self.steps += sub.steps
            return val if kind == "return" else None

        call.__name__ = fn.name
        return call

    def _match(self, pat: ast.pattern, v: Any, binds: Dict[str, Any]) -> bool:
        """Literal / singleton / or / capture / wildcard / fixed-length sequence patterns; anything else is not evaluable."""
        if isinstance(pat, ast.MatchValue):
            return v == self.fold(pat.value)
        if isinstance(pat, ast.MatchSingleton):
            return v is pat.value
        if isinstance(pat, ast.MatchOr):
            return any(self._match(p_, v, binds) for p_ in pat.patterns)
        if isinstance(pat, ast.MatchAs):
            if pat.pattern is not None and not self._match(pat.pattern, v, binds):
                return False
            if pat.name is not None:
                binds[pat.name] = v
            return True
        if isinstance(pat, ast.MatchSequence) and not any(isinstance(p_, ast.MatchStar) for p_ in pat.patterns):
            return isinstance(v, (list, tuple)) and len(v) == len(pat.patterns) and all(self._match(p_, x, binds) for p_, x in zip(pat.patterns, v))
        raise Unknown(f"match pattern `{ast.unparse(pat)[:40]}`")

    def _aug(self, cur: Any, st: ast.AugAssign) -> Any:
        rhs = self.fold(st.value)
        if isinstance(st.op, ast.Add):
            return cur + rhs
        raise Unknown("augmented assignment operator")
