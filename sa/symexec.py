"""Symbolic path execution of a statement block (A3c).

`run(block, ...)` enumerates the paths through a block the way `sa/paths.py` does, but carries a *symbolic store*:
every local assigned on the path is mapped to its value expression written over the *input symbols* of the block
(loop targets, parameters, names bound outside).  Conditions and effects are reported after substitution, so a rule
reads `type_i == type_j`, `occupied.add((residue_i, edge_i))` or `base_phosphate_pairs.append(...)` in the same canonical
form whether the code hoists a look-up into a local, aliases a container (`contacts = base_phosphate_pairs`), swaps two
names, keeps a test in a flag (`in_order = a < b ... if in_order`), selects a value with a conditional expression or
with if/else, or walks over a literal tuple of alternatives with `break`.

What a path records
    conds    [(key, value, node)]   atomic tests in evaluation order; `key` is the text of the *positive* canonical form
                                    (`is not None` -> `is None`, `!=` -> `==`, `not in` -> `in`, `a > b` -> `b < a`,
                                    `bool(x)` -> `x`), `value` its truth on this path
    effects  [Effect]               method calls / subscript stores / deletes made by simple statements, substituted
    exit     'fall' | 'continue' | 'break' | 'return' | 'raise'
    ret      substituted return value (exit == 'return')
    store    final symbolic store
    events   conds and effects in the order they happened ("cond", i) / ("effect", i)

Loops
    * `for x in (a, b, c)` over a literal tuple/list (after substitution) is unrolled, `break`/`continue` included.
    * any other loop is executed once for a *generic element*: targets are bound to `__elem__(iterable, k)`
      (`itertools.product(A, B)` with a tuple target binds each name to the element of its own factor, `zip`/`enumerate`
      likewise); effects of the body are attached to the enclosing path with their loop context and the conditions
      decided inside the loop (`Effect.loops`, `Effect.guards`); after the loop every name the body assigns is opaque.
      A `break`/`return` in a generic loop marks its effects `partial`.

Nothing is evaluated except literal tests (`None is None`, constants); everything else forks.  No repository code runs.
"""
from __future__ import annotations

import ast
import copy
from dataclasses import dataclass, field
from typing import Any, Callable, Dict, Iterable, List, Optional, Sequence, Set, Tuple

from .model import AnalysisError


class TooManyPaths(AnalysisError):
    pass


def txt(n: ast.AST) -> str:
    return ast.unparse(n)


ELEM = "__elem__"
OPAQUE = "__opaque__"


def elem(it: ast.expr, k: int) -> ast.expr:
    return ast.Call(func=ast.Name(id=ELEM, ctx=ast.Load()), args=[it, ast.Constant(value=k)], keywords=[])


def is_elem(e: ast.AST) -> Optional[ast.expr]:
    """The iterable an element symbol ranges over, else None."""
    if isinstance(e, ast.Call) and isinstance(e.func, ast.Name) and e.func.id == ELEM and e.args:
        return e.args[0]
    return None


def opaque(name: str, why: str) -> ast.expr:
    return ast.Call(func=ast.Name(id=OPAQUE, ctx=ast.Load()), args=[ast.Constant(value=name), ast.Constant(value=why)], keywords=[])


def is_opaque(e: ast.AST) -> bool:
    return isinstance(e, ast.Call) and isinstance(e.func, ast.Name) and e.func.id == OPAQUE


@dataclass
class LoopCtx:
    iter: ast.expr  # substituted iterable
    node: ast.AST  # the loop statement
    serial: int
    partial: bool = False  # body can leave the loop early


@dataclass
class Effect:
    kind: str  # "call" | "setitem" | "delitem" | "expr"
    recv: str  # text of the substituted receiver (`occupied`, `base_phosphate_pairs`, `logging`)
    method: str  # method name, "[]=" for subscript stores
    args: List[ast.expr]
    node: ast.AST  # the original call / statement
    stmt: ast.stmt
    loops: Tuple[LoopCtx, ...] = ()
    guards: Tuple[Tuple[str, bool, ast.AST], ...] = ()  # conditions decided inside the enclosing generic loops
    keywords: Dict[str, ast.expr] = field(default_factory=dict)

    @property
    def partial(self) -> bool:
        return any(l.partial for l in self.loops)

    def text(self) -> str:
        if self.kind == "setitem":
            return f"{self.recv}[{txt(self.args[0])}] = {txt(self.args[1])}"
        return f"{self.recv}.{self.method}({', '.join(txt(a) for a in self.args)})"


@dataclass
class Path:
    conds: List[Tuple[str, bool, ast.AST]]
    effects: List[Effect]
    exit: str
    ret: Optional[ast.expr]
    store: Dict[str, ast.expr]
    events: List[Tuple[str, int]]

    def value_of(self, key: str) -> Optional[bool]:
        for k, v, _ in self.conds:
            if k == key:
                return v
        return None

    def calls(self, recv: str, method: str) -> List[Effect]:
        return [e for e in self.effects if e.recv == recv and e.method == method]

    def describe(self) -> List[Tuple[str, bool]]:
        return [(k, v) for k, v, _ in self.conds]


# ---------------------------------------------------------------------------------------------------------------------
# canonical form of atomic tests
# ---------------------------------------------------------------------------------------------------------------------
_NEG = {ast.IsNot: ast.Is, ast.NotEq: ast.Eq, ast.NotIn: ast.In}
_MIRROR = {ast.Gt: ast.Lt, ast.GtE: ast.LtE}


def strip_bool(e: ast.expr) -> ast.expr:
    """bool(x) -> x ; (True if x else False) -> x ; (False if x else True) -> not x"""
    while True:
        if isinstance(e, ast.Call) and isinstance(e.func, ast.Name) and e.func.id == "bool" and len(e.args) == 1 and not e.keywords:
            e = e.args[0]
            continue
        if isinstance(e, ast.IfExp) and isinstance(e.body, ast.Constant) and isinstance(e.orelse, ast.Constant) and e.body.value is True and e.orelse.value is False:
            e = e.test
            continue
        if isinstance(e, ast.IfExp) and isinstance(e.body, ast.Constant) and isinstance(e.orelse, ast.Constant) and e.body.value is False and e.orelse.value is True:
            e = ast.UnaryOp(op=ast.Not(), operand=e.test)
            continue
        return e


def canon_atom(test: ast.expr) -> Tuple[ast.expr, bool]:
    """(positive canonical test, polarity): the atom holds iff canonical test == polarity."""
    test = strip_bool(test)
    if isinstance(test, ast.Compare) and len(test.ops) == 1:
        op = test.ops[0]
        if type(op) in _NEG:
            return ast.Compare(left=test.left, ops=[_NEG[type(op)]()], comparators=test.comparators), False
        if type(op) in _MIRROR:
            return ast.Compare(left=test.comparators[0], ops=[_MIRROR[type(op)]()], comparators=[test.left]), True
    return test, True


_LITERAL_NOT_NONE = (ast.Tuple, ast.List, ast.Dict, ast.Set, ast.JoinedStr, ast.ListComp, ast.SetComp, ast.DictComp, ast.GeneratorExp, ast.Lambda)


def _literal_truth(test: ast.expr, nonnull: Set[str]) -> Optional[bool]:
    """Truth of a test that needs no knowledge of run-time values."""
    if isinstance(test, ast.Constant):
        return bool(test.value)
    if isinstance(test, (ast.Tuple, ast.List, ast.Set)) and not any(isinstance(x, ast.Starred) for x in test.elts):
        return bool(test.elts)
    if isinstance(test, ast.Dict):
        return bool(test.keys)
    if isinstance(test, ast.Compare) and len(test.ops) == 1:
        a, b, op = test.left, test.comparators[0], test.ops[0]
        if isinstance(op, (ast.Is, ast.Eq)) and isinstance(b, ast.Constant) and b.value is None:
            if isinstance(a, ast.Constant):
                return a.value is None
            if isinstance(a, _LITERAL_NOT_NONE):
                return False
            if isinstance(a, ast.Name) and a.id in nonnull:
                return False
        if isinstance(a, ast.Constant) and isinstance(b, ast.Constant):
            try:
                if isinstance(op, ast.Eq):
                    return a.value == b.value
                if isinstance(op, ast.Is):
                    return a.value is b.value if (a.value is None or b.value is None or isinstance(a.value, bool) or isinstance(b.value, bool)) else a.value == b.value
                if isinstance(op, ast.Lt):
                    return a.value < b.value
                if isinstance(op, ast.LtE):
                    return a.value <= b.value
                if isinstance(op, ast.In):
                    return a.value in b.value
            except TypeError:
                return None
        if isinstance(op, ast.In) and isinstance(a, ast.Constant) and isinstance(b, (ast.Tuple, ast.List, ast.Set)) and all(isinstance(x, ast.Constant) for x in b.elts):
            return a.value in [x.value for x in b.elts]
    return None


# ---------------------------------------------------------------------------------------------------------------------
# substitution
# ---------------------------------------------------------------------------------------------------------------------
class _Sub(ast.NodeTransformer):
    def __init__(self, store: Dict[str, ast.expr]):
        self.store = store
        self.shadow: List[Set[str]] = []

    def _shadowed(self, name: str) -> bool:
        return any(name in s for s in self.shadow)

    def visit_Name(self, n: ast.Name):
        if isinstance(n.ctx, ast.Load) and n.id in self.store and not self._shadowed(n.id):
            return copy.deepcopy(self.store[n.id])
        return n

    def _comp(self, n):
        names: Set[str] = set()
        for g in n.generators:
            names |= {x.id for x in ast.walk(g.target) if isinstance(x, ast.Name)}
        # the first iterable is evaluated outside the comprehension scope
        n.generators[0].iter = self.visit(n.generators[0].iter)
        self.shadow.append(names)
        try:
            for i, g in enumerate(n.generators):
                if i:
                    g.iter = self.visit(g.iter)
                g.ifs = [self.visit(c) for c in g.ifs]
            if isinstance(n, ast.DictComp):
                n.key = self.visit(n.key)
                n.value = self.visit(n.value)
            else:
                n.elt = self.visit(n.elt)
        finally:
            self.shadow.pop()
        return n

    visit_ListComp = visit_SetComp = visit_GeneratorExp = visit_DictComp = _comp

    def visit_Lambda(self, n: ast.Lambda):
        names = {a.arg for a in n.args.args + n.args.kwonlyargs + n.args.posonlyargs}
        self.shadow.append(names)
        try:
            n.body = self.visit(n.body)
        finally:
            self.shadow.pop()
        return n


def subst(e: ast.expr, store: Dict[str, ast.expr]) -> ast.expr:
    return ast.fix_missing_locations(_ExpandNext().visit(_simplify(_Sub(store).visit(copy.deepcopy(e)))))


class _Simplify(ast.NodeTransformer):
    """Projections of literal tuples: (a, b)[1] -> b."""

    def visit_BinOp(self, n: ast.BinOp):
        """integer arithmetic on literals: (a, b)[1 - 0] -> (a, b)[1]"""
        self.generic_visit(n)
        if isinstance(n.left, ast.Constant) and isinstance(n.right, ast.Constant) and type(n.left.value) is int and type(n.right.value) is int and isinstance(n.op, (ast.Add, ast.Sub, ast.Mult)):
            a, b = n.left.value, n.right.value
            return ast.Constant(value=a + b if isinstance(n.op, ast.Add) else (a - b if isinstance(n.op, ast.Sub) else a * b))
        if isinstance(n.op, ast.Add) and isinstance(n.left, ast.Tuple) and isinstance(n.right, ast.Tuple) and not any(isinstance(x, ast.Starred) for x in n.left.elts + n.right.elts):
            return ast.Tuple(elts=list(n.left.elts) + list(n.right.elts), ctx=ast.Load())  # (a, b) + (c,) -> (a, b, c)
        return n

    def visit_Subscript(self, n: ast.Subscript):
        self.generic_visit(n)
        if isinstance(n.value, (ast.Tuple, ast.List)) and isinstance(n.slice, ast.Constant) and isinstance(n.slice.value, int) and not any(isinstance(x, ast.Starred) for x in n.value.elts):
            k = n.slice.value
            if -len(n.value.elts) <= k < len(n.value.elts):
                return n.value.elts[k]
        if isinstance(n.value, (ast.Tuple, ast.List)) and isinstance(n.slice, ast.Slice) and n.slice.step is None and not any(isinstance(x, ast.Starred) for x in n.value.elts):
            lo, hi = n.slice.lower, n.slice.upper
            if (lo is None or (isinstance(lo, ast.Constant) and type(lo.value) is int)) and (hi is None or (isinstance(hi, ast.Constant) and type(hi.value) is int)):
                elts = n.value.elts[(lo.value if lo is not None else None) : (hi.value if hi is not None else None)]
                return type(n.value)(elts=list(elts), ctx=ast.Load())  # (a, b, c)[1:] -> (b, c)
        return n


    def visit_Call(self, n: ast.Call):
        """f(*(a, b, c)) -> f(a, b, c);  map(f, (a, b)) -> [f(a), f(b)];  reversed((a, b)) -> (b, a);  any/all over a literal -> or/and"""
        self.generic_visit(n)
        if isinstance(n.func, ast.Name) and not n.keywords:
            lit = lambda e: isinstance(e, (ast.Tuple, ast.List)) and len(e.elts) <= 8 and not any(isinstance(x, ast.Starred) for x in e.elts)
            if n.func.id == "map" and len(n.args) == 2 and lit(n.args[1]) and isinstance(n.args[0], (ast.Name, ast.Attribute)):
                return ast.List(elts=[ast.Call(func=copy.deepcopy(n.args[0]), args=[x], keywords=[]) for x in n.args[1].elts], ctx=ast.Load())
            if n.func.id == "reversed" and len(n.args) == 1 and lit(n.args[0]):
                return ast.Tuple(elts=list(reversed(n.args[0].elts)), ctx=ast.Load())
            if n.func.id in ("tuple", "list") and len(n.args) == 1 and lit(n.args[0]):
                return (ast.Tuple if n.func.id == "tuple" else ast.List)(elts=list(n.args[0].elts), ctx=ast.Load())
            if n.func.id in ("any", "all") and len(n.args) == 1:
                a = n.args[0]
                if isinstance(a, ast.GeneratorExp):
                    a = self.visit_ListComp(ast.ListComp(elt=a.elt, generators=a.generators))
                if isinstance(a, (ast.List, ast.Tuple)) and a.elts and len(a.elts) <= 8:
                    return ast.BoolOp(op=ast.Or() if n.func.id == "any" else ast.And(), values=list(a.elts)) if len(a.elts) > 1 else a.elts[0]
        if any(isinstance(a, ast.Starred) and isinstance(a.value, (ast.Tuple, ast.List)) and not any(isinstance(x, ast.Starred) for x in a.value.elts) for a in n.args):
            args = []
            for a in n.args:
                if isinstance(a, ast.Starred) and isinstance(a.value, (ast.Tuple, ast.List)) and not any(isinstance(x, ast.Starred) for x in a.value.elts):
                    args.extend(a.value.elts)
                else:
                    args.append(a)
            n.args = args
        return n

    def visit_ListComp(self, n: ast.ListComp):
        """[f(x) for x in (a, b, c)] over a literal tuple/list, no filter -> [f(a), f(b), f(c)]"""
        self.generic_visit(n)
        if len(n.generators) == 1:
            g = n.generators[0]
            if not g.ifs and not g.is_async and isinstance(g.target, ast.Name) and isinstance(g.iter, (ast.Tuple, ast.List)) and len(g.iter.elts) <= 8 and not any(isinstance(x, ast.Starred) for x in g.iter.elts):
                elts = [self.visit(_Sub({g.target.id: x}).visit(copy.deepcopy(n.elt))) for x in g.iter.elts]
                return ast.List(elts=elts, ctx=ast.Load())
        return n


    def visit_GeneratorExp(self, n: ast.GeneratorExp):
        """(f(x) for x in (a, b, c)) over a literal: the members it yields, written out (it is consumed once: unpacking, any/all, sum)"""
        r = self.visit_ListComp(ast.ListComp(elt=n.elt, generators=n.generators))
        return r if isinstance(r, ast.List) else n


def _simplify(e: ast.AST) -> ast.AST:
    return _Simplify().visit(e)


class _ExpandNext(ast.NodeTransformer):
    """next((f(x) for x in (a, b) if c(x)), d)  ->  f(a) if c(a) else (f(b) if c(b) else d): the first member of a literal
    tuple that passes the filter (the generator is consumed by nothing else)."""

    def visit_Call(self, n: ast.Call):
        self.generic_visit(n)
        if isinstance(n.func, ast.Name) and n.func.id == "next" and len(n.args) == 2 and not n.keywords and isinstance(n.args[0], ast.GeneratorExp) and len(n.args[0].generators) == 1:
            g = n.args[0].generators[0]
            if isinstance(g.iter, (ast.Tuple, ast.List)) and len(g.iter.elts) <= 6 and not g.is_async and not any(isinstance(x, ast.Starred) for x in g.iter.elts):
                out: ast.expr = n.args[1]
                for x in reversed(g.iter.elts):
                    env: Dict[str, ast.expr] = {}
                    if isinstance(g.target, ast.Name):
                        env[g.target.id] = x
                    elif isinstance(g.target, ast.Tuple) and isinstance(x, ast.Tuple) and len(x.elts) == len(g.target.elts) and all(isinstance(t, ast.Name) for t in g.target.elts):
                        env.update({t.id: v for t, v in zip(g.target.elts, x.elts)})
                    else:
                        return n
                    elt = _simplify(_Sub(env).visit(copy.deepcopy(n.args[0].elt)))
                    conds = [_simplify(_Sub(env).visit(copy.deepcopy(c))) for c in g.ifs]
                    test = conds[0] if len(conds) == 1 else (ast.BoolOp(op=ast.And(), values=conds) if conds else ast.Constant(value=True))
                    out = ast.IfExp(test=test, body=elt, orelse=out)
                return out
        return n


def _is_const_text(t: str) -> bool:
    try:
        return isinstance(ast.parse(t, mode="eval").body, ast.Constant)
    except SyntaxError:
        return False


class _ReadBack(ast.NodeTransformer):
    """container[key] -> the value stored under that key earlier on the same path"""

    def __init__(self, items: Dict[Tuple[str, str], ast.expr]):
        self.items = items

    def visit_Subscript(self, n: ast.Subscript):
        self.generic_visit(n)
        if isinstance(n.ctx, ast.Load):
            v = self.items.get((txt(n.value), txt(n.slice)))
            if v is not None:
                return copy.deepcopy(v)
        return n


def _first_ifexp(e: ast.AST) -> Optional[ast.IfExp]:
    """Outermost conditional expression that is evaluated unconditionally when `e` is (not under a comprehension, lambda or the
    right side of a short-circuit)."""
    if isinstance(e, ast.IfExp):
        return e
    if isinstance(e, (ast.ListComp, ast.SetComp, ast.DictComp, ast.GeneratorExp, ast.Lambda)):
        return None
    if isinstance(e, ast.BoolOp):
        return _first_ifexp(e.values[0])
    for c in ast.iter_child_nodes(e):
        if isinstance(c, (ast.expr_context, ast.operator, ast.cmpop, ast.boolop, ast.unaryop)):
            continue
        r = _first_ifexp(c)
        if r is not None:
            return r
    return None


MUTATORS = {"append", "add", "extend", "update", "insert", "remove", "pop", "clear", "sort", "reverse", "discard", "setdefault", "popitem", "appendleft"}


# ---------------------------------------------------------------------------------------------------------------------
# the executor
# ---------------------------------------------------------------------------------------------------------------------
class _State:
    __slots__ = ("store", "conds", "effects", "events", "known", "loops", "guards", "items")

    def __init__(self, store=None, conds=None, effects=None, events=None, known=None, loops=(), guards=(), items=None):
        self.items: Dict[Tuple[str, str], ast.expr] = items if items is not None else {}  # container[key] = value stored on this path
        self.store: Dict[str, ast.expr] = store if store is not None else {}
        self.conds: List[Tuple[str, bool, ast.AST]] = conds if conds is not None else []
        self.effects: List[Effect] = effects if effects is not None else []
        self.events: List[Tuple[str, int]] = events if events is not None else []
        self.known: Dict[str, bool] = known if known is not None else {}
        self.loops: Tuple[LoopCtx, ...] = loops
        self.guards: Tuple[Tuple[str, bool, ast.AST], ...] = guards

    def fork(self) -> "_State":
        return _State(dict(self.store), list(self.conds), list(self.effects), list(self.events), dict(self.known), self.loops, self.guards, dict(self.items))


class Executor:
    def __init__(self, nonnull: Iterable[str] = (), limit: int = 20000, unroll_max: int = 6, rewrite: Optional[Callable[[ast.expr], ast.expr]] = None, helpers: Optional[Dict[str, ast.FunctionDef]] = None):
        self.helpers = dict(helpers or {})  # module-level helper functions whose calls are executed symbolically (parameters bound to the substituted arguments)
        self._depth = 0
        self.nonnull = set(nonnull)
        self.limit = limit
        self.unroll_max = unroll_max
        self.rewrite = rewrite  # hook applied to every substituted expression (e.g. role canonicalisation, constant folding)
        self.out: List[Path] = []
        self._serial = 0
        self._serials: Dict[int, int] = {}

    # ---- expressions ------------------------------------------------------------------------------------------------
    def sub(self, e: ast.expr, st: _State) -> ast.expr:
        r = subst(e, st.store)
        if self.rewrite is not None:
            r = self.rewrite(r)
        if st.items:
            r = _ReadBack(st.items).visit(r)
        return r

    def decide(self, test: ast.expr, st: _State):
        """Yield (value, state') for every outcome of the (already substituted) test, in short-circuit order."""
        test = strip_bool(test)
        if isinstance(test, ast.UnaryOp) and isinstance(test.op, ast.Not):
            for v, s2 in self.decide(test.operand, st):
                yield (not v), s2
            return
        if isinstance(test, ast.BoolOp):
            is_and = isinstance(test.op, ast.And)

            def rec(i: int, s: _State):
                if i == len(test.values):
                    yield is_and, s
                    return
                for v, s2 in self.decide(test.values[i], s):
                    if v != is_and:
                        yield v, s2
                    else:
                        yield from rec(i + 1, s2)

            yield from rec(0, st)
            return
        if isinstance(test, ast.IfExp):
            for v, s2 in self.decide(test.test, st):
                yield from self.decide(test.body if v else test.orelse, s2)
            return
        if isinstance(test, ast.Compare) and len(test.ops) > 1:
            # a < b < c  ->  a < b and b < c
            parts = []
            left = test.left
            for op, right in zip(test.ops, test.comparators):
                parts.append(ast.Compare(left=left, ops=[op], comparators=[right]))
                left = right
            yield from self.decide(ast.BoolOp(op=ast.And(), values=parts), st)
            return
        atom, pol = canon_atom(test)
        lit = _literal_truth(atom, self.nonnull)
        if lit is not None:
            yield (lit == pol), st
            return
        key = txt(atom)
        if key in st.known:
            yield (st.known[key] == pol), st
            return
        for v in (True, False):
            s2 = st.fork()
            s2.known[key] = v
            s2.conds.append((key, v, atom))
            s2.events.append(("cond", len(s2.conds) - 1))
            if s2.loops:
                s2.guards = s2.guards + ((key, v, atom),)
            yield (v == pol), s2

    # ---- statements -------------------------------------------------------------------------------------------------
    def _invalidate(self, st: _State, names: Set[str]) -> None:
        if not names:
            return
        for k in list(st.known):
            try:
                used = {x.id for x in ast.walk(ast.parse(k, mode="eval")) if isinstance(x, ast.Name)}
            except SyntaxError:
                used = names
            if used & names:
                del st.known[k]

    def _bind(self, target: ast.AST, value: ast.expr, st: _State) -> None:
        if isinstance(target, ast.Name):
            st.store[target.id] = value
            self._invalidate(st, {target.id})
        elif isinstance(target, (ast.Tuple, ast.List)):
            if any(isinstance(x, ast.Starred) for x in target.elts):
                for x in ast.walk(target):
                    if isinstance(x, ast.Name):
                        st.store[x.id] = opaque(x.id, "starred unpacking")
                return
            if isinstance(value, (ast.Tuple, ast.List)) and len(value.elts) == len(target.elts) and not any(isinstance(x, ast.Starred) for x in value.elts):
                for t, v in zip(target.elts, value.elts):
                    self._bind(t, v, st)
            else:
                for i, t in enumerate(target.elts):
                    self._bind(t, ast.Subscript(value=value, slice=ast.Constant(value=i), ctx=ast.Load()), st)
        elif isinstance(target, ast.Subscript):
            recv = self.sub(target.value, st)
            key = self.sub(target.slice, st)
            self._effect(Effect("setitem", txt(recv), "[]=", [key, value], target, None), st)
            if not st.loops:
                st.items[(txt(recv), txt(key))] = value  # a later `recv[key]` on this path reads this value back
        elif isinstance(target, ast.Attribute):
            recv = self.sub(target.value, st)
            self._effect(Effect("setattr", txt(recv), target.attr, [value], target, None), st)

    def _effect(self, ef: Effect, st: _State) -> None:
        ef.loops = st.loops
        ef.guards = st.guards
        if st.items and (ef.kind != "call" or ef.method in MUTATORS):
            # a store under another key leaves the remembered items alone; any other mutation of the container forgets them
            only = txt(ef.args[0]) if ef.kind == "setitem" and ef.args and isinstance(ef.args[0], ast.Constant) else None
            for k in [k for k in st.items if k[0] == ef.recv and (only is None or k[1] == only or not _is_const_text(k[1]))]:
                del st.items[k]
        st.effects.append(ef)
        st.events.append(("effect", len(st.effects) - 1))
        if ef.kind != "call" or ef.method in MUTATORS:
            base = ef.recv.split(".")[0].split("[")[0]
            self._invalidate(st, {base})

    def _first_helper_call(self, e: ast.AST) -> Optional[ast.Call]:
        """Innermost-first helper call that is evaluated unconditionally when `e` is."""
        if isinstance(e, (ast.ListComp, ast.SetComp, ast.DictComp, ast.GeneratorExp, ast.Lambda)):
            return None
        kids = [e.values[0]] if isinstance(e, ast.BoolOp) else ([e.test] if isinstance(e, ast.IfExp) else [c for c in ast.iter_child_nodes(e) if not isinstance(c, (ast.expr_context, ast.operator, ast.cmpop, ast.boolop, ast.unaryop))])
        for c in kids:
            r = self._first_helper_call(c)
            if r is not None:
                return r
        if isinstance(e, ast.Call) and isinstance(e.func, ast.Name) and e.func.id in self.helpers and not e.keywords and not any(isinstance(a, ast.Starred) for a in e.args):
            return e
        return None

    def _run_helper(self, call: ast.Call, st: _State, then: Callable[[ast.expr, _State], None]) -> None:
        fn = self.helpers[call.func.id]
        params = [a.arg for a in fn.args.args]
        if len(call.args) > len(params) or fn.args.vararg or fn.args.kwarg or self._depth > 4:
            then(opaque(call.func.id, "helper call not bound"), st)
            return
        defaults = dict(zip(params[len(params) - len(fn.args.defaults) :], fn.args.defaults))
        inner_store: Dict[str, ast.expr] = {}
        for k, p in enumerate(params):
            if k < len(call.args):
                inner_store[p] = call.args[k]
            elif p in defaults:
                inner_store[p] = copy.deepcopy(defaults[p])
            else:
                then(opaque(call.func.id, "missing argument"), st)
                return
        outer_store = st.store
        body = [b for b in fn.body if not (isinstance(b, ast.Expr) and isinstance(b.value, ast.Constant))]
        st.store = inner_store
        self._depth += 1

        def end(s2: _State, ex: str, r) -> None:
            s2.store = dict(outer_store)
            if ex == "raise":
                return  # the helper raises: the caller's path ends (not followed)
            self._depth -= 1
            try:
                then(r if (ex == "return" and r is not None) else ast.Constant(value=None), s2)
            finally:
                self._depth += 1

        try:
            self.run_block(body, 0, st, end)
        finally:
            self._depth -= 1

    def _lift(self, roots: List[ast.expr], st: _State, then: Callable[[List[ast.expr], _State], None]) -> None:
        """Resolve conditional expressions inside already substituted expressions by forking on their tests."""
        if self.helpers:
            for i, r in enumerate(roots):
                hc = self._first_helper_call(r)
                if hc is not None:
                    def cont(val: ast.expr, s2: _State, i=i, r=r, hc=hc) -> None:
                        new = list(roots)
                        new[i] = val if r is hc else self._replace(r, hc, val)
                        self._lift(new, s2, then)

                    self._run_helper(hc, st, cont)
                    return
        for i, r in enumerate(roots):
            ie = _first_ifexp(r)
            if ie is not None:
                for v, s2 in self.decide(ie.test, st):
                    chosen = copy.deepcopy(ie.body if v else ie.orelse)
                    new = list(roots)
                    new[i] = chosen if r is ie else self._replace(r, ie, chosen)
                    self._lift(new, s2, then)
                return
        then(roots, st)

    @staticmethod
    def _replace(root: ast.expr, target: ast.AST, value: ast.expr) -> ast.expr:
        # replace by identity inside a deep copy: locate the path to target first
        path = _find_path(root, target)
        if path is None:
            return root
        new_root = copy.deepcopy(root)
        node: Any = new_root
        for fld, idx in path[:-1]:
            node = getattr(node, fld)
            if idx is not None:
                node = node[idx]
        fld, idx = path[-1]
        if idx is None:
            setattr(node, fld, value)
        else:
            getattr(node, fld)[idx] = value
        return ast.fix_missing_locations(_simplify(new_root))

    def _calls_of(self, e: ast.AST, stmt: ast.stmt, st: _State) -> None:
        """Record the method calls with side effects that occur inside an expression (substituted)."""
        for n in ast.walk(e):
            if isinstance(n, ast.Call) and isinstance(n.func, ast.Attribute) and n.func.attr in MUTATORS:
                self._effect(Effect("call", txt(n.func.value), n.func.attr, list(n.args), n, stmt, keywords={k.arg: k.value for k in n.keywords if k.arg}), st)

    def run_block(self, stmts: Sequence[ast.stmt], i: int, st: _State, cont: Callable[[_State, str, Optional[ast.expr]], None]) -> None:
        """cont(state, exit, ret) is called at the end of every path of the block ('fall' when it runs off the end)."""
        if len(self.out) > self.limit:
            raise TooManyPaths(f"more than {self.limit} paths")
        if i == len(stmts):
            cont(st, "fall", None)
            return
        s = stmts[i]

        def nxt(s2: _State) -> None:
            self.run_block(stmts, i + 1, s2, cont)

        if isinstance(s, ast.If):
            def branch(rs, s1):
                for v, s2 in self.decide(rs[0], s1):
                    self.run_block(list(s.body if v else s.orelse), 0, s2, lambda s3, ex, r: nxt(s3) if ex == "fall" else cont(s3, ex, r))

            t = self.sub(s.test, st)
            if self.helpers and self._first_helper_call(t) is not None:
                self._lift([t], st, branch)
            else:
                branch([t], st)
            return
        if isinstance(s, ast.Continue):
            cont(st, "continue", None)
            return
        if isinstance(s, ast.Break):
            cont(st, "break", None)
            return
        if isinstance(s, ast.Return):
            if s.value is None:
                cont(st, "return", ast.Constant(value=None))
                return
            v = self.sub(s.value, st)
            self._lift([v], st, lambda rs, s2: (self._calls_of(rs[0], s, s2), cont(s2, "return", rs[0])))
            return
        if isinstance(s, ast.Raise):
            cont(st, "raise", self.sub(s.exc, st) if s.exc is not None else None)
            return
        if isinstance(s, ast.Assert):
            for v, s2 in self.decide(self.sub(s.test, st), st):
                if v:
                    nxt(s2)
                else:
                    cont(s2, "raise", None)
            return
        if isinstance(s, (ast.Pass, ast.Global, ast.Nonlocal, ast.Import, ast.ImportFrom)):
            nxt(st)
            return
        if isinstance(s, (ast.FunctionDef, ast.AsyncFunctionDef, ast.ClassDef)):
            st.store[s.name] = opaque(s.name, "nested definition")
            nxt(st)
            return
        if isinstance(s, ast.Assign):
            v = self.sub(s.value, st)

            def do(rs, s2):
                self._calls_of(rs[0], s, s2)
                for t in s.targets:
                    self._bind(t, rs[0], s2)
                nxt(s2)

            self._lift([v], st, do)
            return
        if isinstance(s, ast.AnnAssign):
            if s.value is None:
                nxt(st)
                return
            v = self.sub(s.value, st)

            def do2(rs, s2):
                self._calls_of(rs[0], s, s2)
                self._bind(s.target, rs[0], s2)
                nxt(s2)

            self._lift([v], st, do2)
            return
        if isinstance(s, ast.AugAssign):
            v = self.sub(s.value, st)
            if isinstance(s.target, ast.Name):
                cur = self.sub(ast.Name(id=s.target.id, ctx=ast.Load()), st)
                # in-place operators on containers are mutations of the object every alias sees
                if isinstance(cur, ast.Name) and isinstance(s.op, (ast.BitOr, ast.Add)):
                    self._effect(Effect("call", txt(cur), "update" if isinstance(s.op, ast.BitOr) else "extend", [v], s, s), st)
                    if cur.id != s.target.id or s.target.id not in st.store:
                        nxt(st)
                        return
                st.store[s.target.id] = ast.BinOp(left=cur, op=s.op, right=v)
                self._invalidate(st, {s.target.id})
            else:
                self._bind(s.target, opaque(txt(s.target), "augmented store"), st)
            nxt(st)
            return
        if isinstance(s, ast.Delete):
            for t in s.targets:
                if isinstance(t, ast.Name):
                    st.store[t.id] = opaque(t.id, "deleted")
                elif isinstance(t, ast.Subscript):
                    self._effect(Effect("delitem", txt(self.sub(t.value, st)), "del[]", [self.sub(t.slice, st)], t, s), st)
            nxt(st)
            return
        if isinstance(s, ast.Expr):
            v = self.sub(s.value, st)

            def do3(rs, s2):
                e = rs[0]
                if isinstance(e, ast.Call) and isinstance(e.func, ast.Attribute):
                    for a in e.args:
                        self._calls_of(a, s, s2)
                    self._effect(Effect("call", txt(e.func.value), e.func.attr, list(e.args), s.value, s, keywords={k.arg: k.value for k in e.keywords if k.arg}), s2)
                elif isinstance(e, ast.Call):
                    self._effect(Effect("expr", txt(e.func), "()", list(e.args), s.value, s), s2)
                else:
                    self._calls_of(e, s, s2)
                nxt(s2)

            self._lift([v], st, do3)
            return
        if isinstance(s, (ast.For, ast.AsyncFor)):
            self._for(s, st, nxt, cont)
            return
        if isinstance(s, ast.While):
            self._generic_loop(s, None, st, nxt, cont)
            return
        if isinstance(s, (ast.With, ast.AsyncWith)):
            for it in s.items:
                if it.optional_vars is not None:
                    self._bind(it.optional_vars, self.sub(it.context_expr, st), st)
            self.run_block(list(s.body), 0, st, lambda s3, ex, r: nxt(s3) if ex == "fall" else cont(s3, ex, r))
            return
        if isinstance(s, ast.Try):
            self.run_block(list(s.body) + list(s.orelse) + list(s.finalbody), 0, st.fork(), lambda s3, ex, r: nxt(s3) if ex == "fall" else cont(s3, ex, r))
            for h in s.handlers:
                s4 = st.fork()
                for n in ast.walk(ast.Module(body=list(s.body), type_ignores=[])):
                    if isinstance(n, ast.Name) and isinstance(n.ctx, ast.Store):
                        s4.store[n.id] = opaque(n.id, "assigned in a try body that raised")
                s4.known = {}
                s4.conds.append((f"<exception {txt(h.type) if h.type is not None else 'any'}>", True, h))
                s4.events.append(("cond", len(s4.conds) - 1))
                if h.name:
                    s4.store[h.name] = opaque(h.name, "exception")
                self.run_block(list(h.body) + list(s.finalbody), 0, s4, lambda s3, ex, r: nxt(s3) if ex == "fall" else cont(s3, ex, r))
            return
        # anything else (match, ...): opaque for every name it stores
        for n in ast.walk(s):
            if isinstance(n, ast.Name) and isinstance(n.ctx, ast.Store):
                st.store[n.id] = opaque(n.id, type(s).__name__)
        nxt(st)

    # ---- loops ------------------------------------------------------------------------------------------------------
    def _for(self, s: ast.For, st: _State, nxt, cont) -> None:
        it = self.sub(s.iter, st)
        if isinstance(it, (ast.Tuple, ast.List)) and len(it.elts) <= self.unroll_max and not any(isinstance(x, ast.Starred) for x in it.elts):
            elts = list(it.elts)

            def iteration(k: int, s2: _State) -> None:
                if k == len(elts):
                    # loop exhausted: else clause
                    self.run_block(list(s.orelse), 0, s2, lambda s3, ex, r: nxt(s3) if ex == "fall" else cont(s3, ex, r))
                    return
                self._bind(s.target, copy.deepcopy(elts[k]), s2)

                def after(s3: _State, ex: str, r) -> None:
                    if ex in ("fall", "continue"):
                        iteration(k + 1, s3)
                    elif ex == "break":
                        nxt(s3)
                    else:
                        cont(s3, ex, r)

                self.run_block(list(s.body), 0, s2, after)

            iteration(0, st)
            return
        self._generic_loop(s, it, st, nxt, cont)

    def _generic_loop(self, s, it: Optional[ast.expr], st: _State, nxt, cont) -> None:
        self._serial = self._serials.setdefault(id(s), len(self._serials) + 1)  # one number per loop statement, whatever path reaches it
        has_exit = any(isinstance(n, (ast.Break, ast.Return)) for b in s.body for n in ast.walk(b))
        ctx = LoopCtx(it if it is not None else ast.Constant(value="<while>"), s, self._serial, partial=has_exit)
        inner = st.fork()
        inner.loops = st.loops + (ctx,)
        if isinstance(s, ast.While):
            pass
        else:
            self._bind_loop_target(s.target, it, inner)
        n_eff = len(st.effects)
        n_cond = len(st.conds)
        collected: List[Effect] = []
        returns: List[Tuple[_State, Optional[ast.expr]]] = []

        def end(s3: _State, ex: str, r) -> None:
            collected.extend(s3.effects[n_eff:])
            if ex in ("return", "raise"):
                returns.append((s3, r, ex))

        body = list(s.body)
        if isinstance(s, ast.While):
            # the loop test guards the body
            for v, s2 in self.decide(self.sub(s.test, inner), inner):
                if v:
                    self.run_block(body, 0, s2, end)
        else:
            self.run_block(body, 0, inner, end)
        # de-duplicate effects reached through several inner paths (same node, same guards)
        seen = set()
        after = st  # continue on the same state object
        for ef in collected:
            k = (id(ef.node), ef.text(), tuple((g[0], g[1]) for g in ef.guards))
            if k in seen:
                continue
            seen.add(k)
            after.effects.append(ef)
            after.events.append(("effect", len(after.effects) - 1))
        assigned = {n.id for b in s.body for n in ast.walk(b) if isinstance(n, ast.Name) and isinstance(n.ctx, ast.Store)}
        if not isinstance(s, ast.While):
            assigned |= {n.id for n in ast.walk(s.target) if isinstance(n, ast.Name)}
        for nm in assigned:
            after.store[nm] = opaque(nm, "assigned in a loop")
        touched = set(assigned)
        for ef in collected:
            if ef.kind != "call" or ef.method in MUTATORS:
                touched.add(ef.recv.split(".")[0].split("[")[0])
        self._invalidate(after, touched)
        for s3, r, ex in returns:
            cont(s3, ex, r)
        if s.orelse:
            self.run_block(list(s.orelse), 0, after, lambda s4, ex, r: nxt(s4) if ex == "fall" else cont(s4, ex, r))
        else:
            nxt(after)

    def _bind_loop_target(self, target: ast.AST, it: ast.expr, st: _State) -> None:
        serial = self._serial
        f = txt(it.func) if isinstance(it, ast.Call) else None
        if isinstance(target, (ast.Tuple, ast.List)) and isinstance(it, ast.Call) and not it.keywords and not any(isinstance(a, ast.Starred) for a in it.args):
            if f in ("itertools.product", "product", "zip") and len(it.args) == len(target.elts):
                for t, a in zip(target.elts, it.args):
                    self._bind_loop_target(t, a, st)
                return
            if f == "enumerate" and len(it.args) >= 1 and len(target.elts) == 2:
                self._bind(target.elts[0], elem(ast.Call(func=ast.Name(id="range", ctx=ast.Load()), args=[ast.Call(func=ast.Name(id="len", ctx=ast.Load()), args=[it.args[0]], keywords=[])], keywords=[]), serial), st)
                self._bind_loop_target(target.elts[1], it.args[0], st)
                return
        self._bind(target, elem(it, serial), st)

    # ---- entry ------------------------------------------------------------------------------------------------------
    def run(self, block: Sequence[ast.stmt], env: Optional[Dict[str, ast.expr]] = None) -> List[Path]:
        self.out = []
        st = _State(store=dict(env or {}))

        def done(s: _State, ex: str, r) -> None:
            self.out.append(Path(s.conds, s.effects, ex, r, s.store, s.events))
            if len(self.out) > self.limit:
                raise TooManyPaths(f"more than {self.limit} paths")

        self.run_block(list(block), 0, st, done)
        return self.out


def _find_path(root: ast.AST, target: ast.AST) -> Optional[List[Tuple[str, Optional[int]]]]:
    if root is target:
        return []
    for fld, val in ast.iter_fields(root):
        if isinstance(val, ast.AST):
            if val is target:
                return [(fld, None)]
            p = _find_path(val, target)
            if p is not None:
                return [(fld, None)] + p
        elif isinstance(val, list):
            for i, x in enumerate(val):
                if isinstance(x, ast.AST):
                    if x is target:
                        return [(fld, i)]
                    p = _find_path(x, target)
                    if p is not None:
                        return [(fld, i)] + p
    return None


def run(block: Sequence[ast.stmt], env: Optional[Dict[str, ast.expr]] = None, nonnull: Iterable[str] = (), limit: int = 20000, rewrite=None) -> List[Path]:
    return Executor(nonnull=nonnull, limit=limit, rewrite=rewrite).run(block, env)


def nonnull_locals(func: ast.AST) -> Set[str]:
    """Locals of a function whose every binding is a container display / comprehension / constructor call: never None."""
    ctor = {"set", "list", "dict", "tuple", "Counter", "defaultdict", "OrderedSet", "OrderedDict", "deque", "frozenset", "KDTree", "sorted"}
    good: Dict[str, bool] = {}
    for n in ast.walk(func):
        tv: List[Tuple[ast.AST, Optional[ast.expr]]] = []
        if isinstance(n, ast.Assign):
            tv = [(t, n.value) for t in n.targets]
        elif isinstance(n, ast.AnnAssign) and n.value is not None:
            tv = [(n.target, n.value)]
        elif isinstance(n, (ast.For, ast.AsyncFor)):
            tv = [(n.target, None)]
        elif isinstance(n, ast.AugAssign):
            tv = [(n.target, None)] if not isinstance(n.op, (ast.BitOr, ast.Add)) else []
        elif isinstance(n, ast.NamedExpr):
            tv = [(n.target, n.value)]
        for t, v in tv:
            if isinstance(t, ast.Name):
                ok = v is not None and (isinstance(v, (ast.List, ast.Dict, ast.Set, ast.ListComp, ast.SetComp, ast.DictComp, ast.Tuple)) or (isinstance(v, ast.Call) and isinstance(v.func, ast.Name) and v.func.id in ctor))
                good[t.id] = good.get(t.id, True) and ok
            else:
                if isinstance(t, (ast.Tuple, ast.List)) and isinstance(v, (ast.Tuple, ast.List)) and len(v.elts) == len(t.elts):
                    for a, b in zip(t.elts, v.elts):
                        if isinstance(a, ast.Name):
                            ok = isinstance(b, (ast.List, ast.Dict, ast.Set, ast.ListComp, ast.SetComp, ast.DictComp)) or (isinstance(b, ast.Call) and isinstance(b.func, ast.Name) and b.func.id in ctor)
                            good[a.id] = good.get(a.id, True) and ok
                else:
                    for x in ast.walk(t):
                        if isinstance(x, ast.Name):
                            good[x.id] = False
    for a in getattr(getattr(func, "args", None), "args", []) or []:
        good[a.arg] = False
    return {k for k, v in good.items() if v}
