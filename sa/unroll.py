"""Normalisation: unpacking of a comprehension over a literal tuple is the same as the assignments written out.

    a, b, c = (f(v) for v in (x, y, z))      ->      a = f(x); b = f(y); c = f(z)

The generator is consumed by the unpacking in order, so the element expression is evaluated for x, y, z in turn and
the targets are bound afterwards.  Writing the assignments out one after the other is the same computation provided
no target name occurs in the element expression or in the iterated elements (otherwise a later element would read an
already re-bound name), the iterated elements are side-effect free names/attributes/constants, and the loop variable
is not re-bound inside the element.  Only that case is rewritten (in place, line numbers kept); everything else is
left as written.  Like sa/align.py and sa/inline.py this is a reading aid that runs before the rules look at a
function: it never produces a verdict.
"""
from __future__ import annotations

import ast
import copy
from typing import List, Optional


def _simple(e: ast.AST) -> bool:
    if isinstance(e, (ast.Name, ast.Constant)):
        return True
    if isinstance(e, ast.Attribute):
        return _simple(e.value)
    return False


class _Subst(ast.NodeTransformer):
    def __init__(self, name: str, value: ast.AST):
        self.name, self.value = name, value

    def visit_Name(self, n: ast.Name):
        if n.id == self.name and isinstance(n.ctx, ast.Load):
            return copy.deepcopy(self.value)
        return n


def expand(st: ast.stmt) -> Optional[List[ast.stmt]]:
    """The list of single assignments equivalent to `t1, ..., tn = (E for v in (a1, ..., an))`, or None."""
    if not (isinstance(st, ast.Assign) and len(st.targets) == 1 and isinstance(st.targets[0], (ast.Tuple, ast.List))):
        return None
    tg = st.targets[0].elts
    comp = st.value
    if not isinstance(comp, (ast.GeneratorExp, ast.ListComp)) or len(comp.generators) != 1:
        return None
    g = comp.generators[0]
    if g.ifs or g.is_async or not isinstance(g.target, ast.Name) or not isinstance(g.iter, (ast.Tuple, ast.List)):
        return None
    items = g.iter.elts
    if len(items) != len(tg) or not all(isinstance(t, ast.Name) for t in tg) or not all(_simple(x) for x in items):
        return None
    var = g.target.id
    tnames = {t.id for t in tg}
    if len(tnames) != len(tg):
        return None
    used = {n.id for x in [comp.elt] + list(items) for n in ast.walk(x) if isinstance(n, ast.Name)}
    if tnames & used or var in tnames:
        return None
    # the loop variable must not be re-bound inside the element (nested comprehension, lambda parameter, walrus)
    for n in ast.walk(comp.elt):
        if isinstance(n, ast.comprehension) and any(isinstance(x, ast.Name) and x.id == var for x in ast.walk(n.target)):
            return None
        if isinstance(n, ast.Lambda) and any(a.arg == var for a in n.args.args + n.args.posonlyargs + n.args.kwonlyargs):
            return None
        if isinstance(n, ast.NamedExpr):
            return None
    out: List[ast.stmt] = []
    for t, x in zip(tg, items):
        val = _Subst(var, x).visit(copy.deepcopy(comp.elt))
        new = ast.Assign(targets=[ast.Name(id=t.id, ctx=ast.Store())], value=val)
        ast.copy_location(new, st)
        for n in ast.walk(new):
            if hasattr(n, "lineno") or isinstance(n, (ast.expr, ast.stmt)):
                n.lineno = st.lineno
                n.end_lineno = getattr(st, "end_lineno", st.lineno)
                n.col_offset = getattr(n, "col_offset", 0) or 0
                n.end_col_offset = getattr(n, "end_col_offset", 0) or 0
        out.append(new)
    return out


def unroll_in_function(fn: ast.AST) -> int:
    """Rewrite every such statement in the blocks of fn (in place); returns the number of statements rewritten."""
    done = 0
    for parent in list(ast.walk(fn)):
        for field in ("body", "orelse", "finalbody"):
            blk = getattr(parent, field, None)
            if not (isinstance(blk, list) and blk and isinstance(blk[0], ast.stmt)):
                continue
            i = 0
            while i < len(blk):
                new = expand(blk[i])
                if new:
                    blk[i : i + 1] = new
                    i += len(new)
                    done += 1
                else:
                    i += 1
    return done
