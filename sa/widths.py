"""A2 (part): widths of string-building expressions - the column layout a formatter produces.

width(expr): literal strings by length, f-string fields by their format spec width (`{x:8.3f}` -> 8, `{n:>4}` -> 4),
`.ljust(n)/.rjust(n)/.center(n)` -> n, `s[:1]` -> 1, names by their (branch-joined) reaching widths.  The layout of a
line f-string is the running sum: [(provenance key, start, end)].  Provenance = the `atom_data.get("<key>")` a value
derives from."""
from __future__ import annotations

import ast
import re
from typing import Any, Dict, List, Optional, Tuple


def spec_width(fs: Optional[ast.AST]) -> Optional[int]:
    if fs is None:
        return None
    spec = "".join(x.value for x in fs.values if isinstance(x, ast.Constant)) if isinstance(fs, ast.JoinedStr) else ""
    m = re.match(r"(?:.?[<>^=])?[+\- ]?#?0?(\d+)", spec)
    return int(m.group(1)) if m else None


def width_of(e: ast.AST, env: Dict[str, Any]) -> Any:
    if isinstance(e, ast.Constant) and isinstance(e.value, str):
        return len(e.value)
    if isinstance(e, ast.JoinedStr):
        w = 0
        for v in e.values:
            if isinstance(v, ast.Constant):
                w += len(v.value)
            else:
                sw = spec_width(v.format_spec)
                if sw is None:
                    sw = width_of(v.value, env)
                if not isinstance(sw, int):
                    return None
                w += sw
        return w
    if isinstance(e, ast.Name):
        return env.get(e.id)
    if isinstance(e, ast.Call) and isinstance(e.func, ast.Attribute) and e.func.attr in ("ljust", "rjust", "center") and e.args and isinstance(e.args[0], ast.Constant):
        return e.args[0].value
    if isinstance(e, ast.BinOp) and isinstance(e.op, ast.Add):
        a, b = width_of(e.left, env), width_of(e.right, env)
        return a + b if isinstance(a, int) and isinstance(b, int) else None
    if isinstance(e, ast.Subscript) and isinstance(e.slice, ast.Slice) and e.slice.lower is None and isinstance(e.slice.upper, ast.Constant):
        return ("max", e.slice.upper.value)
    return None


def source_key(e: ast.AST, kenv: Dict[str, str], getter: str = "atom_data.get") -> Optional[str]:
    for n in ast.walk(e):
        if isinstance(n, ast.Call) and ast.unparse(n.func) == getter and n.args and isinstance(n.args[0], ast.Constant):
            return n.args[0].value
        if isinstance(n, ast.Subscript) and ast.unparse(n.value) == getter.split(".")[0] and isinstance(n.slice, ast.Constant):
            return n.slice.value
    for n in ast.walk(e):
        if isinstance(n, ast.Name) and n.id in kenv:
            return kenv[n.id]
    return None


def scan(stmts: List[ast.stmt], wenv: Dict[str, Any], kenv: Dict[str, str], getter: str = "atom_data.get") -> None:
    for st in stmts:
        if isinstance(st, ast.Assign) and len(st.targets) == 1 and isinstance(st.targets[0], ast.Name):
            t = st.targets[0].id
            wenv[t] = width_of(st.value, wenv)
            k = source_key(st.value, kenv, getter)
            if k:
                kenv[t] = k
        elif isinstance(st, ast.If):
            before = dict(wenv)
            scan(st.body, wenv, kenv, getter)
            after_then = dict(wenv)
            wenv.clear()
            wenv.update(before)
            scan(st.orelse, wenv, kenv, getter)
            for k in set(after_then) | set(wenv):
                a, b = after_then.get(k), wenv.get(k)
                if a != b:
                    wenv[k] = None if (a is None or b is None) else ("mismatch", a, b)
        elif isinstance(st, ast.Try):
            scan(st.body, wenv, kenv, getter)
            for h in st.handlers:
                scan(h.body, wenv, kenv, getter)


def layout(line: ast.JoinedStr, wenv: Dict[str, Any], kenv: Dict[str, str]) -> Tuple[List[Tuple[str, int, int]], Any]:
    col = 0
    out: List[Tuple[str, int, int]] = []
    for v in line.values:
        if isinstance(v, ast.Constant):
            col += len(v.value)
            continue
        name = ast.unparse(v.value)
        w = spec_width(v.format_spec)
        if w is None:
            w = width_of(v.value, wenv)
        if not isinstance(w, int):
            return out, (name, w)
        key = kenv.get(name, name) if isinstance(v.value, ast.Name) else (source_key(v.value, kenv) or name)
        out.append((key, col, col + w))
        col += w
    return out, col
