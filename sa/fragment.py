"""Fragment evaluation, second layer: what the rules of round 3 need on top of sa/blockeval.py.

Still the device of DESIGN 1.2 item 4 - a fragment of the analysed source is *interpreted from its ast* on one
representative per class of a finite input partition; nothing of the repository is imported or executed - with three
additions that make it independent of how the fragment is factored:

* `Obj`: a record stub (attributes given by the rule) standing for an atom, a residue, a table, a buffer ...
* `Folder2`: the constant folder with keyword arguments for rule-supplied callables and stub methods,
  `dict.setdefault`, `itertools.groupby` (materialised runs) and `str.format`-free helpers only.
* `BlockEval2`: nested `def` statements become interpreted closures, `raise` ends the evaluation with kind 'raise',
  an expression statement that is a call of a stub method / rule-supplied callable is folded.
* `func_callable` / `module_callables`: a FunctionDef of the analysed module as a callable that *interprets its body*
  (used for helpers a refactoring extracted, so that a rule sees through `x = helper(...)` without pinning the helper).
* generator functions (round 4): a FunctionDef with `yield` / `yield from` becomes a callable returning a `GenObj`, a *lazy*
  one-shot iterator - the body is interpreted up to the next `yield` each time the consumer asks for an element (a
  comprehension, a `for` statement - sa/blockeval.py iterates with the language's own protocol -, `next()`), so that the interleaving of producer and consumer (a buffer that is yielded
  and then cleared, a residue built as soon as its run is complete) is the one Python has.
"""
from __future__ import annotations

import ast
import itertools
import threading
from typing import Any, Callable, Dict, Iterable, List, Optional, Sequence

from sa.blockeval import BASE, BlockEval, Unknown, _Rewrite, _Stop
from sa.consteval import Folder, NotConst


class Obj:
    """Record stub: attributes are whatever the rule gives it; methods can be attached as attributes too."""

    _folder_stub = True

    def __init__(self, _tag: str = "obj", **kw: Any):
        self.__dict__.update(kw)
        self._tag = _tag

    def __repr__(self) -> str:
        return self._tag


class Raised(Exception):
    """An explicit `raise X(...)` of the interpreted fragment (kept as a Python exception so that try/except of the fragment sees it)."""

    def __init__(self, name: str, text: str = ""):
        super().__init__(text)
        self.name = name


class GenObj:
    """Lazy one-shot iterator over the values an interpreted generator body yields.  The body runs in a helper thread that is
    strictly alternated with the consumer (one of the two is always blocked), so the evaluation stays sequential and
    deterministic; exceptions of the body (Raised, Unknown, builtin errors) surface at the `next()` that reaches them."""

    def __init__(self, start: Callable[[Callable[[Any], None]], None], name: str = "generator"):
        self._start, self._name = start, name
        self._thread: Optional[threading.Thread] = None
        self._to_gen, self._to_con = threading.Semaphore(0), threading.Semaphore(0)
        self._item: Any = None
        self._exc: Optional[BaseException] = None
        self._done = False

    def __repr__(self) -> str:
        return f"<generator {self._name}>"

    def __iter__(self):
        return self

    def __next__(self):
        if self._done:
            raise StopIteration
        if self._thread is None:
            self._thread = threading.Thread(target=self._run, daemon=True)
            self._thread.start()
        else:
            self._to_gen.release()
        self._to_con.acquire()
        if self._exc is not None:
            ex, self._exc = self._exc, None
            raise ex
        if self._done:
            raise StopIteration
        return self._item

    def _run(self) -> None:
        try:
            self._start(self._yield)
        except BaseException as ex:  # handed to the consumer
            self._exc = ex
        self._done = True
        self._to_con.release()

    def _yield(self, v: Any) -> None:
        self._item = v
        self._to_con.release()
        self._to_gen.acquire()


def is_generator_def(fdef: ast.AST) -> bool:
    """`yield` / `yield from` in the body of the function itself (not of a nested def / lambda)."""
    stack = list(getattr(fdef, "body", []))
    while stack:
        n = stack.pop()
        if isinstance(n, (ast.Yield, ast.YieldFrom)):
            return True
        if isinstance(n, (ast.FunctionDef, ast.AsyncFunctionDef, ast.Lambda, ast.ClassDef)):
            continue
        stack.extend(ast.iter_child_nodes(n))
    return False


def _groupby(it: Iterable[Any], key: Optional[Callable] = None):
    return [(k, list(g)) for k, g in itertools.groupby(list(it), key)]


# builtins called with keyword arguments: (implementation on folded values, accepted keywords)
_KW_BUILTINS: Dict[str, Any] = {
    "enumerate": (lambda it, start=0: list(enumerate(it, start)), {"start"}),
    "zip": (lambda *a, strict=False: list(zip(*a, strict=strict)), {"strict"}),
    "sum": (lambda it, start=0: sum(it, start), {"start"}),
    "round": (round, {"ndigits"}),
    "int": (int, {"base"}),
    "print": (lambda *a, **k: None, {"file", "end", "sep", "flush"}),
}


# pure builtins the constant folder of sa/consteval.py does not list
_MORE_BUILTINS: Dict[str, Any] = {"format": format, "divmod": divmod, "ord": ord, "chr": chr, "pow": pow, "hasattr": hasattr, "getattr": getattr, "callable": callable, "ascii": ascii, "hash": hash, "type": type}


class Folder2(Folder):
    def child(self, extra: Dict[str, Any]) -> "Folder2":
        f = Folder2(self.repo, self.module, {**self.local, **extra}, self.cls, self.world)
        f._busy = self._busy
        return f

    def _kw(self, n: ast.Call) -> Dict[str, Any]:
        if any(k.arg is None for k in n.keywords):
            raise NotConst("**kwargs")
        return {k.arg: self.fold(k.value) for k in n.keywords}

    def _f_Call(self, n: ast.Call):
        f = n.func
        if isinstance(f, ast.Name) and f.id in self.local and callable(self.local[f.id]):
            return self.local[f.id](*self._elts(n.args), **self._kw(n))
        if isinstance(f, ast.Name) and f.id in ("sorted", "min", "max") and any(k.arg == "key" for k in n.keywords):
            kw = self._kw(n)
            if not callable(kw.get("key")):
                raise NotConst("key is not a function")
            return {"sorted": sorted, "min": min, "max": max}[f.id](*self._elts(n.args), **kw)
        if isinstance(f, ast.Name) and n.keywords and f.id in _KW_BUILTINS and f.id not in self.local:
            kw = self._kw(n)
            if set(kw) <= _KW_BUILTINS[f.id][1]:
                return _KW_BUILTINS[f.id][0](*self._elts(n.args), **kw)
        if isinstance(f, ast.Name) and not n.keywords and f.id in _MORE_BUILTINS and f.id not in self.local:
            return _MORE_BUILTINS[f.id](*self._elts(n.args))
        if isinstance(f, ast.Name) and f.id == "iter" and len(n.args) == 1 and not n.keywords:
            return iter(list(self.fold(n.args[0])))  # a one-shot iterator over the elements present now
        if isinstance(f, ast.Name) and f.id == "next" and 1 <= len(n.args) <= 2 and not n.keywords and "next" not in self.local:
            it = self.fold(n.args[0])
            if hasattr(it, "__next__"):
                try:
                    return next(it)  # stateful: a stored iterator hands out its elements one by one
                except StopIteration:
                    if len(n.args) == 2:
                        return self.fold(n.args[1])
                    raise Raised("StopIteration", "next() of an exhausted iterator")
            if isinstance(it, (list, tuple)):
                # lazy builtins (filter, map, zip, ...) are folded to lists; next() of a fresh one is its first element
                if not isinstance(n.args[0], ast.Name):
                    if it:
                        return it[0]
                    if len(n.args) == 2:
                        return self.fold(n.args[1])
                    raise Raised("StopIteration", "next() of an empty iterator")
                raise NotConst("next() of a stored list-like value (neither an iterator nor a fresh lazy builtin)")
            raise NotConst("next() of a non-iterator")
        if isinstance(f, ast.Name) and f.id in ("isinstance",) and len(n.args) == 2 and isinstance(n.args[1], ast.Name) and n.args[1].id in ("str", "int", "float", "list", "tuple", "dict", "bytes", "bool"):
            return isinstance(self.fold(n.args[0]), {"str": str, "int": int, "float": float, "list": list, "tuple": tuple, "dict": dict, "bytes": bytes, "bool": bool}[n.args[1].id])
        if isinstance(f, ast.Attribute):
            if isinstance(f.value, ast.Name) and f.value.id == "itertools" and f.attr == "groupby" and "itertools" not in self.local:
                return _groupby(*self._elts(n.args), **self._kw(n))
            recv = _NONE
            if not (isinstance(f.value, ast.Name) and f.value.id not in self.local and f.value.id not in ("self",)):
                try:
                    recv = self.fold(f.value)
                except NotConst:
                    recv = _NONE
            elif isinstance(f.value, ast.Name):
                try:
                    recv = self._f_Name(f.value)
                except Exception:
                    recv = _NONE
            if recv is not _NONE:
                if getattr(recv, "_folder_stub", False) and callable(getattr(recv, f.attr, None)):
                    return getattr(recv, f.attr)(*self._elts(n.args), **self._kw(n))
                if isinstance(recv, dict) and f.attr == "setdefault" and not n.keywords:
                    return recv.setdefault(*self._elts(n.args))
                if isinstance(recv, list) and f.attr == "sort" and not n.args:
                    kw = self._kw(n)
                    if set(kw) <= {"key", "reverse"} and (kw.get("key") is None or callable(kw["key"])):
                        return recv.sort(**kw)  # in place, like the language
                if isinstance(recv, str) and f.attr in ("zfill", "center", "title", "capitalize", "isupper", "islower", "isascii", "isalnum", "isnumeric", "isdecimal", "find", "count", "partition", "rpartition", "splitlines", "rsplit") and not n.keywords:
                    return getattr(recv, f.attr)(*self._elts(n.args))
        return super()._f_Call(n)


_NONE = object()


def _elementwise(v: Any) -> bool:
    return getattr(v, "_elementwise", False)


def _compare(self, n: ast.Compare):
    """A comparison whose operand is a table / column stand-in (sa/frame.py) is element-wise and yields a column, not a bool."""
    import operator

    if len(n.ops) == 1 and type(n.ops[0]) in (ast.Eq, ast.NotEq, ast.Lt, ast.LtE, ast.Gt, ast.GtE):
        left, right = self.fold(n.left), self.fold(n.comparators[0])
        if _elementwise(left) or _elementwise(right):
            op = {ast.Eq: operator.eq, ast.NotEq: operator.ne, ast.Lt: operator.lt, ast.LtE: operator.le, ast.Gt: operator.gt, ast.GtE: operator.ge}[type(n.ops[0])]
            return op(left, right)
        f = {ast.Eq: operator.eq, ast.NotEq: operator.ne, ast.Lt: operator.lt, ast.LtE: operator.le, ast.Gt: operator.gt, ast.GtE: operator.ge}[type(n.ops[0])]
        return bool(f(left, right))
    return Folder._f_Compare(self, n)


def _unary(self, n: ast.UnaryOp):
    if isinstance(n.op, ast.Invert):
        v = self.fold(n.operand)
        if _elementwise(v) or isinstance(v, int):
            return ~v
        raise NotConst("unary ~")
    return Folder._f_UnaryOp(self, n)


def _binop(self, n: ast.BinOp):
    if isinstance(n.op, (ast.BitAnd, ast.BitOr)):
        left, right = self.fold(n.left), self.fold(n.right)
        if _elementwise(left) or _elementwise(right):
            return (left & right) if isinstance(n.op, ast.BitAnd) else (left | right)
    return Folder._f_BinOp(self, n)


def _gen(self, n):
    return iter(Folder._f_ListComp(self, n))


Folder2._f_Compare = _compare
Folder2._f_UnaryOp = _unary
Folder2._f_BinOp = _binop
Folder2._f_GeneratorExp = _gen  # a generator expression is a one-shot iterator (elements computed when it is created)


# ---- which statements the representatives reached ------------------------------------------------------------------------
_COVERAGE: Optional[set] = None


class coverage:
    """`with coverage() as cov:` - ids of the statements BlockEval2 executes inside the block (all evaluators, helpers included).
    A rule that evaluates a fragment on representatives uses it to say what the representatives did *not* reach: an exit
    (continue / break / return) that no representative takes is behaviour for inputs outside the classes the rule looked at."""

    def __enter__(self):
        global _COVERAGE
        self._saved = _COVERAGE
        _COVERAGE = self.cov = set() if _COVERAGE is None else _COVERAGE
        return self.cov

    def __exit__(self, *a):
        global _COVERAGE
        _COVERAGE = self._saved
        return False


def schema_only(test: ast.AST) -> bool:
    """The condition asks only which columns / keys exist (`c in t.columns`, `c not in row`, combined by and / or / not): it
    distinguishes classes of *schema*, which a rule enumerates by its table classes, not values of the data."""
    if isinstance(test, ast.BoolOp):
        return all(schema_only(v) for v in test.values)
    if isinstance(test, ast.UnaryOp) and isinstance(test.op, ast.Not):
        return schema_only(test.operand)
    if isinstance(test, ast.Compare) and len(test.ops) == 1 and isinstance(test.ops[0], (ast.In, ast.NotIn)):
        c = test.comparators[0]
        return isinstance(c, ast.Attribute) and c.attr in ("columns", "index", "attrs") and isinstance(test.left, (ast.Constant, ast.Name))
    return False


def unreached_exits(fdef: ast.AST, cov: set, kinds: Sequence[type] = (ast.Continue, ast.Break, ast.Return), data: Optional[Sequence[str]] = None) -> List[tuple]:
    """[(exit statement, text of the innermost condition it stands under)] for the conditional exits of `fdef` (nested defs
    excluded) that no interpreted run executed although the function itself ran.  `raise` is not listed by default: a refusal is
    loud, not a silent outcome.  With `data` (names of the parameters that carry the input data) only *data-dependent* exits are
    listed: continue / break of a loop that goes over something computed from the data, return under a condition that mentions
    a name computed from the data (or inside such a loop)."""
    body = getattr(fdef, "body", [])
    if not any(id(st) in cov for st in body):
        return []  # the function was never interpreted: nothing to say
    tainted: Optional[set] = None
    if data is not None:
        tainted = set(data)
        changed = True
        while changed:
            changed = False
            for n in ast.walk(fdef):
                tg: List[ast.AST] = []
                val: Optional[ast.AST] = None
                if isinstance(n, ast.Assign):
                    tg, val = list(n.targets), n.value
                elif isinstance(n, (ast.AnnAssign, ast.AugAssign)) and n.value is not None:
                    tg, val = [n.target], n.value
                elif isinstance(n, (ast.For, ast.comprehension)):
                    tg, val = [n.target], n.iter
                elif isinstance(n, ast.NamedExpr):
                    tg, val = [n.target], n.value
                if val is None or not any(isinstance(x, ast.Name) and x.id in tainted for x in ast.walk(val)):
                    continue
                for t in tg:
                    for x in ast.walk(t):
                        if isinstance(x, ast.Name) and x.id not in tainted:
                            tainted.add(x.id)
                            changed = True
    out: List[tuple] = []

    def walk(stmts: Sequence[ast.stmt], guard: str, names: frozenset, in_loop: bool, schema: bool = False) -> None:
        for st in stmts:
            if isinstance(st, (ast.FunctionDef, ast.AsyncFunctionDef, ast.ClassDef)):
                continue
            if isinstance(st, tuple(kinds)) and schema and tainted is not None:
                continue  # chosen by which columns exist, not by what they hold
            if isinstance(st, tuple(kinds)):
                # continue / break end a round of the innermost loop: that matters when the loop goes over the records of the input
                # (its rows, lines, atoms), not when it goes over a constant list (column names, table rows of the program);
                # a return matters when its condition looks at the data
                relevant = tainted is None or (in_loop if isinstance(st, (ast.Continue, ast.Break)) else bool(names & tainted) or in_loop)
                if id(st) not in cov and guard and relevant:
                    out.append((st, guard))
                continue
            if isinstance(st, ast.If):
                t = ast.unparse(st.test)
                nm = names | frozenset(x.id for x in ast.walk(st.test) if isinstance(x, ast.Name))
                sch = schema_only(st.test)
                walk(st.body, t, nm, in_loop, sch)
                walk(st.orelse, f"not ({t})", nm, in_loop, sch)
            elif isinstance(st, (ast.For, ast.While)):
                over = st.iter if isinstance(st, ast.For) else st.test
                data_loop = tainted is None or any(isinstance(x, ast.Name) and x.id in tainted for x in ast.walk(over))
                walk(st.body, guard, names, data_loop)
                walk(st.orelse, guard, names, in_loop)
            elif isinstance(st, (ast.With, ast.AsyncWith)):
                walk(st.body, guard, names, in_loop)
            elif isinstance(st, ast.Try):
                walk(st.body, guard, names, in_loop)
                for h in st.handlers:
                    # which input makes the guarded statements fail is a matter of the data: exits of a handler count as data-dependent
                    walk(h.body, f"except {ast.unparse(h.type) if h.type is not None else ''}".strip(), names | (frozenset(tainted) if tainted else frozenset()), in_loop)
                walk(st.orelse, guard, names, in_loop)
                walk(st.finalbody, guard, names, in_loop)
            elif isinstance(st, ast.Match):
                for c in st.cases:
                    walk(c.body, f"case {ast.unparse(c.pattern)}", names, in_loop)

    walk(body, "", frozenset(), False)
    return out


_EMITTERS = {"append", "extend", "add", "write", "writelines", "insert", "setdefault", "update", "appendleft", "put"}


def one_way_emissions(fdef: ast.AST, cov: set, data: Sequence[str]) -> List[tuple]:
    """[(if statement, 'true' | 'false' = the way its condition never went)] for the conditions that every round of a loop over the
    input's records passes through (statements of the loop body itself), that look at the record of the round, and that went the same
    way for every representative, where the arm that was always taken *emits* (appends, writes, yields, stores into a container) and
    the other arm does not: for records on the other side of the condition nothing is emitted - the class of input the
    representatives do not contain loses its records."""
    tainted = set(data)
    changed = True
    while changed:
        changed = False
        for n in ast.walk(fdef):
            tg: List[ast.AST] = []
            val: Optional[ast.AST] = None
            if isinstance(n, ast.Assign):
                tg, val = list(n.targets), n.value
            elif isinstance(n, (ast.AnnAssign, ast.AugAssign)) and n.value is not None:
                tg, val = [n.target], n.value
            elif isinstance(n, (ast.For, ast.comprehension)):
                tg, val = [n.target], n.iter
            if val is None or not any(isinstance(x, ast.Name) and x.id in tainted for x in ast.walk(val)):
                continue
            for t in tg:
                for x in ast.walk(t):
                    if isinstance(x, ast.Name) and x.id not in tainted:
                        tainted.add(x.id)
                        changed = True

    def emits(stmts: Sequence[ast.stmt]) -> bool:
        for st in stmts:
            for n in ast.walk(st):
                if isinstance(n, (ast.Yield, ast.YieldFrom)):
                    return True
                if isinstance(n, ast.Call) and isinstance(n.func, ast.Attribute) and n.func.attr in _EMITTERS:
                    return True
                if isinstance(n, ast.Assign) and any(isinstance(t, ast.Subscript) for t in n.targets):
                    return True
        return False

    out: List[tuple] = []

    def record_names(loop: ast.For) -> set:
        """names that hold (parts of) the record of the current round: the loop target and what is computed from it in the body"""
        names = {x.id for x in ast.walk(loop.target) if isinstance(x, ast.Name)}
        grew = True
        while grew:
            grew = False
            for n in ast.walk(loop):
                if isinstance(n, ast.Assign) and any(isinstance(x, ast.Name) and x.id in names for x in ast.walk(n.value)):
                    for t in n.targets:
                        for x in ast.walk(t):
                            if isinstance(x, ast.Name) and x.id not in names:
                                names.add(x.id)
                                grew = True
        return names

    def walk(stmts: Sequence[ast.stmt], loop: Optional[ast.For]) -> None:
        for st in stmts:
            if isinstance(st, (ast.FunctionDef, ast.AsyncFunctionDef, ast.ClassDef)):
                continue
            if isinstance(st, ast.If):
                if loop is not None and any(st is x for x in loop.body):  # a condition every record of the round passes through
                    t, f = (id(st), True) in cov, (id(st), False) in cov
                    rec = record_names(loop)
                    looks = any(isinstance(x, ast.Name) and x.id in rec for x in ast.walk(st.test))
                    if looks and t != f:
                        taken, other = (st.body, st.orelse) if t else (st.orelse, st.body)
                        if emits(taken) and not emits(other):
                            out.append((st, "false" if t else "true"))
                walk(st.body, loop)
                walk(st.orelse, loop)
            elif isinstance(st, ast.For):
                data_loop = any(isinstance(x, ast.Name) and x.id in tainted for x in ast.walk(st.iter))
                walk(st.body, st if data_loop else None)
                walk(st.orelse, loop)
            elif isinstance(st, ast.While):
                walk(st.body, loop)
            elif isinstance(st, (ast.With, ast.AsyncWith)):
                walk(st.body, loop)
            elif isinstance(st, ast.Try):
                walk(st.body, loop)
                for h in st.handlers:
                    walk(h.body, loop)
                walk(st.orelse, loop)
                walk(st.finalbody, loop)

    if any(id(st) in cov for st in getattr(fdef, "body", [])):
        walk(getattr(fdef, "body", []), None)
    return out


class BlockEval2(BlockEval):
    yield_fn: Optional[Callable[[Any], None]] = None  # set by func_callable when the interpreted body is a generator

    def fold(self, e: ast.AST) -> Any:
        import copy

        e2 = ast.fix_missing_locations(_Rewrite().visit(copy.deepcopy(e)))
        # interpreted functions and namespace stand-ins are global names: they stay visible while a module-level constant that the
        # fragment reads is folded (a table of checks built by calling module functions, `_CHECKS = (("id", _above(99999)), ...)`)
        world = {k: v for k, v in self.env.items() if k not in BASE and (callable(v) or type(v).__name__ in ("Obj", "_NS"))}
        try:
            return Folder2(self.repo, self.module, self.env, world=world).fold(e2)
        except NotConst as ex:
            raise Unknown(f"`{ast.unparse(e)[:60]}`: {ex}")

    def _stmt(self, st: ast.stmt) -> None:
        if _COVERAGE is not None:
            _COVERAGE.add(id(st))
        if isinstance(st, ast.FunctionDef):
            self.env[st.name] = func_callable(self.repo, self.module, st, self.env, live=True)
            return
        if isinstance(st, ast.If) and _COVERAGE is not None:
            v = bool(self.fold(st.test))
            _COVERAGE.add((id(st), v))  # which way the condition went (both ways over all representatives = both classes seen)
            self._block(st.body if v else st.orelse)
            return
        if isinstance(st, ast.Raise):
            name = "Exception"
            if st.exc is not None:
                t = st.exc.func if isinstance(st.exc, ast.Call) else st.exc
                name = ast.unparse(t).split(".")[-1]
            raise Raised(name, ast.unparse(st)[:80])
        if isinstance(st, ast.Expr) and isinstance(st.value, (ast.Yield, ast.YieldFrom)):
            if self.yield_fn is None:
                raise Unknown("yield outside an interpreted generator function")
            if isinstance(st.value, ast.Yield):
                self.yield_fn(self.fold(st.value.value) if st.value.value is not None else None)
            else:
                for v in self.fold(st.value.value):
                    self.yield_fn(v)
            return
        if isinstance(st, ast.Expr) and isinstance(st.value, ast.Call) and ast.unparse(st.value.func).split(".")[0] in ("logging", "logger", "log", "warnings", "print"):
            # the message goes nowhere, but its arguments are evaluated before the call whatever the log level is: an argument that
            # calls something (a helper that reads a line from the handle, pops from a list) has its effect on the state
            for a in list(st.value.args) + [k.value for k in st.value.keywords]:
                if any(isinstance(x, ast.Call) for x in ast.walk(a)):
                    self.fold(a)
            return
        if isinstance(st, ast.Expr) and isinstance(st.value, ast.Call):
            c = st.value
            try:
                return super()._stmt(st)
            except Unknown:
                # a call of a rule-supplied callable or of a stub method, evaluated for its effect on the stub
                f = c.func
                if (isinstance(f, ast.Name) and f.id in self.env and callable(self.env[f.id])) or isinstance(f, ast.Attribute):
                    self.fold(c)
                    return
                raise
        if isinstance(st, ast.Assert):
            if not self.fold(st.test):
                raise Raised("AssertionError", ast.unparse(st)[:80])
            return
        if isinstance(st, ast.AugAssign) and isinstance(st.target, ast.Subscript):
            cur = self.fold(ast.Subscript(value=st.target.value, slice=st.target.slice, ctx=ast.Load()))
            rhs = self.fold(st.value)
            if not isinstance(st.op, (ast.Add, ast.Sub)):
                raise Unknown("augmented assignment operator")
            self._assign(st.target, cur + rhs if isinstance(st.op, ast.Add) else cur - rhs)
            return
        if isinstance(st, ast.Try):
            # like the base class, and an explicit `raise` of the fragment selects its handler by name
            try:
                self._block(st.body)
            except (_Stop, Unknown):
                raise
            except Exception as ex:
                name = ex.name if isinstance(ex, Raised) else type(ex).__name__
                for h in st.handlers:
                    types = [] if h.type is None else ([ast.unparse(t).split(".")[-1] for t in h.type.elts] if isinstance(h.type, ast.Tuple) else [ast.unparse(h.type).split(".")[-1]])
                    if h.type is None or name in types or "Exception" in types or "BaseException" in types:
                        self._block(h.body)
                        break
                else:
                    raise
            else:
                self._block(st.orelse)
            finally:
                if st.finalbody:
                    self._block(st.finalbody)
            return
        super()._stmt(st)

    def _assign(self, t: ast.AST, v: Any) -> None:
        if isinstance(t, ast.Subscript) and not (isinstance(t.value, ast.Name)):
            base = self.fold(t.value)
            if isinstance(base, (dict, list)) or (getattr(base, "_folder_stub", False) and hasattr(base, "__setitem__")):
                base[self.fold(t.slice)] = v  # d[k][j] = v, frame.loc[rows, column] = v, frame.attrs[k] = v
                return
        if isinstance(t, ast.Attribute):
            base = self.fold(t.value)
            if getattr(base, "_folder_stub", False):
                setattr(base, t.attr, v)
                return
        super()._assign(t, v)

    def run(self, block: Sequence[ast.stmt]):
        """('fall' | 'return' | 'continue' | 'break' | 'raise', value)"""
        try:
            self._block(block)
        except _Stop as s:
            return s.kind, s.value
        except Raised as r:
            return "raise", r.name
        return "fall", None


def func_callable(repo, module: str, fdef: ast.FunctionDef, outer: Optional[Dict[str, Any]] = None, live: bool = False, max_steps: int = 4000) -> Callable:
    """The function as a callable that interprets its own body with BlockEval2.  Free names are looked up in `outer`
    (by reference when `live`, as Python closures do) and then in the module's constants."""
    a = fdef.args
    if a.kwarg or a.posonlyargs:
        raise Unknown(f"signature of {fdef.name}")
    params = [p.arg for p in a.args]
    kwonly = [p.arg for p in a.kwonlyargs]
    body = [s for s in fdef.body if not (isinstance(s, ast.Expr) and isinstance(s.value, ast.Constant))]
    generator = is_generator_def(fdef)

    def call(*vals, **kw):
        env: Dict[str, Any] = dict(outer) if outer is not None else {}
        if len(vals) > len(params) and not a.vararg:
            raise Unknown(f"arity of {fdef.name}")
        bound = dict(zip(params, vals))
        if a.vararg:
            bound[a.vararg.arg] = tuple(vals[len(params) :])  # *args
        for k, v in kw.items():
            if k not in params + kwonly or k in bound:
                raise Unknown(f"keyword {k} of {fdef.name}")
            bound[k] = v
        defaults = dict(zip(reversed(params), reversed(a.defaults))) if a.defaults else {}
        for p, d in zip(kwonly, a.kw_defaults):
            if d is not None:
                defaults[p] = d
        for p in params + kwonly:
            if p not in bound:
                if p not in defaults:
                    raise Unknown(f"argument {p} of {fdef.name} missing")
                bound[p] = BlockEval2(repo, module, env).fold(defaults[p])
        env.update(bound)
        ev = BlockEval2(repo, module, env, max_steps=max_steps)
        if generator:

            def start(yield_fn):
                ev.yield_fn = yield_fn
                kind, val = ev.run(body)
                if kind == "raise":
                    raise Raised(val, f"{fdef.name} raises {val}")
                if kind not in ("return", "fall"):
                    raise Unknown(f"{fdef.name} ends with {kind}")

            return GenObj(start, fdef.name)
        kind, val = ev.run(body)
        if kind == "raise":
            raise Raised(val, f"{fdef.name} raises {val}")
        if kind in ("return", "fall"):
            return val
        raise Unknown(f"{fdef.name} ends with {kind}")

    call.__name__ = fdef.name
    return call


def module_callables(repo, module: str, names: Optional[Iterable[str]] = None, outer: Optional[Dict[str, Any]] = None, only_new: bool = True) -> Dict[str, Callable]:
    """Top-level functions of the analysed module as interpreting callables: the given names, or (default) the *new helpers* -
    functions the reference copy does not have, i.e. products of an 'extract function' refactoring.  They can call each other."""
    m = repo.module(module)
    ref = repo.reference.get(module) if hasattr(repo, "reference") else None
    env: Dict[str, Any] = dict(outer or {})
    out: Dict[str, Callable] = {}
    for q, fi in m.funcs.items():
        if "." in q:
            continue
        if names is not None:
            if q not in names:
                continue
        elif only_new and (ref is None or q in ref.funcs):
            continue
        try:
            out[q] = func_callable(repo, module, fi.node, env, live=True)
        except Unknown:
            continue
    env.update({k: v for k, v in out.items() if k not in env})
    return out


class Instance:
    """An object of a repository class, interpreted: its fields are given by the rule, its methods and properties are evaluated from the
    class body (methods of base classes defined in the same module included) when the fragment - or the rule - asks for them.
    `cached_property` values are kept like the real descriptor does; a plain `property` is evaluated at every access."""

    _folder_stub = True

    def __init__(self, repo, module: str, cls: str, env: Optional[Dict[str, Any]] = None, **fields: Any):
        self.__dict__["_I"] = (repo, module, cls, dict(env or {}))
        self.__dict__.update(fields)

    def __repr__(self) -> str:
        return f"<{self._I[2]} stub>"

    def _member(self, name: str):
        repo, module, cls, env = self._I
        m = repo.module(module)
        todo, seen = [cls], set()
        while todo:
            c = todo.pop(0)
            if c in seen or c not in m.classes:
                continue
            seen.add(c)
            fi = m.funcs.get(f"{c}.{name}")
            if fi is not None:
                return fi
            todo += [ast.unparse(b).split(".")[-1] for b in m.classes[c].bases]
        return None

    def __getattr__(self, name: str):
        if name.startswith("__") or name == "_I":
            raise AttributeError(name)
        fi = self._member(name)
        if fi is None:
            raise AttributeError(name)
        repo, module, cls, env = self._I
        call = func_callable(repo, module, fi.node, env, max_steps=20000)
        decs = fi.decorators
        if "property" in decs or "cached_property" in decs:
            v = call(self)
            if "cached_property" in decs:
                self.__dict__[name] = v
            return v
        if "staticmethod" in decs:
            return call
        return lambda *a, **k: call(self, *a, **k)
