"""A1: source model of /repo/src/rnapolis — modules, classes, functions, constants, imports.

Nothing here executes repository code: files are read as text and parsed with ast.
"""
from __future__ import annotations

import ast
import hashlib
import os
from dataclasses import dataclass, field
from typing import Dict, Iterator, List, Optional, Tuple


class AnalysisError(Exception):
    """The analysis cannot be carried out (anchor missing, idiom not recognised).

    Never reported as a VIOLATION: exit code 2."""


class AnchorMissing(AnalysisError):
    pass


PACKAGE = "rnapolis"


def norm(node: ast.AST) -> str:
    """Normalised text of a construct (independent of layout, quotes, comments)."""
    return ast.unparse(node)


@dataclass
class FuncInfo:
    module: "Module"
    qualname: str
    node: ast.FunctionDef
    cls: Optional[ast.ClassDef] = None

    @property
    def decorators(self) -> List[str]:
        out = []
        for d in self.node.decorator_list:
            if isinstance(d, ast.Call):
                d = d.func
            out.append(ast.unparse(d).split(".")[-1])
        return out

    @property
    def where(self) -> str:
        return f"{self.module.relpath}:{self.node.lineno} {self.qualname}"

    def site(self, node: ast.AST) -> str:
        return f"{self.module.relpath}:{getattr(node, 'lineno', self.node.lineno)} {self.qualname}"


@dataclass
class Module:
    name: str
    path: str
    relpath: str
    source: str
    tree: ast.Module
    digest: str
    funcs: Dict[str, FuncInfo] = field(default_factory=dict)
    classes: Dict[str, ast.ClassDef] = field(default_factory=dict)
    consts: Dict[str, ast.expr] = field(default_factory=dict)
    mutations: Dict[str, List[ast.stmt]] = field(default_factory=dict)  # module-level NAME.update(...) / NAME[k] = v / NAME += ...
    imports: Dict[str, Tuple[str, Optional[str]]] = field(default_factory=dict)

    def _index(self) -> None:
        for node in self.tree.body:
            self._index_stmt(node)

    def _index_stmt(self, node: ast.stmt) -> None:
        if isinstance(node, (ast.FunctionDef, ast.AsyncFunctionDef)):
            self.funcs[node.name] = FuncInfo(self, node.name, node)
        elif isinstance(node, ast.ClassDef):
            self.classes[node.name] = node
            for b in node.body:
                if isinstance(b, (ast.FunctionDef, ast.AsyncFunctionDef)):
                    q = f"{node.name}.{b.name}"
                    if q in self.funcs and any(
                        "setter" in ast.unparse(d) for d in b.decorator_list
                    ):
                        q = q + ".setter"
                    self.funcs[q] = FuncInfo(self, q, b, node)
                    # nested defs (pair_scoring_function etc.)
                    for n in ast.walk(b):
                        if n is not b and isinstance(n, ast.FunctionDef):
                            self.funcs[f"{q}.<locals>.{n.name}"] = FuncInfo(
                                self, f"{q}.<locals>.{n.name}", n, node
                            )
        elif isinstance(node, ast.Assign):
            for t in node.targets:
                if isinstance(t, ast.Name):
                    self.consts[t.id] = node.value
                elif isinstance(t, (ast.Tuple, ast.List)) and isinstance(node.value, (ast.Tuple, ast.List)) and len(t.elts) == len(node.value.elts):
                    # A, B = "a", "b" at module level: each name is a constant of its own
                    for tt, vv in zip(t.elts, node.value.elts):
                        if isinstance(tt, ast.Name) and not isinstance(vv, ast.Starred):
                            self.consts[tt.id] = vv
            for t in node.targets:
                if isinstance(t, ast.Subscript) and isinstance(t.value, ast.Name):
                    self.mutations.setdefault(t.value.id, []).append(node)
        elif isinstance(node, ast.AnnAssign):
            if isinstance(node.target, ast.Name) and node.value is not None:
                self.consts[node.target.id] = node.value
        elif isinstance(node, ast.AugAssign):
            if isinstance(node.target, ast.Name):
                self.mutations.setdefault(node.target.id, []).append(node)
        elif isinstance(node, ast.Expr) and isinstance(node.value, ast.Call) and isinstance(node.value.func, ast.Attribute) and isinstance(node.value.func.value, ast.Name) and node.value.func.attr in ("update", "append", "extend", "add", "setdefault", "pop", "remove", "clear", "insert", "discard"):
            self.mutations.setdefault(node.value.func.value.id, []).append(node)
        elif isinstance(node, ast.Import):
            for a in node.names:
                self.imports[(a.asname or a.name).split(".")[0]] = (a.name, None)
        elif isinstance(node, ast.ImportFrom):
            for a in node.names:
                self.imports[a.asname or a.name] = (node.module or "", a.name)
        elif isinstance(node, (ast.If, ast.Try)):
            for b in ast.iter_child_nodes(node):
                if isinstance(b, ast.stmt):
                    self._index_stmt(b)


class Repo:
    def __init__(self, root: str, align: bool = True):
        self.root = os.path.abspath(root)
        self.src = os.path.join(self.root, "src", PACKAGE)
        if not os.path.isdir(self.src):
            raise AnchorMissing(f"package directory not found: {self.src}")
        self.modules: Dict[str, Module] = {}
        self.consulted: Dict[str, str] = {}
        for fn in sorted(os.listdir(self.src)):
            if fn.endswith(".py"):
                self._load(fn)
        self._strip_pair_order_wrappers()
        self.renamed: Dict[str, Dict[str, str]] = {}
        self.reference: Dict[str, Module] = {}
        self.inlined: Dict[str, List[str]] = {}
        self._shape: Dict[Tuple[str, str], str] = {}
        if align:
            self._align()

    def _strip_pair_order_wrappers(self) -> None:
        """`for i, j in sorted(tree.query_pairs(r))` is read as a loop over the query itself by every rule that does not care about
        the visiting order (radius, roles, skips ...); the wrapper is remembered on the loop node (`_order_wrapper`: 'sorted' fixes
        the order by point index, 'list' / 'tuple' only materialise the set) for the rule that does care (C05 `contact-visit-order`)."""
        for m in self.modules.values():
            self._strip_tree(m.tree)

    @staticmethod
    def _strip_tree(tree: ast.AST) -> None:
        if True:
            for n in ast.walk(tree):
                if isinstance(n, (ast.For, ast.comprehension)) and isinstance(n.iter, ast.Call) and isinstance(n.iter.func, ast.Name) and n.iter.func.id in ("sorted", "list", "tuple") and len(n.iter.args) == 1 and not n.iter.keywords:
                    inner = n.iter.args[0]
                    if isinstance(inner, ast.Call) and isinstance(inner.func, ast.Attribute) and inner.func.attr == "query_pairs":
                        n._order_wrapper = n.iter.func.id  # type: ignore[attr-defined]
                        n.iter = inner

    def _align(self) -> None:
        """Rename locals to the names of the reference copy (sa/align.py): rules become independent of local names."""
        from .align import align_function

        ref_dir = os.path.join(os.path.dirname(os.path.dirname(os.path.abspath(__file__))), "spec", "reference")
        if not os.path.isdir(ref_dir):
            return
        for name, m in self.modules.items():
            path = os.path.join(ref_dir, name + ".py")
            if not os.path.exists(path):
                continue
            try:
                with open(path) as f:
                    ref = Module(name, path, path, "", ast.parse(f.read()), "")
                self._strip_tree(ref.tree)
                ref._index()
            except SyntaxError:
                continue
            self.reference[name] = ref
            # `a, b, c = (f(v) for v in (x, y, z))` is read as the three assignments written out (sa/unroll.py)
            try:
                from .unroll import unroll_in_function

                for q, fi in m.funcs.items():
                    if "<locals>" not in q and unroll_in_function(fi.node):
                        self.inlined.setdefault(f"{name}.{q}", []).append("comprehension over a literal tuple unpacked into single assignments")
            except Exception as ex:  # a reading aid; without it the rules see the statement as written
                self.inlined[f"{name}.<unroll-error>"] = [repr(ex)]
            # undo "extract function": inline helpers that the reference does not have (sa/inline.py)
            try:
                from .inline import inline_in_function

                def plain(f: FuncInfo) -> bool:
                    # a decorated helper (lru_cache, cache, ...) is not equivalent to its body: never inline it
                    return all(d in ("staticmethod", "classmethod") for d in f.decorators)

                new_top = {q: f.node for q, f in m.funcs.items() if "." not in q and q not in ref.funcs and plain(f)}
                for q, fi in list(m.funcs.items()):
                    if "<locals>" in q or q not in ref.funcs:
                        continue
                    helpers = dict(new_top)
                    if fi.cls is not None:
                        for q2, f2 in m.funcs.items():
                            if q2.startswith(fi.cls.name + ".") and q2.count(".") == 1 and q2 not in ref.funcs and plain(f2):
                                helpers[f2.node.name] = f2.node
                    for q2, f2 in m.funcs.items():
                        if q2.startswith(q + ".<locals>.") and q2 not in ref.funcs and plain(f2):
                            helpers[f2.node.name] = f2.node
                    if helpers:
                        log: List[str] = []
                        inline_in_function(fi.node, helpers, fi.cls.name if fi.cls is not None else None, log)
                        if log:
                            self.inlined.setdefault(f"{name}.{q}", []).extend(log)
            except Exception as ex:  # inlining is an aid; without it the rules see the calls
                self.inlined[f"{name}.<error>"] = [repr(ex)]
            for q, fi in m.funcs.items():
                if "<locals>" in q or q not in ref.funcs:
                    continue
                try:
                    mp = align_function(ref.funcs[q].node, fi.node)
                except Exception:
                    mp = {}
                if mp:
                    self.renamed[f"{name}.{q}"] = mp

    def _load(self, fn: str) -> None:
        path = os.path.join(self.src, fn)
        with open(path, "rb") as f:
            raw = f.read()
        source = raw.decode("utf-8")
        try:
            tree = ast.parse(source, filename=path)
        except SyntaxError as e:
            raise AnalysisError(f"{path} does not parse: {e}")
        name = fn[:-3]
        m = Module(
            name,
            path,
            os.path.join("src", PACKAGE, fn),
            source,
            tree,
            hashlib.sha256(raw).hexdigest(),
        )
        m._index()
        self.modules[name] = m

    def shape_status(self, module: str, qualname: str) -> Optional[str]:
        """How the function differs *structurally* from the reference copy (sa/shape.py):
        'ok' identical, 'fact' same skeleton (identifiers/constants/operators differ), 'missing' statements removed only,
        'shape' statements added or rewritten in another form, None unknown (no reference)."""
        key = (module, qualname)
        if key in self._shape:
            return self._shape[key]
        st: Optional[str] = None
        ref = self.reference.get(module)
        m = self.modules.get(module)
        if ref is not None and m is not None and qualname in m.funcs:
            if qualname not in ref.funcs:
                st = "shape"
            else:
                from .shape import classify_block

                try:
                    st, _ = classify_block(m.funcs[qualname].node.body, ref.funcs[qualname].node.body)
                    if st != "shape" and ast.unparse(m.funcs[qualname].node.args) != ast.unparse(ref.funcs[qualname].node.args):
                        st = "fact" if st == "ok" else st
                except Exception:
                    st = "shape"
        self._shape[key] = st
        return st

    # ---- anchors -------------------------------------------------------
    def module(self, name: str) -> Module:
        if name not in self.modules:
            raise AnchorMissing(f"module {PACKAGE}.{name} not found")
        m = self.modules[name]
        self.consulted[m.relpath] = m.digest
        return m

    def func(self, module: str, qualname: str) -> FuncInfo:
        m = self.module(module)
        if qualname not in m.funcs:
            raise AnchorMissing(f"function {module}.{qualname} not found")
        return m.funcs[qualname]

    def has_func(self, module: str, qualname: str) -> bool:
        return module in self.modules and qualname in self.modules[module].funcs

    def cls(self, module: str, name: str) -> ast.ClassDef:
        m = self.module(module)
        if name not in m.classes:
            raise AnchorMissing(f"class {module}.{name} not found")
        return m.classes[name]

    def const_expr(self, module: str, name: str) -> ast.expr:
        """Module-level constant expression, following `from rnapolis.x import NAME`."""
        seen = set()
        while True:
            if (module, name) in seen:
                raise AnalysisError(f"import cycle resolving {module}.{name}")
            seen.add((module, name))
            m = self.module(module)
            if name in m.consts:
                return m.consts[name]
            if name in m.imports:
                src, orig = m.imports[name]
                if src.startswith(PACKAGE + ".") and orig is not None:
                    module, name = src[len(PACKAGE) + 1 :], orig
                    continue
            raise AnchorMissing(f"constant {module}.{name} not found")

    def const_home(self, module: str, name: str) -> Tuple[str, str]:
        """(module, name) where a constant/function/class visible as `name` in `module` is defined."""
        seen = set()
        while True:
            if (module, name) in seen:
                raise AnalysisError("import cycle")
            seen.add((module, name))
            m = self.module(module)
            if name in m.consts or name in m.funcs or name in m.classes:
                return module, name
            if name in m.imports:
                src, orig = m.imports[name]
                if src.startswith(PACKAGE + ".") and orig is not None:
                    module, name = src[len(PACKAGE) + 1 :], orig
                    continue
            raise AnchorMissing(f"{module}.{name} not found")

    def class_attr_expr(self, module: str, cls: str, attr: str) -> ast.expr:
        c = self.cls(module, cls)
        for b in c.body:
            if isinstance(b, ast.Assign):
                for t in b.targets:
                    if isinstance(t, ast.Name) and t.id == attr:
                        return b.value
            if isinstance(b, ast.AnnAssign) and isinstance(b.target, ast.Name):
                if b.target.id == attr and b.value is not None:
                    return b.value
        raise AnchorMissing(f"class attribute {module}.{cls}.{attr} not found")

    def enum_members(self, module: str, cls: str) -> Dict[str, ast.expr]:
        c = self.cls(module, cls)
        out: Dict[str, ast.expr] = {}
        for b in c.body:
            if isinstance(b, ast.Assign) and len(b.targets) == 1:
                t = b.targets[0]
                if isinstance(t, ast.Name):
                    out[t.id] = b.value
        return out

    def all_funcs(self) -> Iterator[FuncInfo]:
        for m in self.modules.values():
            self.consulted[m.relpath] = m.digest
            yield from m.funcs.values()
