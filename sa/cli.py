"""vcheck: run the static check of one property against /repo's current working tree."""
from __future__ import annotations

import argparse
import importlib
import json
import os
import sys
import traceback

from .model import AnalysisError, Repo
from .report import VERIF, Check


def main(argv=None) -> int:
    ap = argparse.ArgumentParser(prog="vcheck")
    ap.add_argument("property")
    ap.add_argument("--tier", default=os.environ.get("VERIF_TIER", "quick"), choices=["quick", "thorough"])
    ap.add_argument("--root", default=os.environ.get("VERIF_REPO_ROOT", "/repo"))
    ap.add_argument("--replay", default=None, help="replay file written by an earlier run: re-evaluates the property and shows that obligation")
    a = ap.parse_args(argv)
    pid = a.property.upper()
    if os.path.abspath(a.root) != "/repo" and not os.environ.get("VERIF_EVIDENCE_DIR"):
        # scratch copies (selftest, triage of old commits) never overwrite the committed evidence of /repo
        import tempfile

        os.environ["VERIF_EVIDENCE_DIR"] = tempfile.mkdtemp(prefix="verif-ev-")
    seed = int(os.environ.get("VERIF_SEED", "0") or 0)
    chk = None
    # time budget: an analysis that does not finish is an ANALYSIS-ERROR (exit 2), never a hang
    import signal

    def _timeout(signum, frame):
        raise AnalysisError(f"time budget of {budget} s exceeded")

    budget = int(os.environ.get("VERIF_TIME_BUDGET", "240") or 240)
    try:
        signal.signal(signal.SIGALRM, _timeout)
        signal.alarm(budget)
    except (ValueError, AttributeError):
        pass
    try:
        repo = Repo(a.root)
        chk = Check(pid, a.tier, repo, seed)
        mod = importlib.import_module(f"checks.{pid.lower()}")
        mod.run(chk)
        # cross-cutting rules, attributed to this property through the call graph of its entry points
        from . import memo

        memo.check(chk, pid)
        from . import diag

        diag.check(chk, pid)
        if a.tier == "thorough" and hasattr(mod, "run_thorough"):
            mod.run_thorough(chk)
    except AnalysisError as e:
        if chk is None:
            chk = Check(pid, a.tier, None, seed)
        chk.error("anchor", "-", str(e))
    except Exception as e:  # internal failure of the analysis: never a VIOLATION
        if chk is None:
            chk = Check(pid, a.tier, None, seed)
        tb = traceback.format_exc().strip().splitlines()
        chk.error("internal", "-", f"{type(e).__name__}: {e} @ {tb[-3].strip() if len(tb) >= 3 else ''}")
    try:
        signal.alarm(0)
    except (ValueError, AttributeError):
        pass
    rc = chk.finish()
    if a.replay:
        try:
            with open(a.replay if os.path.isabs(a.replay) else os.path.join(VERIF, a.replay)) as f:
                want = json.load(f)
            hits = [o for o in chk.obligations if o.rule == want.get("rule") and o.key == want.get("key")]
            for o in hits:
                print(f"REPLAY rule={o.rule} key={o.key} status={o.status}: {o.detail}")
            if not hits:
                print(f"REPLAY rule={want.get('rule')} key={want.get('key')}: obligation holds now (no matching violation)")
        except OSError as e:
            print(f"REPLAY file not readable: {e}")
    return rc


if __name__ == "__main__":
    sys.path.insert(0, VERIF)
    sys.exit(main())
