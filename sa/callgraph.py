"""A1 (part): name-based call graph over the repository (sound over-approximation).

An edge F -> G exists when G's simple name occurs in F as a called name, or as an accessed attribute (methods and
properties are reached through attribute access; receivers are not typed, so every repo member of that name is a
possible target).  Reachability from entry points therefore contains the true reachable set."""
from __future__ import annotations

import ast
from typing import Dict, Iterable, List, Set, Tuple

from .model import FuncInfo, Repo

_BUILTIN_ATTRS = set(dir(list)) | set(dir(dict)) | set(dir(str)) | set(dir(set)) | set(dir(tuple))


class CallGraph:
    def __init__(self, repo: Repo):
        self.repo = repo
        self.by_name: Dict[str, List[FuncInfo]] = {}
        for fi in repo.all_funcs():
            self.by_name.setdefault(fi.node.name, []).append(fi)
        self.edges: Dict[Tuple[str, str], Set[Tuple[str, str]]] = {}
        for fi in repo.all_funcs():
            k = (fi.module.name, fi.qualname)
            out: Set[Tuple[str, str]] = set()
            for n in ast.walk(fi.node):
                name = None
                if isinstance(n, ast.Call) and isinstance(n.func, ast.Name):
                    name = n.func.id
                    # constructor: __post_init__/__init__ of the class
                    try:
                        hm, hn = repo.const_home(fi.module.name, name)
                        if hn in repo.modules[hm].classes:
                            for init in ("__init__", "__post_init__"):
                                if f"{hn}.{init}" in repo.modules[hm].funcs:
                                    out.add((hm, f"{hn}.{init}"))
                    except Exception:
                        pass
                elif isinstance(n, ast.Attribute):
                    name = n.attr
                    if name in _BUILTIN_ATTRS:
                        continue
                elif isinstance(n, ast.Name) and isinstance(n.ctx, ast.Load):
                    name = n.id  # function passed as a value (key=..., map(f, ...))
                if name and name in self.by_name:
                    for g in self.by_name[name]:
                        if isinstance(n, ast.Attribute) and g.cls is None:
                            # module.function access
                            pass
                        out.add((g.module.name, g.qualname))
            self.edges[k] = out

    def reachable(self, entries: Iterable[Tuple[str, str]]) -> Set[Tuple[str, str]]:
        seen: Set[Tuple[str, str]] = set()
        todo = [e for e in entries]
        while todo:
            k = todo.pop()
            if k in seen or k not in self.edges:
                continue
            seen.add(k)
            todo.extend(self.edges[k] - seen)
        return seen
