"""A6: symbolic (affine) terms with def-use role resolution.

Integer-valued expressions are turned into affine forms  c0 + sum ci * atom_i  over opaque, hashable
*atoms* that name where a value comes from (component k of element of X, field f of Y, len(Z), loop
counter T of loop L ...).  Names are resolved through their bindings (single assignment, tuple unpacking,
for targets), so the result does not depend on variable names.  Equivalent rewritings of an index
expression have the same normal form.

Canonicalisation: Entry fields are positional (index_ = item 0, sequence = item 1, pair = item 2), so
`e.index_`, `e[0]` and `i, _, j = e` give the same atoms.
"""
from __future__ import annotations

import ast
from dataclasses import dataclass
from typing import Any, Dict, List, Optional, Tuple

from . import astq

ENTRY_FIELDS = {"index_": 0, "pair": 2}

Atom = Tuple[Any, ...]


class Unsupported(Exception):
    pass


@dataclass(frozen=True)
class Aff:
    terms: Tuple[Tuple[Atom, int], ...] = ()
    const: int = 0

    @staticmethod
    def of(atom: Atom) -> "Aff":
        return Aff(((atom, 1),), 0)

    @staticmethod
    def c(v: int) -> "Aff":
        return Aff((), v)

    def _d(self) -> Dict[Atom, int]:
        return dict(self.terms)

    def __add__(self, o: "Aff") -> "Aff":
        d = self._d()
        for a, k in o.terms:
            d[a] = d.get(a, 0) + k
        return Aff(tuple(sorted(((a, k) for a, k in d.items() if k != 0), key=repr)), self.const + o.const)

    def __neg__(self) -> "Aff":
        return Aff(tuple((a, -k) for a, k in self.terms), -self.const)

    def __sub__(self, o: "Aff") -> "Aff":
        return self + (-o)

    def scale(self, k: int) -> "Aff":
        return Aff(tuple((a, c * k) for a, c in self.terms if c * k != 0), self.const * k)

    @property
    def is_const(self) -> bool:
        return not self.terms

    @property
    def single(self) -> Optional[Atom]:
        if len(self.terms) == 1 and self.terms[0][1] == 1 and self.const == 0:
            return self.terms[0][0]
        return None

    def coef(self, atom: Atom) -> int:
        return self._d().get(atom, 0)

    def drop(self, atom: Atom) -> "Aff":
        return Aff(tuple((a, k) for a, k in self.terms if a != atom), self.const)

    def subst(self, atom: Atom, value: "Aff") -> "Aff":
        k = self.coef(atom)
        return self.drop(atom) + value.scale(k) if k else self

    def show(self) -> str:
        parts = []
        for a, k in self.terms:
            parts.append(("" if k == 1 else "-" if k == -1 else f"{k}*") + show_atom(a))
        if self.const or not parts:
            parts.append(str(self.const))
        return " + ".join(parts).replace("+ -", "- ")


def show_atom(a: Any) -> str:
    if not isinstance(a, tuple):
        return str(a)
    k = a[0]
    if k == "item":
        return f"{show_atom(a[2])}[{show_atom(a[1]) if isinstance(a[1], tuple) else a[1]}]"
    if k == "attr":
        return f"{show_atom(a[2])}.{a[1]}"
    if k == "elem":
        return f"each({show_atom(a[1])})"
    if k == "len":
        return f"len({show_atom(a[1])})"
    if k in ("param", "var", "loopvar", "global"):
        return str(a[1])
    if k == "call":
        return f"{a[1]}({', '.join(show_atom(x) for x in a[2:])})"
    if k == "aff":
        return "(" + a[1].show() + ")"
    return repr(a)


def atom_of(v: Any) -> Atom:
    """Atom view of a value (Aff with a single unit atom is that atom)."""
    if isinstance(v, Aff):
        s = v.single
        if s is not None:
            return s
        if v.is_const:
            return ("const", v.const)
        return ("aff", v)
    return v


class SymEnv:
    """Resolves names of one function to symbolic terms."""

    def __init__(self, func: ast.AST, overrides: Optional[Dict[str, Any]] = None, parent: Optional["SymEnv"] = None):
        self.func = func
        self.parent = parent
        self.over = dict(overrides or {})
        self._busy: set = set()
        self.params = [a.arg for a in getattr(func, "args", ast.arguments(posonlyargs=[], args=[], kwonlyargs=[], kw_defaults=[], defaults=[])).args]

    def with_(self, **kw: Any) -> "SymEnv":
        e = SymEnv(self.func, {**self.over, **kw}, self.parent)
        return e

    # ---- names ---------------------------------------------------------------
    def name(self, name: str) -> Any:
        if name in self.over:
            return self.over[name]
        if name in self._busy:
            return Aff.of(("var", name))
        binds = astq.assignments(self.func, name)
        if not binds:
            if self.parent is not None:
                return self.parent.name(name)
            if name in self.params:
                return Aff.of(("param", name))
            return Aff.of(("global", name))
        if len(binds) > 1:
            return Aff.of(("var", name))
        st, val = binds[0]
        self._busy.add(name)
        try:
            if isinstance(st, (ast.Assign, ast.AnnAssign)):
                tgt = st.targets[0] if isinstance(st, ast.Assign) else st.target
                return self._bind_component(tgt, name, self.ev(val) if val is not None else Aff.of(("var", name)))
            if isinstance(st, (ast.For, ast.AsyncFor)):
                return self._bind_component(st.target, name, self.iter_elem(st.iter, st))
            return Aff.of(("var", name))
        finally:
            self._busy.discard(name)

    def _bind_component(self, tgt: ast.AST, name: str, value: Any) -> Any:
        if isinstance(tgt, ast.Name):
            return value
        if isinstance(tgt, (ast.Tuple, ast.List)):
            for i, e in enumerate(tgt.elts):
                if name in astq.target_names(e):
                    comp = self.component(value, i)
                    return self._bind_component(e, name, comp)
        return Aff.of(("var", name))

    def component(self, value: Any, i: int) -> Any:
        if isinstance(value, tuple) and value and value[0] == "tuple":
            if i < len(value) - 1:
                return value[1 + i]
        return Aff.of(("item", i, atom_of(value)))

    def iter_elem(self, it: ast.expr, loop: ast.AST) -> Any:
        """Symbolic element yielded by iterating `it`."""
        if isinstance(it, ast.Call):
            f = astq.callee_name(it)
            if f == "range" and isinstance(it.func, ast.Name):
                return Aff.of(("loopvar", id(loop), "range", tuple(atom_of(self.ev(a)) for a in it.args)))
            if f == "enumerate" and isinstance(it.func, ast.Name) and it.args:
                base = atom_of(self.ev(it.args[0]))
                idx = Aff.of(("index", base, id(loop)))
                return ("tuple", idx, Aff.of(("item", atom_of(idx), base)))
            if f == "combinations" and len(it.args) == 2 and isinstance(it.args[0], ast.Call) and astq.callee_name(it.args[0]) == "enumerate" and isinstance(it.args[0].func, ast.Name) and it.args[0].args and isinstance(it.args[1], ast.Constant) and isinstance(it.args[1].value, int) and len(it.args[0].args) == 1:
                # combinations(enumerate(X), r) == ((i, X[i]) for i in c) for c in combinations(range(len(X)), r)
                base = atom_of(self.ev(it.args[0].args[0]))
                src = ("elem", ("call", "itertools.combinations", ("call", "range", ("len", base)), ("const", it.args[1].value)), id(loop))
                out = []
                for k in range(it.args[1].value):
                    idx = Aff.of(("item", k, src))
                    out.append(("tuple", idx, Aff.of(("item", atom_of(idx), base))))
                return ("tuple",) + tuple(out)
            if f == "reversed" and isinstance(it.func, ast.Name) and it.args:
                return self.iter_elem(it.args[0], loop)
            if f == "zip" and isinstance(it.func, ast.Name):
                return ("tuple",) + tuple(Aff.of(("elem", atom_of(self.ev(a)), id(loop))) for a in it.args)
        return Aff.of(("elem", atom_of(self.ev(it)), id(loop)))

    # ---- expressions ---------------------------------------------------------
    def ev(self, n: ast.AST) -> Any:
        if isinstance(n, ast.Constant):
            if isinstance(n.value, bool) or not isinstance(n.value, int):
                return Aff.of(("const", n.value))
            return Aff.c(n.value)
        if isinstance(n, ast.Name):
            return self.name(n.id)
        if isinstance(n, ast.Tuple):
            return ("tuple",) + tuple(self.ev(e) for e in n.elts)
        if isinstance(n, ast.UnaryOp) and isinstance(n.op, ast.USub):
            v = self.ev(n.operand)
            if isinstance(v, Aff):
                return -v
        if isinstance(n, ast.BinOp) and isinstance(n.op, (ast.Add, ast.Sub)):
            a, b = self.ev(n.left), self.ev(n.right)
            if isinstance(a, Aff) and isinstance(b, Aff):
                return a + b if isinstance(n.op, ast.Add) else a - b
        if isinstance(n, ast.BinOp) and isinstance(n.op, ast.Mult):
            a, b = self.ev(n.left), self.ev(n.right)
            if isinstance(a, Aff) and isinstance(b, Aff):
                if a.is_const:
                    return b.scale(a.const)
                if b.is_const:
                    return a.scale(b.const)
        if isinstance(n, ast.Attribute):
            base = atom_of(self.ev(n.value))
            if n.attr in ENTRY_FIELDS:
                return Aff.of(("item", ENTRY_FIELDS[n.attr], base))
            return Aff.of(("attr", n.attr, base))
        if isinstance(n, ast.Subscript):
            base = self.ev(n.value)
            if isinstance(n.slice, ast.Slice):
                lo = atom_of(self.ev(n.slice.lower)) if n.slice.lower else None
                hi = atom_of(self.ev(n.slice.upper)) if n.slice.upper else None
                return Aff.of(("slice", lo, hi, atom_of(base)))
            idx = self.ev(n.slice)
            if isinstance(idx, Aff) and idx.is_const:
                return self.component(base, idx.const) if isinstance(base, tuple) and base and base[0] == "tuple" and idx.const >= 0 else Aff.of(("item", idx.const, atom_of(base)))
            return Aff.of(("item", atom_of(idx), atom_of(base)))
        if isinstance(n, ast.Call):
            f = astq.callee_name(n)
            if f == "len" and isinstance(n.func, ast.Name) and len(n.args) == 1:
                return Aff.of(("len", atom_of(self.ev(n.args[0]))))
            args = tuple(atom_of(self.ev(a)) for a in n.args)
            kws = tuple((k.arg, atom_of(self.ev(k.value))) for k in n.keywords)
            if isinstance(n.func, ast.Attribute):
                recv = atom_of(self.ev(n.func.value))
                if isinstance(recv, tuple) and recv[0] == "global":
                    return Aff.of(("call", f"{recv[1]}.{n.func.attr}") + args + kws)
                return Aff.of(("call", "." + n.func.attr, recv) + args + kws)
            return Aff.of(("call", astq.dotted(n.func) or "?") + args + kws)
        return Aff.of(("expr", ast.dump(n)))


# ---- comparison atoms ---------------------------------------------------------------

REL_FLIP = {"<": ">", ">": "<", "<=": ">=", ">=": "<=", "==": "==", "!=": "!="}
_OPS = {ast.Lt: "<", ast.Gt: ">", ast.LtE: "<=", ast.GtE: ">=", ast.Eq: "==", ast.NotEq: "!="}


def normalise_rel(diff: Aff, rel: str) -> Tuple[Aff, str]:
    """(diff rel 0) with a canonical sign: first term positive (or const sign for constants)."""
    lead = diff.terms[0][1] if diff.terms else (1 if diff.const >= 0 else -1)
    if lead < 0:
        return -diff, REL_FLIP[rel]
    return diff, rel


def compare_atoms(env: SymEnv, test: ast.expr) -> Optional[List[Tuple[Aff, str]]]:
    """A conjunction of affine comparisons as a list of normalised (diff, rel) meaning diff rel 0; None if not of that shape."""
    if isinstance(test, ast.BoolOp) and isinstance(test.op, ast.And):
        out: List[Tuple[Aff, str]] = []
        for v in test.values:
            r = compare_atoms(env, v)
            if r is None:
                return None
            out.extend(r)
        return out
    if isinstance(test, ast.Compare):
        out = []
        left = env.ev(test.left)
        for op, c in zip(test.ops, test.comparators):
            right = env.ev(c)
            if type(op) not in _OPS or not isinstance(left, Aff) or not isinstance(right, Aff):
                return None
            out.append(normalise_rel(left - right, _OPS[type(op)]))
            left = right
        return out
    return None
