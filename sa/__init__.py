"""Static-analysis engine for rnapolis-py (stdlib only; never imports or runs the repository)."""
