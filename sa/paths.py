"""Path enumeration through a statement block with propagation of boolean flags.

A path is the list of events met on one way through the block:
    ("test", text, value, node)   an atomic condition (and/or/not are split by short-circuit order) took `value`
    ("stmt", node)                a simple statement was executed
    ("loop", node)                a nested loop (opaque: zero or more rounds)
and ends in one of 'fall' | 'continue' | 'break' | 'return' | 'raise'.

Names assigned the constants True/False/None are tracked along the path; a later test of such a name (`x`, `not x`,
`x is None`, ...) is decided instead of forked, so a flag set in one branch and tested afterwards does not create
infeasible paths.  Repeated atomic tests with the same text and no intervening statement that mentions one of its names
in a store/call position are decided consistently as well.
"""
from __future__ import annotations

import ast
from typing import Any, Dict, Iterator, List, Optional, Sequence, Tuple

from sa.model import AnalysisError, norm

Event = Tuple[Any, ...]
_UNKNOWN = object()


class TooManyPaths(AnalysisError):
    pass


def _flag_value(test: ast.expr, flags: Dict[str, Any]) -> Any:
    if isinstance(test, ast.Name) and test.id in flags:
        return bool(flags[test.id])
    if isinstance(test, ast.Constant):
        return bool(test.value)
    if isinstance(test, ast.Compare) and len(test.ops) == 1 and isinstance(test.left, ast.Name) and test.left.id in flags and isinstance(test.comparators[0], ast.Constant):
        v, c = flags[test.left.id], test.comparators[0].value
        op = test.ops[0]
        if isinstance(op, ast.Is):
            return v is c
        if isinstance(op, ast.IsNot):
            return v is not c
        if isinstance(op, ast.Eq):
            return v == c
        if isinstance(op, ast.NotEq):
            return v != c
    return _UNKNOWN


def _decide(test: ast.expr, flags: Dict[str, Any], known: Dict[str, bool]) -> Iterator[Tuple[bool, List[Event], Dict[str, bool]]]:
    """All (value, events, known') outcomes of evaluating `test` in short-circuit order."""
    if isinstance(test, ast.UnaryOp) and isinstance(test.op, ast.Not):
        for v, ev, k in _decide(test.operand, flags, known):
            yield (not v), ev, k
        return
    if isinstance(test, ast.BoolOp):
        is_and = isinstance(test.op, ast.And)

        def rec(i: int, evs: List[Event], k: Dict[str, bool]):
            if i == len(test.values):
                yield is_and, evs, k
                return
            for v, ev, k2 in _decide(test.values[i], flags, k):
                if v != is_and:  # short circuit
                    yield v, evs + ev, k2
                else:
                    yield from rec(i + 1, evs + ev, k2)

        yield from rec(0, [], known)
        return
    fv = _flag_value(test, flags)
    if fv is not _UNKNOWN:
        yield fv, [], known
        return
    t = norm(test)
    if t in known:
        yield known[t], [("test", t, known[t], test)], known
        return
    for v in (True, False):
        k2 = dict(known)
        k2[t] = v
        yield v, [("test", t, v, test)], k2


def _invalidate(known: Dict[str, bool], st: ast.AST) -> Dict[str, bool]:
    """Drop remembered test outcomes that `st` may change (stores to, or calls on, a name the test mentions)."""
    touched = set()
    for n in ast.walk(st):
        if isinstance(n, ast.Name) and isinstance(n.ctx, (ast.Store, ast.Del)):
            touched.add(n.id)
        elif isinstance(n, ast.Call) and isinstance(n.func, ast.Attribute):
            base = n.func.value
            while isinstance(base, (ast.Attribute, ast.Subscript)):
                base = base.value
            if isinstance(base, ast.Name):
                touched.add(base.id)
        elif isinstance(n, (ast.Subscript, ast.Attribute)) and isinstance(n.ctx, (ast.Store, ast.Del)):
            base = n.value
            while isinstance(base, (ast.Attribute, ast.Subscript)):
                base = base.value
            if isinstance(base, ast.Name):
                touched.add(base.id)
    if not touched:
        return known
    out = {}
    for t, v in known.items():
        try:
            names = {x.id for x in ast.walk(ast.parse(t, mode="eval")) if isinstance(x, ast.Name)}
        except SyntaxError:
            names = touched
        if not (names & touched):
            out[t] = v
    return out


def paths(block: Sequence[ast.stmt], limit: int = 5000) -> List[Tuple[List[Event], str]]:
    out: List[Tuple[List[Event], str]] = []

    def run(stmts: Sequence[ast.stmt], i: int, events: List[Event], flags: Dict[str, Any], known: Dict[str, bool], cont) -> None:
        if len(out) > limit:
            raise TooManyPaths(f"more than {limit} paths")
        if i == len(stmts):
            cont(events, flags, known)
            return
        st = stmts[i]
        nxt = lambda e, f, k: run(stmts, i + 1, e, f, k, cont)
        if isinstance(st, ast.If):
            for v, ev, k2 in _decide(st.test, flags, known):
                run(st.body if v else st.orelse, 0, events + ev, dict(flags), k2, nxt)
            return
        if isinstance(st, ast.Continue):
            out.append((events, "continue"))
            return
        if isinstance(st, ast.Break):
            out.append((events, "break"))
            return
        if isinstance(st, ast.Return):
            out.append((events + [("stmt", st)], "return"))
            return
        if isinstance(st, ast.Raise):
            out.append((events + [("stmt", st)], "raise"))
            return
        if isinstance(st, (ast.For, ast.While, ast.AsyncFor)):
            nxt(events + [("loop", st)], {k: v for k, v in flags.items() if k not in {x.id for x in ast.walk(st) if isinstance(x, ast.Name) and isinstance(x.ctx, ast.Store)}}, _invalidate(known, st))
            return
        if isinstance(st, (ast.With, ast.AsyncWith)):
            run(list(st.body), 0, events + [("stmt", st)], flags, known, nxt)
            return
        if isinstance(st, ast.Try):
            # body then orelse/finally on the normal path; handlers are entered from an unknown point of the body
            run(list(st.body) + list(st.orelse) + list(st.finalbody), 0, events, flags, known, nxt)
            for h in st.handlers:
                run(list(h.body) + list(st.finalbody), 0, events + [("handler", h)], {}, {}, nxt)
            return
        if isinstance(st, ast.Assign) and len(st.targets) == 1 and isinstance(st.targets[0], ast.Name) and isinstance(st.value, (ast.Compare, ast.BoolOp)) or (
            isinstance(st, ast.Assign) and len(st.targets) == 1 and isinstance(st.targets[0], ast.Name) and isinstance(st.value, ast.UnaryOp) and isinstance(st.value.op, ast.Not)
        ):
            # a condition stored in a name: decide it here, remember the outcome as a flag
            for v, ev, k2 in _decide(st.value, flags, known):
                f3 = dict(flags)
                f3[st.targets[0].id] = v
                nxt(events + ev + [("stmt", st)], f3, k2)
            return
        if isinstance(st, (ast.Assign, ast.AugAssign)) and isinstance(st.value, ast.IfExp) and not isinstance(st.value.body, ast.IfExp) and not isinstance(st.value.orelse, ast.IfExp):
            # `x = a if t else b`: fork on t and continue with the chosen branch as the assigned value
            import copy as _copy

            for v, ev, k2 in _decide(st.value.test, flags, known):
                chosen = _copy.copy(st)
                chosen.value = st.value.body if v else st.value.orelse
                run([chosen] + list(stmts[i + 1 :]), 0, events + ev, dict(flags), k2, cont)
            return
        f2 = flags
        if isinstance(st, ast.Assign) and len(st.targets) == 1 and isinstance(st.targets[0], ast.Name):
            f2 = dict(flags)
            if isinstance(st.value, ast.Constant) and (st.value.value is None or isinstance(st.value.value, bool)):
                f2[st.targets[0].id] = st.value.value
            else:
                f2.pop(st.targets[0].id, None)
        else:
            stored = {x.id for x in ast.walk(st) if isinstance(x, ast.Name) and isinstance(x.ctx, ast.Store)}
            if stored & set(flags):
                f2 = {k: v for k, v in flags.items() if k not in stored}
        nxt(events + [("stmt", st)], f2, _invalidate(known, st))

    run(list(block), 0, [], {}, {}, lambda e, f, k: out.append((e, "fall")))
    return out


def calls_on(events: Sequence[Event], receiver: str, method: str) -> List[ast.Call]:
    """Calls `<receiver>.<method>(...)` made by the simple statements of a path, in order."""
    res = []
    for ev in events:
        if ev[0] != "stmt":
            continue
        for n in ast.walk(ev[1]):
            if isinstance(n, ast.Call) and isinstance(n.func, ast.Attribute) and n.func.attr == method and norm(n.func.value) == receiver:
                res.append(n)
    return res


def unroll_literal_loops(block: Sequence[ast.stmt]) -> List[ast.stmt]:
    """`for x in (a, b): body` with a literal tuple/list, a plain name target and no break/continue/else becomes
    body[x:=a]; body[x:=b].  Everything else is kept (recursively inside if/else)."""
    import copy

    out: List[ast.stmt] = []
    for st in block:
        if (
            isinstance(st, ast.For)
            and isinstance(st.iter, (ast.Tuple, ast.List))
            and isinstance(st.target, ast.Name)
            and not st.orelse
            and len(st.iter.elts) <= 4
            and not any(isinstance(n, (ast.Break, ast.Continue)) for n in ast.walk(st))
            and not any(isinstance(n, ast.Name) and n.id == st.target.id and isinstance(n.ctx, ast.Store) for b in st.body for n in ast.walk(b))
        ):
            for e in st.iter.elts:

                class _S(ast.NodeTransformer):
                    def visit_Name(self, n):
                        if n.id == st.target.id and isinstance(n.ctx, ast.Load):
                            return copy.deepcopy(e)
                        return n

                for b in st.body:
                    nb = _S().visit(copy.deepcopy(b))
                    ast.copy_location(nb, b)
                    out.append(ast.fix_missing_locations(nb))
            continue
        if isinstance(st, ast.If):
            new = copy.copy(st)
            new.body = unroll_literal_loops(st.body)
            new.orelse = unroll_literal_loops(st.orelse)
            out.append(new)
            continue
        out.append(st)
    return out
