"""Run-dependent values used as data (C14: the output is a function of the input, not of the run).

`tempfile.NamedTemporaryFile()` / `mkstemp()` / `mkdtemp()` / `TemporaryDirectory()` give a name that is random on
every run.  Using that name to *address* the file (open it, hand it to a reader or writer of another package, remove
it) leaves no trace of the name in any result.  Using it as *data* - returned, stored in a record or a table column,
formatted into text, printed - makes the output differ between two runs on the same input.

The analysis is a small interprocedural taint over the ast (flow-insensitive inside a function, fixpoint over the
package):

    TF   an expression is a temporary file object: a call of a tempfile factory, a name bound to one (assignment,
         `with ... as f`), the result of a package function that returns one, a parameter that receives one at some
         call site of the package
    TS   an expression carries a temporary name: `<TF>.name`, mkstemp()/mkdtemp()/mktemp() results, the target of
         `with TemporaryDirectory() as d`, and everything built from a TS by string/path operations (f-strings, + and %,
         os.path.basename/splitext/join/..., str methods, subscripts, containers holding one, pathlib.Path(...)),
         names bound to a TS, results of package functions that return one, parameters that receive one

Every occurrence of a TS expression must be one of
    * bound to a local name, returned, or passed to a package function (followed through the fixpoint),
    * an argument of a call that consumes a path (open, os.*, shutil.*, subprocess.*, gzip/bz2/lzma.open, or a method /
      function that does not belong to the package - readers and writers of other libraries - but not an output call
      such as print / write / writerow / dump),
    * part of a test (comparison, str predicate) - control only,
    * an argument of logging.
Anything else - stored in an attribute, a subscript or a container that is stored, passed to an output call or to a
constructor of a package class, returned from a public function to no caller (entry point) - is reported.
"""
from __future__ import annotations

import ast
from typing import Dict, List, Optional, Set, Tuple

from . import astq
from .model import FuncInfo, Repo

FILE_FACTORIES = {"tempfile.NamedTemporaryFile", "tempfile.TemporaryFile", "tempfile.SpooledTemporaryFile", "tempfile.TemporaryDirectory"}
NAME_FACTORIES = {"tempfile.mkstemp", "tempfile.mkdtemp", "tempfile.mktemp"}
STRING_FUNCS = {
    "os.path.basename", "os.path.dirname", "os.path.splitext", "os.path.split", "os.path.join", "os.path.abspath", "os.path.normpath", "os.path.realpath",
    "os.path.relpath", "os.path.expanduser", "os.fspath", "os.fsdecode", "str", "repr", "format", "list", "tuple", "sorted", "reversed", "pathlib.Path", "pathlib.PurePath",
}  # fmt: skip
PREDICATES = {"startswith", "endswith", "isdigit", "isalpha", "isalnum", "islower", "isupper", "isspace", "__contains__", "exists", "is_file", "is_dir"}
OUTPUT_NAMES = {"print", "write", "writelines", "writerow", "writerows", "dump", "dumps", "display", "send", "put"}
PATH_HEADS = {"os", "shutil", "subprocess", "gzip", "bz2", "lzma", "io", "pathlib", "glob", "zipfile", "tarfile", "open"}
PATH_VERBS = ("read", "load", "parse", "open", "save", "write", "remove", "unlink", "delete", "exists", "stat", "copy", "move", "rename", "mkdir", "rmdir", "listdir", "run", "call", "check_", "popen", "fromfile", "to_", "from_file", "close", "touch", "chmod", "isfile", "isdir", "getsize", "getmtime")
LOGGING_HEADS = {"logging", "logger", "log", "warnings"}


class Finding:
    def __init__(self, fi: FuncInfo, node: ast.AST, text: str, key: str):
        self.fi, self.node, self.text, self.key = fi, node, text, key


class RunValues:
    def __init__(self, repo: Repo):
        self.repo = repo
        self.funcs: List[FuncInfo] = [fi for fi in repo.all_funcs()]
        self.by_name: Dict[str, List[FuncInfo]] = {}
        for fi in self.funcs:
            self.by_name.setdefault(fi.node.name, []).append(fi)
        self.ret_tf: Dict[int, str] = {}  # id(fi.node) -> origin text
        self.ret_ts: Dict[int, str] = {}
        self.par_tf: Dict[Tuple[int, str], str] = {}
        self.par_ts: Dict[Tuple[int, str], str] = {}
        self.n_sources = 0
        self.findings: List[Finding] = []

    # -- names ------------------------------------------------------------------------------------------------------
    def _dotted(self, fi: FuncInfo, f: ast.AST) -> Optional[str]:
        """dotted name of a callee with import aliases resolved (`from tempfile import NamedTemporaryFile as N` -> tempfile.NamedTemporaryFile)"""
        d = astq.dotted(f)
        if d is None:
            return None
        head, _, rest = d.partition(".")
        imp = fi.module.imports.get(head)
        if imp is not None:
            src, orig = imp
            base = src if orig is None else f"{src}.{orig}"
            return base + ("." + rest if rest else "")
        return d

    def _callee(self, fi: FuncInfo, call: ast.Call) -> Optional[Tuple[FuncInfo, int]]:
        """(package function, index offset of its first explicit parameter) for a call that visibly targets the package"""
        f = call.func
        if isinstance(f, ast.Name):
            try:
                hm, hn = self.repo.const_home(fi.module.name, f.id)
            except Exception:
                return None
            mod = self.repo.modules[hm]
            if hn in mod.funcs:
                return mod.funcs[hn], 0
            if hn in mod.classes:
                for init in ("__init__", "__post_init__"):
                    if f"{hn}.{init}" in mod.funcs and init == "__init__":
                        return mod.funcs[f"{hn}.{init}"], 1
                return None
            return None
        if isinstance(f, ast.Attribute):
            cands = [g for g in self.by_name.get(f.attr, []) if g.cls is not None]
            if isinstance(f.value, ast.Name) and f.value.id in fi.module.imports:
                src, orig = fi.module.imports[f.value.id]
                m = (src if orig is None else f"{src}.{orig}").split(".")[-1]
                if m in self.repo.modules and f.attr in self.repo.modules[m].funcs:
                    return self.repo.modules[m].funcs[f.attr], 0
                return None
            if isinstance(f.value, ast.Name) and f.value.id in ("self", "cls") and fi.cls is not None:
                own = [g for g in cands if g.cls is fi.cls]
                if own:
                    return own[0], 1
            if len(cands) == 1 and f.attr not in dir(str) and f.attr not in dir(list) and f.attr not in dir(dict):
                return cands[0], 1
        return None

    def _is_package_class(self, fi: FuncInfo, call: ast.Call) -> Optional[str]:
        if isinstance(call.func, ast.Name):
            try:
                hm, hn = self.repo.const_home(fi.module.name, call.func.id)
                if hn in self.repo.modules[hm].classes:
                    return hn
            except Exception:
                return None
        return None

    # -- per function -------------------------------------------------------------------------------------------------
    def _scan(self, fi: FuncInfo, report: bool) -> bool:
        """One pass over fi; returns True when a summary changed."""
        changed = False
        fn = fi.node
        tf: Dict[str, str] = {}
        ts: Dict[str, str] = {}
        for a in fn.args.posonlyargs + fn.args.args + fn.args.kwonlyargs:
            if (id(fn), a.arg) in self.par_tf:
                tf[a.arg] = self.par_tf[(id(fn), a.arg)]
            if (id(fn), a.arg) in self.par_ts:
                ts[a.arg] = self.par_ts[(id(fn), a.arg)]

        def kind(e: ast.AST) -> Tuple[Optional[str], str]:
            """('TF'|'TS'|None, origin)"""
            if isinstance(e, ast.Name):
                if e.id in ts:
                    return "TS", ts[e.id]
                if e.id in tf:
                    return "TF", tf[e.id]
                return None, ""
            if isinstance(e, ast.Call):
                d = self._dotted(fi, e.func) or ""
                if d in FILE_FACTORIES:
                    return "TF", f"{d}() at {fi.site(e)}"
                if d in NAME_FACTORIES:
                    return "TS", f"{d}() at {fi.site(e)}"
                c = self._callee(fi, e)
                if c is not None:
                    g = c[0]
                    if id(g.node) in self.ret_ts:
                        return "TS", self.ret_ts[id(g.node)]
                    if id(g.node) in self.ret_tf:
                        return "TF", self.ret_tf[id(g.node)]
                    return None, ""
                # string / path operations keep the name
                if d in STRING_FUNCS or d.split(".")[-1] in ("Path", "PurePath"):
                    for a in list(e.args) + [k.value for k in e.keywords]:
                        k, o = kind(a)
                        if k == "TS":
                            return "TS", o
                    return None, ""
                if isinstance(e.func, ast.Attribute):
                    k, o = kind(e.func.value)
                    if k == "TS" and e.func.attr not in PREDICATES and e.func.attr in _STR_METHODS:
                        return "TS", o
                    if e.func.attr in ("format", "join") and isinstance(e.func.value, ast.Constant):
                        for a in list(e.args) + [k2.value for k2 in e.keywords]:
                            k, o = kind(a)
                            if k == "TS":
                                return "TS", o
                return None, ""
            if isinstance(e, ast.Attribute):
                k, o = kind(e.value)
                if k == "TF" and e.attr == "name":
                    return "TS", f"`{ast.unparse(e)}`, the name of the temporary file from {o}"
                if k == "TS" and e.attr in ("name", "stem", "suffix", "parent", "parts"):
                    return "TS", o
                return None, ""
            if isinstance(e, ast.IfExp):
                for b in (e.body, e.orelse):
                    k, o = kind(b)
                    if k:
                        return k, o
                return None, ""
            if isinstance(e, ast.BoolOp):
                for b in e.values:
                    k, o = kind(b)
                    if k:
                        return k, o
                return None, ""
            if isinstance(e, (ast.JoinedStr,)):
                for v in e.values:
                    if isinstance(v, ast.FormattedValue):
                        k, o = kind(v.value)
                        if k == "TS":
                            return "TS", o
                return None, ""
            if isinstance(e, ast.BinOp) and isinstance(e.op, (ast.Add, ast.Mod, ast.Div)):
                for b in (e.left, e.right):
                    k, o = kind(b)
                    if k == "TS":
                        return "TS", o
                return None, ""
            if isinstance(e, ast.Subscript):
                k, o = kind(e.value)
                return ("TS", o) if k == "TS" else (None, "")
            if isinstance(e, (ast.Tuple, ast.List, ast.Set)):
                for b in e.elts:
                    k, o = kind(b.value if isinstance(b, ast.Starred) else b)
                    if k == "TS":
                        return "TS", o
                return None, ""
            if isinstance(e, ast.Dict):
                for b in list(e.values) + [k for k in e.keys if k is not None]:
                    k, o = kind(b)
                    if k == "TS":
                        return "TS", o
                return None, ""
            if isinstance(e, ast.NamedExpr):
                return kind(e.value)
            if isinstance(e, ast.Starred):
                return kind(e.value)
            return None, ""

        def bind(target: ast.AST, k: Optional[str], o: str) -> None:
            nonlocal grew
            if k is None:
                return
            names = [x.id for x in ast.walk(target) if isinstance(x, ast.Name)] if not isinstance(target, (ast.Attribute, ast.Subscript)) else []
            for nm in names:
                tab = tf if k == "TF" else ts
                if nm not in tab:
                    tab[nm] = o
                    grew = True

        # local fixpoint of name bindings
        grew = True
        rounds = 0
        while grew and rounds < 12:
            grew = False
            rounds += 1
            for n in astq.walk_no_nested(fn):
                if isinstance(n, ast.Assign):
                    k, o = kind(n.value)
                    for t in n.targets:
                        bind(t, k, o)
                elif isinstance(n, ast.AnnAssign) and n.value is not None:
                    bind(n.target, *kind(n.value))
                elif isinstance(n, ast.AugAssign):
                    bind(n.target, *kind(n.value))
                elif isinstance(n, ast.NamedExpr):
                    bind(n.target, *kind(n.value))
                elif isinstance(n, (ast.With, ast.AsyncWith)):
                    for it in n.items:
                        if it.optional_vars is None:
                            continue
                        k, o = kind(it.context_expr)
                        d = self._dotted(fi, it.context_expr.func) if isinstance(it.context_expr, ast.Call) else None
                        if d == "tempfile.TemporaryDirectory":
                            bind(it.optional_vars, "TS", f"the directory name given by {d}() at {fi.site(it.context_expr)}")
                        else:
                            bind(it.optional_vars, k, o)
                elif isinstance(n, (ast.For, ast.AsyncFor)):
                    k, o = kind(n.iter)
                    if k == "TS":
                        bind(n.target, "TS", o)
                elif isinstance(n, ast.comprehension):
                    k, o = kind(n.iter)
                    if k == "TS":
                        bind(n.target, "TS", o)
        # uses
        par = astq.parents(fn)
        for n in astq.walk_no_nested(fn):
            if isinstance(n, ast.Call):
                d = self._dotted(fi, n.func) or ""
                if d in FILE_FACTORIES or d in NAME_FACTORIES:
                    if report:
                        self.n_sources += 1
            if isinstance(n, ast.Return) and n.value is not None:
                k, o = kind(n.value)
                if k == "TF" and id(fn) not in self.ret_tf:
                    self.ret_tf[id(fn)] = o + f", returned by {fi.qualname}"
                    changed = True
                if k == "TS" and id(fn) not in self.ret_ts:
                    self.ret_ts[id(fn)] = o + f", returned by {fi.qualname}"
                    changed = True
            if isinstance(n, ast.Call):
                c = self._callee(fi, n)
                if c is not None:
                    g, off = c
                    params = [a.arg for a in g.node.args.posonlyargs + g.node.args.args][off:]
                    pairs = list(zip(params, n.args)) + [(kw.arg, kw.value) for kw in n.keywords if kw.arg]
                    for p, a in pairs:
                        if isinstance(a, ast.Starred):
                            continue
                        k, o = kind(a)
                        if k == "TF" and (id(g.node), p) not in self.par_tf:
                            self.par_tf[(id(g.node), p)] = o
                            changed = True
                        if k == "TS" and (id(g.node), p) not in self.par_ts:
                            self.par_ts[(id(g.node), p)] = o + f", passed to {g.qualname}({p}=...)"
                            changed = True
        if not report:
            return changed
        # every maximal TS occurrence must be in an accepted position
        for n in astq.walk_no_nested(fn):
            if not isinstance(n, ast.expr):
                continue
            k, o = kind(n)
            if k != "TS":
                continue
            p = par.get(id(n))
            # only maximal occurrences
            if isinstance(p, ast.expr) and kind(p)[0] == "TS":
                continue
            if isinstance(p, ast.FormattedValue):
                continue
            if isinstance(n, ast.Name) and isinstance(n.ctx, ast.Store):
                continue
            why = self._use(fi, n, p, par)
            if why is not None:
                self.findings.append(Finding(fi, n, f"`{ast.unparse(n)[:60]}` carries {o}: a name that is random on every run; {why} - the output differs between two runs on the same input", f"{fi.module.name}:{fi.qualname}:tempname:{ast.unparse(n)[:50]}"))
        return changed

    def _use(self, fi: FuncInfo, n: ast.AST, p: Optional[ast.AST], par) -> Optional[str]:
        """None when the occurrence is accepted, else what is done with the value."""
        if p is None:
            return None
        if isinstance(p, (ast.Assign, ast.AnnAssign, ast.AugAssign, ast.NamedExpr)):
            tgts = p.targets if isinstance(p, ast.Assign) else [p.target]
            if getattr(p, "value", None) is n:
                bad = [t for t in tgts if isinstance(t, (ast.Attribute, ast.Subscript))]
                if bad:
                    return f"it is stored in `{ast.unparse(bad[0])[:50]}`"
                return None
            return None
        if isinstance(p, ast.Return):
            if fi.node.name == "main" or fi.qualname.endswith(".main"):
                return "it is returned by the entry point"
            return None  # followed into the callers through the summary
        if isinstance(p, (ast.Compare, ast.If, ast.While, ast.Assert, ast.UnaryOp)):
            return None
        if isinstance(p, ast.BoolOp) or isinstance(p, ast.IfExp) and p.test is n:
            return None
        if isinstance(p, (ast.withitem, ast.For, ast.comprehension)):
            return None
        if isinstance(p, ast.Attribute):
            gp = par.get(id(p))
            if isinstance(gp, ast.Call) and gp.func is p:
                if p.attr in PREDICATES:
                    return None
                return None  # Path(...).read_text(), .unlink(), ...: addresses the file
            return None
        if isinstance(p, ast.keyword):
            p = par.get(id(p))
        if isinstance(p, ast.Starred):
            p = par.get(id(p))
        if isinstance(p, ast.Call) and n is not p.func:
            d = self._dotted(fi, p.func) or ""
            head = d.split(".")[0]
            last = d.split(".")[-1] if d else (p.func.attr if isinstance(p.func, ast.Attribute) else "")
            if head in LOGGING_HEADS or (isinstance(p.func, ast.Attribute) and astq.dotted(p.func.value) in LOGGING_HEADS):
                return None
            c = self._callee(fi, p)
            if c is not None:
                return None  # followed into the callee through the summary
            cls = self._is_package_class(fi, p)
            if cls is not None:
                return f"it becomes a field of a {cls} record"
            if last in OUTPUT_NAMES:
                return f"it is handed to `{ast.unparse(p.func)[:40]}(...)`, an output call"
            if head in PATH_HEADS or last.lower().startswith(PATH_VERBS):
                return None  # a reader / writer / file-system call of another library: the name addresses the file
            return f"it is handed to `{ast.unparse(p.func)[:40]}(...)`, which is not known to use it only as a path"
        if isinstance(p, ast.Expr):
            return None
        if isinstance(p, (ast.Yield, ast.YieldFrom)):
            return "it is yielded"
        if isinstance(p, ast.Subscript) and p.slice is n:
            return None  # used as a key to look something up
        return f"it is used in `{ast.unparse(p)[:60]}`"

    # -- driver -----------------------------------------------------------------------------------------------------------
    def analyse(self) -> List[Finding]:
        for _ in range(8):
            changed = False
            for fi in self.funcs:
                if self._scan(fi, report=False):
                    changed = True
            if not changed:
                break
        self.findings = []
        self.n_sources = 0
        for fi in self.funcs:
            self._scan(fi, report=True)
        seen = set()
        out = []
        for f in self.findings:
            if f.key in seen:
                continue
            seen.add(f.key)
            out.append(f)
        return out


_STR_METHODS = {m for m in dir(str) if not m.startswith("_")} | {"with_suffix", "with_name", "resolve", "absolute", "as_posix", "joinpath"}
