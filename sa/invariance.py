"""A11: rigid-motion invariance kinds.

Under x -> R x + t (R a proper rotation) every value is one of
   PT   a point (transforms as R x + t)            PC  one component of a point
   VEC  a vector (transforms as R v)               VC  one component of a vector
   INV  a number that does not change              ID  identity data (names, numbers, flags, objects compared by ==/hash)
   ATOM / RES / STRUCT  library objects carrying points; KD a KD-tree over points
   ('LIST', k) ('DICT', k, v) ('TUPLE', [k...]) containers;  NONE, UNK
Typing rules: PT-PT=VEC, VEC+-VEC=VEC, VEC*INV=VEC, dot/norm(VEC..)=INV, cross(VEC,VEC)=VEC, mean/sum/len over points
gives a point, KD-tree over points queried with an INV radius gives index pairs (ID), angle/torsion of vectors/points
are INV.  Everything else that touches PT/PC/VEC/VC - comparing, sorting, min/max, arithmetic with constants,
unknown functions - is *ill-typed* and reported: the result of the program could then depend on the frame.
Using a coordinate tuple as a dictionary key or set member is identity use and allowed.
"""
from __future__ import annotations

import ast
from dataclasses import dataclass
from typing import Any, Dict, List, Optional, Tuple

from . import astq
from .model import FuncInfo, Repo

PT, PC, VEC, VC, INV, ID, ATOM, RES, STRUCT, KD, NONE, UNK = "PT PC VEC VC INV ID ATOM RES STRUCT KD NONE UNK".split()
COORD = (PT, PC, VEC, VC)


def f_short(e: ast.Call) -> str:
    return ast.unparse(e.func).split(".")[-1]


def L(k):
    return ("LIST", k)


def D(k, v):
    return ("DICT", k, v)


def has_coord(k) -> bool:
    if k in COORD:
        return True
    if isinstance(k, tuple):
        if k[0] in ("TUPLE", "ZIP"):
            return any(has_coord(x) for x in k[1])
        if k[0] == "REC":
            return any(has_coord(v) for _, v in k[2])
        return any(has_coord(x) for x in k[1:])
    return False


@dataclass
class Issue:
    fi: FuncInfo
    node: ast.AST
    msg: str


ANN = {"Atom": ATOM, "Residue3D": RES, "Structure3D": STRUCT, "int": ID, "str": ID, "bool": ID, "float": INV, "LeontisWesthof": ID, "Optional[int]": ID}


class Invariance:
    def __init__(self, repo: Repo):
        self.repo = repo
        self.issues: List[Issue] = []
        self.analysed: Dict[Tuple[str, str, Tuple], Any] = {}
        self._active: set = set()
        self.n_typed = 0

    def analyse(self, fi: FuncInfo, params: Optional[Dict[str, Any]] = None) -> Any:
        env: Dict[str, Any] = {}
        for a in fi.node.args.args + fi.node.args.kwonlyargs:
            if a.arg == "self" and fi.cls is not None:
                env["self"] = {"Residue3D": RES, "Atom": ATOM, "Structure3D": STRUCT}.get(fi.cls.name, ID)
                continue
            ann = ast.unparse(a.annotation) if a.annotation else None
            k = ANN.get(ann, UNK)
            if ann and "NDArray" in ann:
                k = UNK
            env[a.arg] = k
        if params:
            for k, v in params.items():
                if v != UNK or env.get(k, UNK) == UNK:
                    env[k] = v
        key = (fi.module.name, fi.qualname, tuple(sorted((k, repr(v)) for k, v in env.items())))
        if key in self.analysed:
            return self.analysed[key]
        if key in self._active:
            return UNK
        self._active.add(key)
        try:
            a = _Typer(self, fi, env)
            for n in ast.walk(fi.node):
                if isinstance(n, (ast.Assign, ast.AnnAssign)):
                    t = n.targets[0] if isinstance(n, ast.Assign) else n.target
                    if isinstance(t, ast.Name) and isinstance(n.value, ast.List) and not n.value.elts:
                        a.env[t.id] = L(UNK)
                    if isinstance(t, ast.Name) and isinstance(n.value, ast.Dict) and not n.value.keys:
                        a.env[t.id] = D(UNK, UNK)
            a.run()  # first pass discovers container element kinds (issues are de-duplicated by the caller)
            a.ret = None
            a.run()
            self.n_typed += a.nsites
            ret = a.ret
        finally:
            self._active.discard(key)
        self.analysed[key] = ret
        return ret


class _Typer:
    def __init__(self, eng: Invariance, fi: FuncInfo, env: Dict[str, Any]):
        self.eng, self.fi, self.env = eng, fi, dict(env)
        self.nsites = 0
        self.ret: Any = None

    def err(self, node: ast.AST, msg: str) -> None:
        self.eng.issues.append(Issue(self.fi, node, msg))

    def run(self) -> None:
        for st in self.fi.node.body:
            self.stmt(st)

    # ---- statements --------------------------------------------------------------------
    def stmt(self, st: ast.AST) -> None:
        if isinstance(st, (ast.Assign, ast.AnnAssign)):
            if st.value is None:
                return
            v = self.ev(st.value)
            for t in st.targets if isinstance(st, ast.Assign) else [st.target]:
                self.bind(t, v)
        elif isinstance(st, ast.AugAssign):
            v = self.ev(st.value)
            if isinstance(st.target, ast.Name):
                old = self.env.get(st.target.id, UNK)
                if has_coord(v) and old in (INV, ID):
                    self.err(st, f"coordinate-dependent value of kind {v} accumulated into a scalar")
        elif isinstance(st, (ast.For, ast.AsyncFor)):
            it = self.ev(st.iter)
            self.bind(st.target, self.elem(it))
            for b in st.body + st.orelse:
                self.stmt(b)
        elif isinstance(st, (ast.If, ast.While)):
            self.ev(st.test)
            for b in st.body + st.orelse:
                self.stmt(b)
        elif isinstance(st, ast.Return):
            if st.value is not None:
                r = self.ev(st.value)
                self.ret = r if self.ret in (None, NONE, r) else (self.ret if r == NONE else UNK)
            elif self.ret is None:
                self.ret = NONE
        elif isinstance(st, ast.Expr):
            self.ev(st.value)
        elif isinstance(st, ast.Try):
            for b in st.body + [x for h in st.handlers for x in h.body] + st.orelse + st.finalbody:
                self.stmt(b)
        elif isinstance(st, ast.With):
            for b in st.body:
                self.stmt(b)

    def elem(self, k: Any) -> Any:
        if isinstance(k, tuple) and k[0] == "ZIP":
            return ("TUPLE", [self.elem(x) for x in k[1]])  # components of the same axis, side by side
        if isinstance(k, tuple) and k[0] == "LIST":
            return k[1]
        if isinstance(k, tuple) and k[0] == "DICT":
            return k[1]
        if isinstance(k, tuple) and k[0] == "TUPLE":
            return k[1][0] if len(set(map(repr, k[1]))) == 1 else UNK
        if k == PT:
            return PC
        if k == VEC:
            return VC
        return ID if k == ID else UNK

    def bind(self, t: ast.AST, v: Any) -> None:
        if isinstance(t, ast.Name):
            self.env[t.id] = v
        elif isinstance(t, (ast.Tuple, ast.List)):
            for i, e in enumerate(t.elts):
                if isinstance(v, tuple) and v[0] == "TUPLE" and i < len(v[1]):
                    self.bind(e, v[1][i])
                elif v == PT:
                    self.bind(e, PC)
                elif v == VEC:
                    self.bind(e, VC)
                elif isinstance(v, tuple) and v[0] == "REC" and i < len(v[2]):
                    self.bind(e, v[2][i][1])
                elif isinstance(v, tuple) and v[0] == "LIST":
                    self.bind(e, v[1])  # a, b, c = [f(x) for x in ...]: every name gets the element kind
                else:
                    self.bind(e, ID if v == ID else UNK)
        elif isinstance(t, ast.Subscript):
            key = self.ev(t.slice)
            self.ev(t.value)
            if isinstance(t.value, ast.Name):
                old = self.env.get(t.value.id)
                if isinstance(old, tuple) and old[0] == "DICT":
                    self.env[t.value.id] = D(key if old[1] == UNK else old[1], v if old[2] == UNK else old[2])

    # ---- expressions ---------------------------------------------------------------------
    def ev(self, e: ast.AST) -> Any:
        self.nsites += 1
        m = getattr(self, "e_" + type(e).__name__, None)
        return m(e) if m else UNK

    def e_Constant(self, e):
        if e.value is None:
            return NONE
        return INV if isinstance(e.value, (int, float)) and not isinstance(e.value, bool) else ID

    def e_Name(self, e):
        if e.id in self.env:
            return self.env[e.id]
        return INV if e.id.isupper() and self._is_number_const(e.id) else (ID if e.id.isupper() else UNK)

    def _is_number_const(self, name: str) -> bool:
        try:
            ex = self.eng.repo.const_expr(self.fi.module.name, name)
            return isinstance(ex, ast.Constant) and isinstance(ex.value, (int, float)) or isinstance(ex, (ast.BinOp, ast.Tuple))
        except Exception:
            return False

    def e_JoinedStr(self, e):
        for v in e.values:
            if isinstance(v, ast.FormattedValue):
                self.ev(v.value)
        return ID

    def e_Tuple(self, e):
        ks = [self.ev(x) for x in e.elts]
        if ks == [PC, PC, PC]:
            return PT
        if ks == [VC, VC, VC]:
            return VEC
        return ("TUPLE", ks)

    def e_List(self, e):
        ks = [self.ev(x) for x in e.elts]
        if not ks:
            return L(UNK)
        if ks == [PC, PC, PC]:
            return PT
        if ks == [VC, VC, VC]:
            return VEC
        return L(ks[0]) if len(set(map(repr, ks))) == 1 else ("TUPLE", ks)

    def e_Set(self, e):
        return self.e_List(e)

    def e_Dict(self, e):
        vs = [self.ev(v) for v in e.values]
        ks = [self.ev(k) for k in e.keys if k is not None]
        return D(ks[0] if ks and len(set(map(repr, ks))) == 1 else UNK, vs[0] if vs and len(set(map(repr, vs))) == 1 else UNK)

    def _comp(self, e, elt):
        sub = _Typer(self.eng, self.fi, self.env)
        axis_var = None
        for g in e.generators:
            it = self.ev(g.iter)
            sub.bind(g.target, sub.elem(it))
            if len(e.generators) == 1 and not g.ifs and (it in (PT, VEC) or (isinstance(it, tuple) and it[0] == "ZIP" and it[1] and all(x in (PT, VEC) for x in it[1]))):
                axis_var = "<all axes>"  # one round per axis, in axis order: the components of a point / vector, or of several zipped together
            if isinstance(g.iter, (ast.Tuple, ast.List)) and [getattr(x, "value", None) for x in g.iter.elts] == [0, 1, 2] and isinstance(g.target, ast.Name):
                sub.env[g.target.id] = "AXIS"
                axis_var = g.target.id
            elif astq.match(g.iter, "range(3)") is not None and isinstance(g.target, ast.Name):
                sub.env[g.target.id] = "AXIS"
                axis_var = g.target.id
            for c in g.ifs:
                sub.ev(c)
        k = sub.ev(elt)
        self.nsites += sub.nsites
        if axis_var is not None:
            return {VC: VEC, PC: PT}.get(k, L(k))
        return L(k)

    def e_ListComp(self, e):
        return self._comp(e, e.elt)

    e_GeneratorExp = e_ListComp
    e_SetComp = e_ListComp

    def e_DictComp(self, e):
        sub = _Typer(self.eng, self.fi, self.env)
        for g in e.generators:
            sub.bind(g.target, sub.elem(self.ev(g.iter)))
        return D(sub.ev(e.key), sub.ev(e.value))

    def e_Attribute(self, e):
        b = self.ev(e.value)
        a = e.attr
        if isinstance(b, tuple) and b[0] == "REC":
            return dict(b[2]).get(a, UNK)  # field of a record built in the analysed code (NamedTuple / plain dataclass)
        if b == ATOM:
            return {"x": PC, "y": PC, "z": PC, "coordinates": PT, "occupancy": INV}.get(a, ID)
        if b == RES:
            if a == "atoms":
                return L(ATOM)
            return self._member(("tertiary", "Residue3D"), a, RES)
        if b == STRUCT:
            return L(RES) if a == "residues" else ID
        if b == ID:
            return ID
        return UNK

    def _member(self, cls: Tuple[str, str], name: str, self_kind: Any) -> Any:
        fi = self.eng.repo.modules[cls[0]].funcs.get(f"{cls[1]}.{name}")
        if fi is not None and any(d in ("property", "cached_property") for d in fi.decorators):
            r = self.eng.analyse(fi, {"self": self_kind})
            return r if r is not None else UNK
        return ID

    def e_Subscript(self, e):
        b = self.ev(e.value)
        k = self.ev(e.slice) if not isinstance(e.slice, ast.Slice) else ID
        if isinstance(b, tuple) and b[0] == "LIST":
            return b if isinstance(e.slice, ast.Slice) else b[1]
        if isinstance(b, tuple) and b[0] == "DICT":
            return b[2]
        if b == PT:
            return PC
        if b == VEC:
            return VC
        if isinstance(b, tuple) and b[0] == "TUPLE":
            if isinstance(e.slice, ast.Constant) and isinstance(e.slice.value, int) and -len(b[1]) <= e.slice.value < len(b[1]):
                return b[1][e.slice.value]
            if isinstance(e.slice, ast.Slice) and b[1] and len(set(map(repr, b[1]))) == 1:
                return L(b[1][0])  # a slice of a tuple whose members are all of one kind
            return UNK
        return ID if b == ID else UNK

    def e_UnaryOp(self, e):
        v = self.ev(e.operand)
        if isinstance(e.op, ast.Not):
            return ID
        return v

    def e_BoolOp(self, e):
        ks = [self.ev(v) for v in e.values]
        return ks[-1] if len(set(map(repr, ks))) == 1 else ID

    def e_IfExp(self, e):
        self.ev(e.test)
        a, b = self.ev(e.body), self.ev(e.orelse)
        return a if a == b else (a if b == NONE else (b if a == NONE else UNK))

    def e_Compare(self, e):
        ks = [self.ev(e.left)] + [self.ev(c) for c in e.comparators]
        for k in ks:
            if has_coord(k):
                if all(isinstance(o, (ast.Is, ast.IsNot)) for o in e.ops):
                    continue
                if all(isinstance(o, (ast.In, ast.NotIn, ast.Eq, ast.NotEq)) for o in e.ops) and k in (PT,) or (isinstance(k, tuple) and all(isinstance(o, (ast.In, ast.NotIn)) for o in e.ops)):
                    continue  # identity use of a coordinate tuple (dictionary key / membership)
                self.err(e, f"coordinate-dependent value of kind {k} in a comparison: the outcome depends on the frame")
        return ID

    def e_BinOp(self, e):
        a, b = self.ev(e.left), self.ev(e.right)
        op = type(e.op).__name__
        if op == "Sub":
            if a == PT and b == PT:
                return VEC
            if a == PC and b == PC:
                return VC
            if a == VEC and b == VEC:
                return VEC
            if a == VC and b == VC:
                return VC
            if a == INV and b == INV:
                return INV
            if a == PT and b == VEC:
                return PT
        if op == "Add":
            if a == VEC and b == VEC:
                return VEC
            if a == VC and b == VC:
                return VC
            if a == INV and b == INV:
                return INV
            if (a == PT and b == VEC) or (a == VEC and b == PT):
                return PT
            if isinstance(a, tuple) and isinstance(b, tuple) and a[0] == b[0] == "LIST":
                return a if a[1] != UNK else b
            if ID in (a, b) and not has_coord(a) and not has_coord(b):
                return ID
        if op in ("Mult", "Div"):
            if a == VEC and b == INV:
                return VEC
            if a == INV and b == VEC and op == "Mult":
                return VEC
            if a == VC and b == INV:
                return VC
            if a == INV and b == INV:
                return INV
            if a == "PCSUM" and b == INV and op == "Div":
                return PC
        if op == "Pow" and a == INV and b == INV:
            return INV
        if has_coord(a) or has_coord(b) or "PCSUM" in (a, b):
            self.err(e, f"coordinate arithmetic that is not invariant-typed ({a} {op} {b}): e.g. a missing subtraction leaves an absolute position")
            return UNK
        if UNK in (a, b):
            return UNK
        if a == INV or b == INV:
            return INV
        return ID

    def e_Call(self, e):
        f = ast.unparse(e.func)
        short = f.split(".")[-1]
        if f == "zip" and len(e.args) == 1 and isinstance(e.args[0], ast.Starred) and not e.keywords:
            # zip(*rows): the transposition - one sequence per member of a row; a list of points gives the x's, the y's and the z's
            k = self.ev(e.args[0].value)
            if k == L(PT):
                return ("TUPLE", [L(PC), L(PC), L(PC)])
            if k == L(VEC):
                return ("TUPLE", [L(VC), L(VC), L(VC)])
            if isinstance(k, tuple) and k[0] == "LIST" and isinstance(k[1], tuple) and k[1][0] == "TUPLE":
                return ("TUPLE", [L(x) for x in k[1][1]])
            return UNK
        args = []
        for a in e.args:
            if isinstance(a, ast.Starred):
                k = self.ev(a.value)
                # f(*pair): the members of a two-element list / tuple of one kind (cross(*in_plane), torsion(*atoms))
                if isinstance(k, tuple) and k[0] == "TUPLE":
                    args.extend(k[1])
                elif isinstance(k, tuple) and k[0] == "LIST":
                    if f_short(e) in ("cross", "dot"):
                        args.extend([k[1], k[1]])
                    else:
                        # as many members as the callee has parameters left (a repository function called with *list)
                        want = 1
                        try:
                            callee, recv = self._resolve(e)
                            if callee is not None:
                                ps = [a.arg for a in callee.node.args.args]
                                if ps and ps[0] == "self":
                                    ps = ps[1:]
                                want = max(1, len(ps) - len(args) - (len(e.args) - 1 - e.args.index(a)))
                        except Exception:
                            want = 1
                        args.extend([k[1]] * want)
                else:
                    args.append(UNK)
            else:
                args.append(self.ev(a))
        kws = {k.arg: self.ev(k.value) for k in e.keywords}
        np = f.startswith(("numpy.", "np."))
        if np and short == "cross":
            if args == [VEC, VEC]:
                return VEC
            self.err(e, f"cross product of {args}")
            return UNK
        if np and short == "dot":
            if args == [VEC, VEC]:
                return INV
            self.err(e, f"dot product of {args}: not invariant unless both are vectors")
            return UNK
        if np and f.endswith("linalg.norm"):
            if args and args[0] == VEC:
                return INV
            if args and args[0] == INV:
                return INV
            self.err(e, f"norm of {args[0] if args else None}: only the norm of a vector (difference of points) is invariant")
            return UNK
        if np and short in ("array", "asarray"):
            a = args[0] if args else UNK
            if a in (PT, VEC):
                return a
            if isinstance(a, tuple) and a[0] == "TUPLE" and a[1] == [PC, PC, PC]:
                return PT
            if isinstance(a, tuple) and a[0] == "LIST" and a[1] == PT:
                return L(PT)
            return a
        if np and short == "mean":
            if args and args[0] == L(PT):
                return PT
            if args and args[0] == L(INV):
                return INV
        if np and short in ("clip", "degrees", "radians", "arctan2", "arccos", "sqrt", "abs", "isnan"):
            for a in args:
                if has_coord(a):
                    self.err(e, f"{f} applied to a coordinate-dependent value of kind {a}")
            return INV
        if f.startswith("math."):
            for a in args:
                if has_coord(a):
                    self.err(e, f"{f} applied to a coordinate-dependent value of kind {a}")
            return INV
        if f in ("round", "abs", "float", "int"):
            for a in args:
                if has_coord(a):
                    self.err(e, f"{f} applied to a coordinate-dependent value of kind {a}")
            return INV if args and args[0] == INV else (INV if args else ID)
        if f == "sum":
            if args and args[0] == L(PC):
                return "PCSUM"
            if args and has_coord(args[0]):
                self.err(e, f"sum over {args[0]}")
            return INV
        if f == "len":
            return INV
        if f in ("min", "max"):
            a = args[0] if len(args) == 1 else (L(args[0]) if len(set(map(repr, args))) == 1 else UNK)
            k = self.elem(a) if isinstance(a, tuple) else a
            if has_coord(k) or has_coord(a):
                self.err(e, f"{f} over coordinate-dependent values of kind {k}: the choice depends on the frame")
            return k
        if f == "sorted" or short == "sort":
            src = args[0] if args else self.ev(e.func.value) if isinstance(e.func, ast.Attribute) else UNK
            k = self.elem(src) if isinstance(src, tuple) else src
            if "key" in kws:
                pass
            if has_coord(k):
                self.err(e, "sorting coordinate-bearing values: the order depends on the frame")
            return src
        if f == "KDTree" or short == "KDTree" or short == "cKDTree":
            if not args or args[0] not in (L(PT),):
                self.err(e, f"KD-tree over {args[0] if args else None}, expected a list of points")
            return KD
        if short in ("query_pairs",):
            r = args[0] if args else kws.get("r", UNK)
            if r != INV:
                self.err(e, f"KD-tree query radius of kind {r}, expected an invariant number")
            return L(("TUPLE", [ID, ID]))
        if short in ("query", "query_ball_point", "query_ball_tree"):
            self.err(e, f"KD-tree query `{short}` is not modelled (positions or ordered neighbours may leak)")
            return UNK
        if short == "find_atom":
            return ATOM
        if short == "append" and isinstance(e.func, ast.Attribute):
            tgt = e.func.value
            if isinstance(tgt, ast.Name):
                old = self.env.get(tgt.id)
                if isinstance(old, tuple) and old[0] == "LIST" and old[1] == UNK and args:
                    self.env[tgt.id] = L(args[0])
            return NONE
        if short in ("add", "update", "discard", "remove", "extend", "clear"):
            return NONE
        if short == "get" and isinstance(e.func, ast.Attribute):
            b = self.ev(e.func.value)
            if isinstance(b, tuple) and b[0] == "DICT":
                return b[2]
            return ID
        if short == "items" and isinstance(e.func, ast.Attribute):
            b = self.ev(e.func.value)
            if isinstance(b, tuple) and b[0] == "DICT":
                return L(("TUPLE", [b[1], b[2]]))
            return UNK
        if short in ("values", "keys") and isinstance(e.func, ast.Attribute):
            b = self.ev(e.func.value)
            if isinstance(b, tuple) and b[0] == "DICT":
                return L(b[2] if short == "values" else b[1])
            return UNK
        if short == "most_common":
            b = self.ev(e.func.value)
            return L(("TUPLE", [self.elem(b) if isinstance(b, tuple) else UNK, INV]))
        if short == "item":
            return self.ev(e.func.value)
        if short in ("intersection", "union", "difference", "issubset", "startswith", "endswith", "upper", "lower", "strip", "isspace", "isalpha", "join", "split", "format"):
            return ID
        if f == "Counter":
            return D(self.elem(args[0]) if args and isinstance(args[0], tuple) else UNK, INV)
        if f == "Atom":
            if any(isinstance(a, ast.Constant) and isinstance(a.value, float) for a in e.args):
                self.err(e, "an Atom is built at a literal position: an absolute point enters the computation")
            return ATOM
        if f in ("Residue", "BasePair", "Stacking", "BasePhosphate", "BaseRibose", "ResidueAuth", "ResidueLabel", "Residue3D", "Structure3D"):
            for a in args:
                if has_coord(a):
                    self.err(e, f"{f}(...) receives a coordinate-dependent value of kind {a}")
            return {"Residue3D": RES, "Structure3D": STRUCT}.get(f, ID)
        if f in ("range", "enumerate", "zip", "list", "set", "dict", "tuple", "defaultdict", "OrderedSet", "str", "int", "bool", "isinstance", "filter", "next", "all", "any", "map", "reversed", "iter", "frozenset", "print", "hash"):
            if f == "map" and len(e.args) == 2 and isinstance(e.args[0], ast.Attribute) and e.args[0].attr == "find_atom":
                return L(ATOM)  # map(residue.find_atom, names): the atoms fetched by name (None for the missing ones)
            if f == "zip" and args and not kws:
                return ("ZIP", list(args))
            if f in ("reversed", "set", "frozenset", "filter") and args and args[-1] in (PT, VEC):
                return UNK  # permutes or drops axes: no longer the components of a point in axis order
            if f in ("list", "tuple", "filter", "reversed", "set", "frozenset", "OrderedSet") and args:
                return args[-1]
            if f == "next" and args:
                return self.elem(args[0]) if isinstance(args[0], tuple) else UNK
            if f == "enumerate" and args:
                return L(("TUPLE", [ID, self.elem(args[0]) if isinstance(args[0], tuple) else UNK]))
            if f == "defaultdict":
                return D(UNK, UNK)
            if f == "dict" and len(args) == 1 and isinstance(args[0], tuple) and args[0][0] == "LIST" and isinstance(args[0][1], tuple) and args[0][1][0] == "TUPLE" and len(args[0][1][1]) == 2:
                return D(args[0][1][1][0], args[0][1][1][1])  # dict(<list of (key, value) pairs>)
            if f == "dict" and len(args) == 1 and isinstance(args[0], tuple) and args[0][0] == "DICT":
                return args[0]
            return ID if f in ("range", "str", "int", "bool", "isinstance", "all", "any", "hash") else UNK
        if f.startswith("logging.") or f.startswith("logger."):
            return NONE
        # a record class of the analysed module (NamedTuple / dataclass without methods): the value carries the kinds of its fields
        if isinstance(e.func, ast.Name):
            rec = self._record_fields(e.func.id)
            if rec is not None and len(args) + len(kws) <= len(rec):
                vals = dict(zip(rec, args))
                vals.update({k: v for k, v in kws.items() if k in rec})
                return ("REC", e.func.id, [(f, vals.get(f, UNK)) for f in rec])
        # repo callees: analyse with the actual argument kinds
        callee, recv = self._resolve(e)
        if callee is not None:
            params = [a.arg for a in callee.node.args.args]
            pk: Dict[str, Any] = {}
            if recv is not None and params:
                pk[params[0]] = recv
                params = params[1:]
            elif params and params[0] == "self":
                params = params[1:]
            for p, a in zip(params, args):
                pk[p] = a
            for k, v in kws.items():
                if k:
                    pk[k] = v
            r = self.eng.analyse(callee, pk)
            return r if r is not None else NONE
        if any(has_coord(a) for a in args) or any(has_coord(v) for v in kws.values()):
            self.err(e, f"coordinate-dependent value passed to `{f}`, which is not known to be rotation/translation-equivariant")
        return UNK

    def _record_fields(self, name: str) -> Optional[List[str]]:
        try:
            hm, hn = self.eng.repo.const_home(self.fi.module.name, name)
            c = self.eng.repo.modules[hm].classes.get(hn)
        except Exception:
            return None
        if c is None or any(isinstance(b, (ast.FunctionDef, ast.AsyncFunctionDef)) for b in c.body):
            return None
        is_nt = any(ast.unparse(b).endswith("NamedTuple") for b in c.bases)
        is_dc = any("dataclass" in ast.unparse(d) for d in c.decorator_list)
        if not (is_nt or is_dc):
            return None
        fields = [b.target.id for b in c.body if isinstance(b, ast.AnnAssign) and isinstance(b.target, ast.Name)]
        return fields or None

    def _resolve(self, e: ast.Call) -> Tuple[Optional[FuncInfo], Any]:
        repo = self.eng.repo
        fn = e.func
        if isinstance(fn, ast.Name):
            try:
                hm, hn = repo.const_home(self.fi.module.name, fn.id)
                fi = repo.modules[hm].funcs.get(hn)
                if fi is not None and fi.cls is None:
                    return fi, None
            except Exception:
                pass
            return None, None
        if isinstance(fn, ast.Attribute):
            b = self.ev(fn.value)
            cls = {RES: ("tertiary", "Residue3D"), ATOM: ("tertiary", "Atom"), STRUCT: ("tertiary", "Structure3D")}.get(b)
            if cls is not None:
                # name-mangled private methods are called as self.__x
                fi = repo.modules[cls[0]].funcs.get(f"{cls[1]}.{fn.attr}")
                if fi is not None:
                    return fi, b
        return None, None
