"""A3 (structured form): path conditions of statements in structured Python code.

Python has no goto, so for every statement the set of conditions that hold on *every* path
reaching it can be read off syntactically:
  * enclosing `if`/`elif`/`else`/`while` tests (with polarity),
  * tests of earlier sibling `if` statements all of whose paths leave the block
    (`if c: continue/return/raise/break`) - these hold negated afterwards,
  * short-circuit context inside `and`/`or`/conditional expressions (expression level).
This is the dominance information the rules need ("guard G dominates append A").
"""
from __future__ import annotations

import ast
from dataclasses import dataclass, field
from typing import Dict, Iterator, List, Optional, Sequence, Tuple


@dataclass(frozen=True)
class Guard:
    test: ast.expr
    polarity: bool  # True: test holds; False: its negation holds
    kind: str  # "if", "exit", "while", "ifexp", "and", "or", "comp"
    stmt: Optional[ast.AST] = None  # the If statement (for kind if/exit)

    def __repr__(self) -> str:
        return f"{'' if self.polarity else 'not '}({ast.unparse(self.test)})[{self.kind}]"


@dataclass
class Ctx:
    guards: Tuple[Guard, ...] = ()
    loops: Tuple[ast.AST, ...] = ()
    handlers: Tuple[ast.Try, ...] = ()  # enclosing try statements whose *body* contains the stmt
    withs: Tuple[ast.With, ...] = ()


def always_exits(block: Sequence[ast.stmt]) -> Optional[str]:
    """If every path through `block` leaves the enclosing block, the way it leaves:
    'return' | 'raise' | 'continue' | 'break' | 'mixed'; otherwise None."""
    if not block:
        return None
    last = block[-1]
    if isinstance(last, ast.Return):
        return "return"
    if isinstance(last, ast.Raise):
        return "raise"
    if isinstance(last, ast.Continue):
        return "continue"
    if isinstance(last, ast.Break):
        return "break"
    if isinstance(last, ast.If) and last.orelse:
        a, b = always_exits(last.body), always_exits(last.orelse)
        if a and b:
            return a if a == b else "mixed"
    if isinstance(last, ast.Try):
        # conservative: every branch must exit
        parts = [last.body] + [h.body for h in last.handlers]
        if last.orelse:
            parts[0] = list(last.body) + list(last.orelse)
        kinds = [always_exits(p) for p in parts]
        if all(kinds):
            return kinds[0] if len(set(kinds)) == 1 else "mixed"
    if isinstance(last, ast.With):
        return always_exits(last.body)
    return None


class FlowMap:
    """Contexts of all statements of one function."""

    def __init__(self, func: ast.AST):
        self.func = func
        self.ctx: Dict[int, Ctx] = {}
        self.order: List[ast.stmt] = []
        body = func.body if hasattr(func, "body") else []
        self._block(body, Ctx())

    def of(self, stmt: ast.AST) -> Ctx:
        return self.ctx[id(stmt)]

    def _block(self, block: Sequence[ast.stmt], ctx: Ctx) -> None:
        extra: List[Guard] = []
        for st in block:
            cur = Ctx(ctx.guards + tuple(extra), ctx.loops, ctx.handlers, ctx.withs)
            self.ctx[id(st)] = cur
            self.order.append(st)
            self._stmt(st, cur)
            if isinstance(st, ast.If):
                a = always_exits(st.body)
                b = always_exits(st.orelse) if st.orelse else None
                if a and not b:
                    extra.append(Guard(st.test, False, "exit", st))
                elif b and not a:
                    extra.append(Guard(st.test, True, "exit", st))
            elif isinstance(st, ast.Assert):
                extra.append(Guard(st.test, True, "exit", st))

    def _stmt(self, st: ast.stmt, ctx: Ctx) -> None:
        if isinstance(st, ast.If):
            self._block(st.body, Ctx(ctx.guards + (Guard(st.test, True, "if", st),), ctx.loops, ctx.handlers, ctx.withs))
            self._block(st.orelse, Ctx(ctx.guards + (Guard(st.test, False, "if", st),), ctx.loops, ctx.handlers, ctx.withs))
        elif isinstance(st, (ast.For, ast.AsyncFor)):
            self._block(st.body, Ctx(ctx.guards, ctx.loops + (st,), ctx.handlers, ctx.withs))
            self._block(st.orelse, ctx)
        elif isinstance(st, ast.While):
            self._block(st.body, Ctx(ctx.guards + (Guard(st.test, True, "while", st),), ctx.loops + (st,), ctx.handlers, ctx.withs))
            self._block(st.orelse, ctx)
        elif isinstance(st, ast.Try):
            self._block(st.body, Ctx(ctx.guards, ctx.loops, ctx.handlers + (st,), ctx.withs))
            for h in st.handlers:
                self._block(h.body, ctx)
            self._block(st.orelse, ctx)
            self._block(st.finalbody, ctx)
        elif isinstance(st, (ast.With, ast.AsyncWith)):
            self._block(st.body, Ctx(ctx.guards, ctx.loops, ctx.handlers, ctx.withs + (st,)))
        elif isinstance(st, ast.Match):
            for c in st.cases:
                self._block(c.body, ctx)

    # -- expression-level short-circuit context --------------------------
    def expr_guards(self, stmt: ast.stmt, target: ast.AST) -> Optional[Tuple[Guard, ...]]:
        """Guards holding when sub-expression `target` of `stmt` is evaluated
        (statement guards + and/or/ifexp context).  None if target is not under stmt."""
        base = self.ctx[id(stmt)].guards
        res = _expr_path(stmt, target, ())
        if res is None:
            return None
        return base + res

    def guards_within(self, stmt: ast.AST, scope: ast.AST) -> Tuple[Guard, ...]:
        """Guards of stmt that arise inside `scope` (e.g. inside a loop body), not before it."""
        inside = {id(n) for n in ast.walk(scope)}
        return tuple(g for g in self.ctx[id(stmt)].guards if g.stmt is not None and id(g.stmt) in inside and g.stmt is not scope)

    def stmt_of(self, node: ast.AST) -> Optional[ast.stmt]:
        """Innermost statement (known to this map) containing node."""
        best = None
        for st in self.order:
            if getattr(st, "lineno", None) is None:
                continue
            for n in ast.walk(st):
                if n is node:
                    best = st  # later entries in order are deeper or later; keep last match
                    break
        return best


def _expr_path(node: ast.AST, target: ast.AST, acc: Tuple[Guard, ...]) -> Optional[Tuple[Guard, ...]]:
    if node is target:
        return acc
    if isinstance(node, ast.BoolOp):
        seen: List[Guard] = []
        for v in node.values:
            r = _expr_path(v, target, acc + tuple(seen))
            if r is not None:
                return r
            seen.append(Guard(v, isinstance(node.op, ast.And), "and" if isinstance(node.op, ast.And) else "or"))
        return None
    if isinstance(node, ast.IfExp):
        r = _expr_path(node.test, target, acc)
        if r is not None:
            return r
        r = _expr_path(node.body, target, acc + (Guard(node.test, True, "ifexp"),))
        if r is not None:
            return r
        return _expr_path(node.orelse, target, acc + (Guard(node.test, False, "ifexp"),))
    if isinstance(node, (ast.ListComp, ast.SetComp, ast.GeneratorExp, ast.DictComp)):
        g_acc = acc
        for g in node.generators:
            r = _expr_path(g.iter, target, g_acc)
            if r is not None:
                return r
            for c in g.ifs:
                r = _expr_path(c, target, g_acc)
                if r is not None:
                    return r
                g_acc = g_acc + (Guard(c, True, "comp"),)
        elts = [node.key, node.value] if isinstance(node, ast.DictComp) else [node.elt]
        for e in elts:
            r = _expr_path(e, target, g_acc)
            if r is not None:
                return r
        return None
    if isinstance(node, (ast.If, ast.While)):
        r = _expr_path(node.test, target, acc)
        return r  # do not descend into nested statements: they have their own ctx
    if isinstance(node, (ast.For, ast.AsyncFor)):
        r = _expr_path(node.iter, target, acc)
        return r
    if isinstance(node, (ast.Try, ast.With, ast.FunctionDef, ast.ClassDef)):
        if isinstance(node, ast.With):
            for it in node.items:
                r = _expr_path(it.context_expr, target, acc)
                if r is not None:
                    return r
        return None
    for c in ast.iter_child_nodes(node):
        r = _expr_path(c, target, acc)
        if r is not None:
            return r
    return None


def conjuncts(g: Guard) -> List[Guard]:
    """Split a guard into atomic facts that certainly hold:  (a and b) true -> a, b ;  not (a or b) -> not a, not b."""
    t = g.test
    if isinstance(t, ast.UnaryOp) and isinstance(t.op, ast.Not):
        return conjuncts(Guard(t.operand, not g.polarity, g.kind, g.stmt))
    if isinstance(t, ast.BoolOp):
        if isinstance(t.op, ast.And) and g.polarity:
            out = []
            for v in t.values:
                out.extend(conjuncts(Guard(v, True, g.kind, g.stmt)))
            return out
        if isinstance(t.op, ast.Or) and not g.polarity:
            out = []
            for v in t.values:
                out.extend(conjuncts(Guard(v, False, g.kind, g.stmt)))
            return out
    return [g]


def facts(guards: Sequence[Guard]) -> List[Guard]:
    out: List[Guard] = []
    for g in guards:
        out.extend(conjuncts(g))
    return out
