"""A process model for fragment evaluation: module-level objects and default arguments live as long as the process.

`sa/world.py` gives a fragment stand-ins for the global names it reads; a module-level *constant* is otherwise folded anew at
every reference (sa/consteval.py), which is exact for immutable tables and wrong for an object that the code mutates: in a
running interpreter `_POOL = {"a": []}` is created once, when the module is imported, and every call sees what the calls
before it left there.  A `Process` models exactly that:

* `restart()`  = the module body is executed again (a new interpreter): every module-level name of the module (and every
                 constant it imports from the package) whose expression folds in the abstract world is folded ONCE, in source
                 order, and bound in the world; later references - from any evaluated function, in any call - give that one
                 object (aliasing between constants is kept: a constant that refers to an earlier one folds to the bound object).
                 Default-argument values are evaluated once per process too (function_stub's `defaults` cache).
* `carriers()` = the bound names whose value contains a mutable container (the only places a call can leave something behind;
                 rebinding through `global` is outside the evaluated fragment of the language: BlockEval stops with Unknown).
* `snapshot()` = a deterministic, address-free rendering of the carriers, to say *which* object a call changed.
* `aliases(v)` = the carriers (or default arguments) that share a container object with the value `v` (a result that is
                 reachable from module state is changed by whoever touches that state next).

Nothing of the repository is imported or run; the values are the folded ones of sa/consteval.py.
"""
from __future__ import annotations

import ast
from typing import Any, Dict, Iterator, List, Optional, Set, Tuple

from sa import world as W
from sa.consteval import Folder

_CONTAINERS = (list, dict, set)


def _is_container(v: Any) -> bool:
    return isinstance(v, _CONTAINERS) or bool(getattr(v, "_blockeval_container", False))


def _walk(v: Any, seen: Optional[Set[int]] = None) -> Iterator[Any]:
    """The value and everything reachable through containers / tuples (each object once)."""
    seen = seen if seen is not None else set()
    if id(v) in seen:
        return
    seen.add(id(v))
    yield v
    if isinstance(v, dict):
        for k, x in v.items():
            yield from _walk(k, seen)
            yield from _walk(x, seen)
    elif isinstance(v, (list, tuple, set, frozenset)):
        for x in v:
            yield from _walk(x, seen)
    elif getattr(v, "_blockeval_container", False) and hasattr(v, "items") and isinstance(getattr(v, "items"), list):
        for x in v.items:
            yield from _walk(x, seen)


def mutable_inside(v: Any) -> bool:
    return any(_is_container(x) for x in _walk(v))


def render(v: Any, depth: int = 0) -> Any:
    """Deterministic, address-free picture of a folded value (callables by name, sets sorted)."""
    if depth > 8:
        return "..."
    if isinstance(v, (str, int, float, bool, type(None))):
        return v
    if isinstance(v, dict):
        return {"dict": [[render(k, depth + 1), render(x, depth + 1)] for k, x in v.items()]}
    if isinstance(v, (set, frozenset)):
        return {"set": sorted((render(x, depth + 1) for x in v), key=repr)}
    if isinstance(v, (W.EnumMember, W.Record)):
        return repr(v)
    if isinstance(v, tuple):
        return {"tuple": [render(x, depth + 1) for x in v]}
    if isinstance(v, list):
        return [render(x, depth + 1) for x in v]
    if callable(v):
        return f"<callable {getattr(v, '__name__', type(v).__name__)}>"
    if getattr(v, "_blockeval_container", False) and isinstance(getattr(v, "items", None), list):
        return {type(v).__name__: [render(x, depth + 1) for x in v.items]}
    r = repr(v)
    return r if " at 0x" not in r else f"<{type(v).__name__}>"


class Process:
    """One interpreter process for the functions of `module`, in the abstract world of sa/world.py."""

    def __init__(self, repo, module: str, extra: Optional[Dict[str, Any]] = None):
        self.repo, self.module = repo, module
        self.state: Dict[str, Any] = {"depth": 0, "defaults": {}}
        self.world: Dict[str, Any] = W.build(repo, module, extra=extra, state=self.state)
        self._fixed = set(self.world)  # stand-ins for classes / functions / rule stubs: never rebound
        self.bound: List[str] = []
        self.unfolded: Dict[str, str] = {}  # module-level names that are not constants of the abstract world (left to lazy folding)
        self.restart()

    def _names(self) -> List[Tuple[str, str, str]]:
        """(name in `module`, home module, home name) of the module-level constants visible in `module`, imports first."""
        m = self.repo.module(self.module)
        out: List[Tuple[str, str, str]] = []
        for name in m.imports:
            try:
                hm, hn = self.repo.const_home(self.module, name)
            except Exception:
                continue
            if hn in self.repo.module(hm).consts:
                out.append((name, hm, hn))
        for name in m.consts:
            out.append((name, self.module, name))
        return out

    def restart(self) -> None:
        for n in self.bound:
            self.world.pop(n, None)
        self.bound = []
        self.unfolded = {}
        self.state["defaults"].clear()
        homes: Dict[Tuple[str, str], Any] = {}
        for name, hm, hn in self._names():
            if name in self._fixed:
                continue
            if (hm, hn) in homes:  # two names for one object (import under another name)
                self.world[name] = homes[(hm, hn)]
                self.bound.append(name)
                continue
            try:
                val = Folder(self.repo, self.module, world=self.world).fold(ast.Name(id=name, ctx=ast.Load()))
            except Exception as ex:
                self.unfolded[name] = f"{type(ex).__name__}: {ex}"[:80]
                continue
            homes[(hm, hn)] = val
            self.world[name] = val
            self.bound.append(name)

    # ---- what a call can leave behind ------------------------------------------------------------------------------------
    def carriers(self) -> List[str]:
        return [n for n in self.bound if mutable_inside(self.world[n])]

    def snapshot(self) -> Dict[str, Any]:
        snap = {n: render(self.world[n]) for n in self.carriers()}
        for (q, p), v in sorted(self.state["defaults"].items()):
            if mutable_inside(v):
                snap[f"default `{p}` of {q}()"] = render(v)
        return snap

    def aliases(self, value: Any) -> List[str]:
        """Names of module-level objects / default arguments that share a mutable container with `value`."""
        mine = {id(x) for x in _walk(value) if _is_container(x)}
        out: List[str] = []
        if not mine:
            return out
        for n in self.carriers():
            if any(id(x) in mine for x in _walk(self.world[n]) if _is_container(x)):
                out.append(f"module-level `{n}`")
        for (q, p), v in sorted(self.state["defaults"].items()):
            if any(id(x) in mine for x in _walk(v) if _is_container(x)):
                out.append(f"default argument `{p}` of {q}()")
        return out
