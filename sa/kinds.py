"""A10 (part): attribute kinds — which class members are properties, cached properties, methods."""
from __future__ import annotations

import ast
from typing import Dict, List, Optional, Set, Tuple

from .model import FuncInfo, Repo

PROPERTY_DECOS = {"property", "cached_property"}
_BUILTIN_METHODS = set(dir(list)) | set(dir(dict)) | set(dir(str)) | set(dir(set)) | set(dir(tuple)) | set(dir(bytes))


def member_kind(repo: Repo, module: str, cls: str, name: str) -> Optional[str]:
    """'property' | 'method' | 'staticmethod' | 'classmethod' | 'attr' | None, following base classes in the repo."""
    seen = set()
    todo = [(module, cls)]
    while todo:
        m, c = todo.pop(0)
        if (m, c) in seen:
            continue
        seen.add((m, c))
        try:
            node = repo.cls(m, c)
        except Exception:
            continue
        for b in node.body:
            if isinstance(b, (ast.FunctionDef, ast.AsyncFunctionDef)) and b.name == name:
                decos = [ast.unparse(d).split("(")[0].split(".")[-1] for d in b.decorator_list]
                if any(d in PROPERTY_DECOS for d in decos):
                    return "property"
                if "staticmethod" in decos:
                    return "staticmethod"
                if "classmethod" in decos:
                    return "classmethod"
                if any(d in ("setter", "deleter") for d in decos):
                    continue
                return "method"
            if isinstance(b, ast.Assign) and any(isinstance(t, ast.Name) and t.id == name for t in b.targets):
                return "attr"
            if isinstance(b, ast.AnnAssign) and isinstance(b.target, ast.Name) and b.target.id == name:
                return "attr"
        for base in node.bases:
            bn = ast.unparse(base).split(".")[-1].split("[")[0]
            try:
                hm, hn = repo.const_home(m, bn)
                todo.append((hm, hn))
            except Exception:
                pass
    return None


def property_names(repo: Repo) -> Dict[str, List[str]]:
    """name -> list of 'module.Class' defining it as a property/cached_property."""
    out: Dict[str, List[str]] = {}
    for fi in repo.all_funcs():
        if fi.cls is not None and any(d in PROPERTY_DECOS for d in fi.decorators) and "<locals>" not in fi.qualname:
            out.setdefault(fi.node.name, []).append(f"{fi.module.name}.{fi.cls.name}")
    return out


def method_names(repo: Repo) -> Set[str]:
    """names defined anywhere in the repo as a plain callable member or function."""
    out: Set[str] = set()
    for fi in repo.all_funcs():
        if not any(d in PROPERTY_DECOS or d in ("setter",) for d in fi.decorators):
            out.add(fi.node.name)
    return out


def calls_of_properties(repo: Repo, fi: FuncInfo) -> List[Tuple[ast.Call, str]]:
    """Calls `recv.name(...)` in fi where `name` resolves to a property:
    * recv is `self` and the enclosing class (or a repo base) defines name as a property, or
    * name is defined in the repo only as a property (never as a method) — any receiver."""
    props = property_names(repo)
    meths = method_names(repo)
    out = []
    for n in ast.walk(fi.node):
        if isinstance(n, ast.Call) and isinstance(n.func, ast.Attribute):
            name = n.func.attr
            recv = n.func.value
            if isinstance(recv, ast.Name) and recv.id == "self" and fi.cls is not None:
                if member_kind(repo, fi.module.name, fi.cls.name, name) == "property":
                    out.append((n, f"{fi.cls.name}.{name} is a property of the receiver's class"))
                continue
            if isinstance(recv, ast.Name) and fi.module.imports.get(recv.id, ("", ""))[1] is None and recv.id in fi.module.imports:
                continue  # receiver is an imported module (itertools.chain)
            if name in _BUILTIN_METHODS:
                continue  # list.reverse(), str.index() ... on values of builtin types
            if name in props and name not in meths:
                out.append((n, f"{name} is defined only as a property ({', '.join(props[name])})"))
    return out
