"""A12b: facts about a torsion function beyond the closed form (sa/polyalg.py).

* `analyse(fn, fold)` reads the body statement by statement like `polyalg.analyse_torsion`, but also folds numeric
  constants (module constants, `np.sin(CONST)`, `math.radians(0.5)` ...), reads tuple assignments, keeps values that
  are outside the algebra as *opaque* (an error only if the closed form needs them) and records, for every early
  return before the atan2, the algebraic environment at that point.
* `guard_atoms(test, env, alg)` brings the condition of such an early return to a list of facts
  `Q < c`  with Q a Laurent monomial in positive symbols (norms, scale factors) and c a folded number, looking through
  `or` / `and` / `not`, chained comparisons, `min` / `max`, and the monotone wrappers `arcsin`, `degrees`, `radians`;
  Q is then classified: norm of a cross product of two consecutive bond vectors (zero iff the three points are
  collinear), the same divided by the two bond lengths (the sine of the bond angle), a bond length, or something else.
* `tail_returns(...)` describes what the function returns after the atan2 (the value itself, or a constant under an
  `isnan(value)` test).
"""
from __future__ import annotations

import ast
import math
from fractions import Fraction
from typing import Any, Callable, Dict, List, Optional, Tuple

from .polyalg import Algebra, AlgebraError, P, Poly, Vec, add, mul, var

_NUMF: Dict[str, Callable[..., float]] = {
    "sin": math.sin,
    "cos": math.cos,
    "tan": math.tan,
    "arcsin": math.asin,
    "asin": math.asin,
    "arccos": math.acos,
    "acos": math.acos,
    "radians": math.radians,
    "deg2rad": math.radians,
    "degrees": math.degrees,
    "rad2deg": math.degrees,
    "sqrt": math.sqrt,
    "fabs": abs,
    "abs": abs,
    "float": float,
    "min": min,
    "max": max,
}
_NUMMODS = ("math", "np", "numpy")


class Opaque:
    """A value the algebra cannot express; using it in the closed form is an error, carrying it along is not."""

    def __init__(self, why: str):
        self.why = why


def is_const(p: Any) -> bool:
    return isinstance(p, dict) and all(m == () for m in p)


def const_value(p: Poly) -> float:
    return float(p.get((), 0))


def _fname(call: ast.Call) -> Optional[str]:
    f = call.func
    if isinstance(f, ast.Name):
        return f.id
    if isinstance(f, ast.Attribute) and isinstance(f.value, ast.Name) and f.value.id in _NUMMODS:
        return f.attr
    return None


class NumAlgebra(Algebra):
    """Algebra of sa/polyalg.py + numeric folding of constant sub-expressions."""

    def __init__(self, fold: Optional[Callable[[ast.AST], Any]] = None, helpers: Optional[Dict[str, ast.FunctionDef]] = None):
        super().__init__()
        self.fold = fold
        self.helpers: Dict[str, ast.FunctionDef] = dict(helpers or {})  # module-level functions the torsion function may call
        self._depth = 0

    # -- sequences of algebraic values, comprehensions over them, calls of module-level helpers ---------------------------
    def _bind_target(self, t: ast.AST, v: Any, env: Dict[str, Any]) -> None:
        if isinstance(t, ast.Name):
            env[t.id] = v
        elif isinstance(t, (ast.Tuple, ast.List)) and isinstance(v, list) and len(v) == len(t.elts) and not any(isinstance(x, ast.Starred) for x in t.elts):
            for a, b in zip(t.elts, v):
                self._bind_target(a, b, env)
        else:
            raise AlgebraError(f"target `{ast.unparse(t)[:40]}` of a value that is not a sequence of the same length")

    def _seq(self, e: ast.AST, env: Dict[str, Any]) -> Any:
        """value of the sequence-level constructs, or NotImplemented"""
        if isinstance(e, (ast.Tuple, ast.List)) and not any(isinstance(x, ast.Starred) for x in e.elts):
            return [self.ev(x, env) for x in e.elts]
        if isinstance(e, (ast.ListComp, ast.GeneratorExp)):
            out: List[Any] = []

            def rec(i: int, env2: Dict[str, Any]) -> None:
                if i == len(e.generators):
                    out.append(self.ev(e.elt, env2))
                    return
                g = e.generators[i]
                if g.ifs or g.is_async:
                    raise AlgebraError(f"filtered comprehension `{ast.unparse(e)[:50]}`")
                it = self.ev(g.iter, env2)
                if not isinstance(it, list):
                    raise AlgebraError(f"`{ast.unparse(g.iter)[:40]}` is not a sequence of algebraic values")
                for item in it:
                    env3 = dict(env2)
                    self._bind_target(g.target, item, env3)
                    rec(i + 1, env3)

            rec(0, dict(env))
            return out
        if isinstance(e, ast.Subscript):
            try:
                base = self.ev(e.value, env)
            except AlgebraError:
                return NotImplemented
            if isinstance(base, list):
                sl = e.slice
                if isinstance(sl, ast.Slice):
                    parts = [None if x is None else self._int(x) for x in (sl.lower, sl.upper, sl.step)]
                    return base[slice(*parts)]
                try:
                    return base[self._int(sl)]
                except IndexError:
                    raise AlgebraError(f"`{ast.unparse(e)[:40]}`: index out of range")
            if isinstance(base, Vec):
                return base.c[self._int(e.slice)]
            return NotImplemented
        if isinstance(e, ast.Call) and not e.keywords and isinstance(e.func, ast.Name):
            fn = e.func.id
            if fn in ("zip", "list", "tuple", "reversed") and fn not in env and e.args:
                args = [self.ev(a, env) for a in e.args]
                if not all(isinstance(a, list) for a in args):
                    raise AlgebraError(f"`{ast.unparse(e)[:40]}` over something that is not a sequence of algebraic values")
                if fn == "zip":
                    return [list(t) for t in zip(*args)]
                if len(args) != 1:
                    raise AlgebraError(f"`{ast.unparse(e)[:40]}`")
                return list(reversed(args[0])) if fn == "reversed" else list(args[0])
            if fn in self.helpers and fn not in env:
                return self.call_helper(self.helpers[fn], [self.ev(a, env) for a in e.args])
        return NotImplemented

    def _int(self, e: ast.AST) -> int:
        v = self.fold(e) if self.fold is not None else (e.value if isinstance(e, ast.Constant) else None)
        if isinstance(v, bool) or not isinstance(v, int):
            raise AlgebraError(f"index `{ast.unparse(e)[:30]}` is not a constant integer")
        return v

    def call_helper(self, fn: ast.FunctionDef, args: List[Any]) -> Any:
        """A module-level helper interpreted in the algebra: straight-line assignments, `if` whose test is decided on the domain
        (else both continuations must be positive multiples of the same vector), `return`."""
        a = fn.args
        params = [p.arg for p in a.args]
        if a.vararg or a.kwarg or a.kwonlyargs or a.posonlyargs or len(args) > len(params) or len(args) < len(params) - len(a.defaults):
            raise AlgebraError(f"call of `{fn.name}` with {len(args)} argument(s)")
        if self._depth > 6:
            raise AlgebraError(f"helper `{fn.name}` nests too deep")
        env: Dict[str, Any] = dict(zip(params, args))
        for p_, d in zip(params[len(params) - len(a.defaults) :], a.defaults):
            if p_ not in env:
                env[p_] = self.ev(d, {})
        self._depth += 1
        try:
            v = self.run_block(list(fn.body), env)
        finally:
            self._depth -= 1
        if v is None:
            raise AlgebraError(f"helper `{fn.name}` ends without returning a value")
        return v

    def run_block(self, stmts: List[ast.stmt], env: Dict[str, Any]) -> Any:
        for i, st in enumerate(stmts):
            if isinstance(st, (ast.Expr, ast.Pass)):
                continue
            if isinstance(st, ast.Assign) and len(st.targets) == 1:
                self._bind_target(st.targets[0], self.ev(st.value, env), env)
            elif isinstance(st, ast.AnnAssign) and st.value is not None:
                self._bind_target(st.target, self.ev(st.value, env), env)
            elif isinstance(st, ast.Return) and st.value is not None:
                return self.ev(st.value, env)
            elif isinstance(st, ast.If):
                rest = stmts[i + 1 :]
                side = self._tiny_lower_bound(st.test, env)
                if side is not None:
                    return self.run_block(list(st.body if side else st.orelse) + rest, env)
                x, y = self.run_block(list(st.body) + rest, dict(env)), self.run_block(list(st.orelse) + rest, dict(env))
                if isinstance(x, Vec) and isinstance(y, Vec):
                    return self.join_pos_scaled(x, y)
                raise AlgebraError(f"`if {ast.unparse(st.test)[:40]}` is not decided on the domain of the property")
            else:
                raise AlgebraError(f"statement `{ast.unparse(st)[:50]}` in a helper")
        return None

    def _num(self, e: ast.AST) -> Optional[Poly]:
        if self.fold is None:
            return None
        try:
            v = self.fold(e)
        except Exception:
            return None
        if isinstance(v, bool) or not isinstance(v, (int, float)) or not math.isfinite(v):
            return None
        return P(Fraction(v)) if v else {}

    # domain of the property (properties.jsonl, C18: "bond lengths 0.8-2.5 A, bond angles 20-160 degrees"): ranges of the norms of the
    # bond vectors and of the cross products of consecutive bonds
    BOND = (0.8, 2.5)
    CROSS = (0.8 * 0.8 * math.sin(math.radians(20.0)), 2.5 * 2.5)

    def set_domain(self, pts: List[Vec]) -> None:
        p1, p2, p3, p4 = pts
        b1, b2, b3 = self.vsub(p2, p1), self.vsub(p3, p2), self.vsub(p4, p3)
        self.ranges: Dict[str, Tuple[float, float]] = {}
        for b in (b1, b2, b3):
            self.ranges[alg_atom(self, b)] = self.BOND
        for u, w in ((b1, b2), (b2, b3)):
            self.ranges[alg_atom(self, self.cross(u, w))] = self.CROSS

    def _lower_bound(self, p: Poly) -> Optional[float]:
        """lower bound, over the domain, of a monomial in the norms of bonds / consecutive cross products (None: anything else)"""
        ranges = getattr(self, "ranges", None)
        if ranges is None or len(p) != 1:
            return None
        ((m, c),) = p.items()
        if not m or c <= 0:
            return None
        lo = float(c)
        for v, x in m:
            if v not in ranges:
                return None
            lo *= (ranges[v][0] if x > 0 else ranges[v][1]) ** x
        return lo

    def _tiny_lower_bound(self, test: ast.AST, env: Dict[str, Any]) -> Optional[bool]:
        """True: the test is `N > c` / `N >= c` / `c < N` / `c <= N` and holds on the whole domain (c below the lower bound of the norm
        monomial N), False: its negation (`N < c` ...) which then fails on the whole domain; None: something else."""
        if isinstance(test, ast.UnaryOp) and isinstance(test.op, ast.Not):
            r = self._tiny_lower_bound(test.operand, env)
            return None if r is None else (not r)
        if not (isinstance(test, ast.Compare) and len(test.ops) == 1):
            return None
        op, a, b = test.ops[0], test.left, test.comparators[0]
        if isinstance(op, (ast.Lt, ast.LtE)):
            small, big = a, b
        elif isinstance(op, (ast.Gt, ast.GtE)):
            small, big = b, a
        else:
            return None
        try:
            s, g = self.ev(small, env), self.ev(big, env)
        except AlgebraError:
            return None
        if isinstance(s, Vec) or isinstance(g, Vec):
            return None
        if is_const(s) and const_value(s) >= 0:
            lo = self._lower_bound(g)
            if lo is not None and const_value(s) < 0.5 * lo:
                return True  # c < N everywhere on the domain
        if is_const(g) and const_value(g) >= 0:
            lo = self._lower_bound(s)
            if lo is not None and const_value(g) < 0.5 * lo:
                return False  # N < c nowhere on the domain
        return None

    def ev(self, e: ast.AST, env: Dict[str, Any]) -> Any:
        r = self._seq(e, env)
        if r is not NotImplemented:
            return r
        try:
            return self._ev(e, env)
        except (TypeError, AttributeError, ValueError, KeyError) as ex:  # an operation of the algebra applied to a sequence etc.
            raise AlgebraError(f"`{ast.unparse(e)[:50]}`: {type(ex).__name__}")

    def _ev(self, e: ast.AST, env: Dict[str, Any]) -> Any:
        if isinstance(e, ast.Name):
            if e.id in env:
                v = env[e.id]
                if isinstance(v, Opaque):
                    raise AlgebraError(f"`{e.id}` has no algebraic value ({v.why})")
                return v
            n = self._num(e)
            if n is not None:
                return n
        if isinstance(e, ast.Attribute):
            n = self._num(e)
            if n is not None:
                return n
        if isinstance(e, ast.IfExp):
            # `v / |v| if |v| > eps else v` (either orientation) with a tiny eps: on the domain of the property (bond lengths 0.8-2.5 A, no
            # three consecutive points collinear: every norm the functions take is far above 1e-3) the test holds, the value is the branch
            # taken.  A threshold that is not tiny, or a test that is not a lower bound on a norm, keeps the abstraction "a positive
            # multiple of the same vector" (polyalg.join_pos_scaled).
            side = self._tiny_lower_bound(e.test, env)
            if side is not None:
                return self.ev(e.body if side else e.orelse, env)
        if isinstance(e, ast.Call) and not e.keywords:
            fn = _fname(e)
            if fn in _NUMF and e.args:
                try:
                    args = [self.ev(a, env) for a in e.args]
                except AlgebraError:
                    args = None
                if args is not None and all(is_const(a) for a in args):
                    try:
                        v = _NUMF[fn](*[const_value(a) for a in args])
                    except Exception as ex:
                        raise AlgebraError(f"`{ast.unparse(e)[:50]}`: {ex}")
                    return P(Fraction(v)) if v else {}
        return super().ev(e, env)


def _is_fallback_value(e: Optional[ast.AST]) -> bool:
    """0.0, nan in its spellings, None"""
    if e is None:
        return True
    if isinstance(e, ast.Constant):
        return e.value is None or isinstance(e.value, (int, float))
    t = ast.unparse(e)
    return t in ("float('nan')", "math.nan", "numpy.nan", "np.nan", "float('NaN')", "numpy.float64('nan')", "np.float64('nan')")


def is_guard(st: ast.stmt) -> bool:
    return isinstance(st, ast.If) and not st.orelse and len(st.body) == 1 and isinstance(st.body[0], ast.Return) and _is_fallback_value(st.body[0].value)


class NotOneAtan2(AlgebraError):
    """The function is not `... atan2(y, x) ...` with a single atan2: the whole-circle reading (analyse_circle) applies."""


# inverse trigonometric functions and the sign functions that go with them: where the angle is made from the sine / cosine terms
ANGLE_FUNCS = ("atan2", "arctan2", "acos", "arccos", "asin", "arcsin", "atan", "arctan", "sign", "copysign")


def _angle_call(n: ast.AST) -> bool:
    if not isinstance(n, ast.Call):
        return False
    f = n.func
    name = f.id if isinstance(f, ast.Name) else (f.attr if isinstance(f, ast.Attribute) else None)
    return name in ANGLE_FUNCS


def analyse(fn: ast.FunctionDef, fold: Optional[Callable[[ast.AST], Any]] = None, helpers: Optional[Dict[str, ast.FunctionDef]] = None) -> Dict[str, Any]:
    alg = NumAlgebra(fold, helpers)
    pnames = [a.arg for a in fn.args.args][:4]
    if len(pnames) != 4:
        raise AlgebraError("torsion function does not take four points")
    pts = {p: Vec(var(f"{p}{ax}") for ax in "xyz") for p in pnames}
    alg.set_domain([pts[p] for p in pnames])
    at = [c for c in ast.walk(fn) if isinstance(c, ast.Call) and ast.unparse(c.func).endswith(("atan2", "arctan2"))]
    in_guard_tests = {id(c) for st in ast.walk(fn) if is_guard(st) for c in ast.walk(st.test)}  # thresholds of early returns (`arcsin(s) < ...`) are the guard rule's
    others = [c for c in ast.walk(fn) if _angle_call(c) and not any(c is a for a in at) and id(c) not in in_guard_tests]
    if len(at) != 1 or len(at[0].args) != 2 or others:
        raise NotOneAtan2("expected exactly one atan2(y, x)" + (f" and no other inverse trigonometric / sign function (found `{ast.unparse(others[0])[:40]}`)" if others and len(at) == 1 else ""))
    env: Dict[str, Any] = dict(pts)
    guards: List[Tuple[ast.If, Dict[str, Any], Dict[str, ast.AST]]] = []
    defs: Dict[str, ast.AST] = {}
    at_stmt = None
    idx = None

    def bind(t: ast.AST, v: ast.AST) -> None:
        if isinstance(t, ast.Name):
            try:
                env[t.id] = alg.ev(v, env)
                defs.pop(t.id, None)
            except AlgebraError as ex:
                env[t.id] = Opaque(str(ex))
                defs[t.id] = v
        elif isinstance(t, (ast.Tuple, ast.List)) and isinstance(v, (ast.Tuple, ast.List)) and len(t.elts) == len(v.elts) and not any(isinstance(x, ast.Starred) for x in list(t.elts) + list(v.elts)):
            vals = []
            for x in v.elts:  # right-hand side first, then the bindings
                try:
                    vals.append(alg.ev(x, env))
                except AlgebraError as ex:
                    vals.append(Opaque(str(ex)))
            for a, b in zip(t.elts, vals):
                if not isinstance(a, ast.Name):
                    raise AlgebraError(f"assignment target `{ast.unparse(a)[:40]}`")
                env[a.id] = b
        elif isinstance(t, (ast.Tuple, ast.List)):
            alg._bind_target(t, alg.ev(v, env), env)  # a sequence value (comprehension, helper result) unpacked
        else:
            raise AlgebraError(f"assignment outside the straight-line idiom: {ast.unparse(t)[:40]} = {ast.unparse(v)[:40]}")

    envs: List[Tuple[ast.stmt, Dict[str, Any]]] = []  # environment before each statement of the prefix
    for i, st in enumerate(fn.body):
        envs.append((st, dict(env)))
        if any(c is at[0] for c in ast.walk(st)):
            at_stmt, idx = st, i
            break
        if isinstance(st, ast.Expr):
            continue
        if isinstance(st, ast.Assign) and len(st.targets) == 1:
            bind(st.targets[0], st.value)
        elif isinstance(st, ast.AnnAssign) and st.value is not None:
            bind(st.target, st.value)
        elif is_guard(st):
            guards.append((st, dict(env), dict(defs)))
        elif isinstance(st, ast.If) and not any(isinstance(n, (ast.Return, ast.If, ast.For, ast.While)) for b in (st.body, st.orelse) for x in b for n in ast.walk(x)):
            # a two-way assignment block: the branch that is taken on the whole domain of the property (`if |b2| > 1e-6: ... else: ...`)
            side = alg._tiny_lower_bound(st.test, env)
            if side is None:
                raise AlgebraError(f"`if {ast.unparse(st.test)[:40]}` is not decided on the domain of the property")
            for sub in (st.body if side else st.orelse):
                if isinstance(sub, ast.Assign) and len(sub.targets) == 1:
                    bind(sub.targets[0], sub.value)
                elif isinstance(sub, ast.AnnAssign) and sub.value is not None:
                    bind(sub.target, sub.value)
                elif not isinstance(sub, (ast.Expr, ast.Pass)):
                    raise AlgebraError(f"statement outside the straight-line idiom: {ast.unparse(sub)[:60]}")
        else:
            raise AlgebraError(f"statement outside the straight-line idiom: {ast.unparse(st)[:60]}")
    if at_stmt is None or not isinstance(at_stmt, (ast.Assign, ast.AnnAssign, ast.Return)):
        raise NotOneAtan2("the atan2 is not the value of an assignment or of a return at the top level of the function")
    y = alg.ev(at[0].args[0], env)
    x = alg.ev(at[0].args[1], env)
    if isinstance(x, Vec) or isinstance(y, Vec):
        raise AlgebraError("atan2 of a vector")
    p1, p2, p3, p4 = [pts[p] for p in pnames]
    b1, b2, b3 = alg.vsub(p2, p1), alg.vsub(p3, p2), alg.vsub(p4, p3)
    yref = mul(alg.norm(b2), alg.dot(b1, alg.cross(b2, b3)))
    xref = alg.dot(alg.cross(b1, b2), alg.cross(b2, b3))
    same = alg.is_zero(add(mul(y, xref), mul(x, yref), -1))
    negated = alg.is_zero(add(mul(y, xref), mul(x, yref)))
    monos = {alg.split_pos(m)[0] for m in x}
    x_pos = x_neg = None
    if len(monos) == 1:
        pm = monos.pop()
        # x = c * pm * x_ref with a rational c read off one monomial (c = 1/16 for vectors of half the unit length ...)
        from .polyalg import mmul

        m0 = min(xref) if xref else None
        cx = x.get(mmul(pm, m0)) if m0 is not None else None
        c = (cx / xref[m0]) if cx else Fraction(1)
        prop = alg.is_zero(add(x, mul({pm: c}, xref), -1))
        x_pos = bool(prop and c > 0)
        x_neg = bool(prop and c < 0)
    # names of the quantities that vanish in the degenerate cases
    quantities = {
        alg_atom(alg, alg.cross(b1, b2)): ("cross", (1, 2)),
        alg_atom(alg, alg.cross(b2, b3)): ("cross", (2, 3)),
        alg_atom(alg, b1): ("bond", (1,)),
        alg_atom(alg, b2): ("bond", (2,)),
        alg_atom(alg, b3): ("bond", (3,)),
    }
    return {
        "same_ratio": same,
        "negated_ratio": negated,
        "x_positive_multiple": x_pos,
        "x_negative_multiple": x_neg,
        "norm_atoms": len(alg.ATOMS),
        "guards": guards,
        "atan2_stmt": at_stmt,
        "atan2": at[0],
        "alg": alg,
        "quantities": quantities,
        "tail": list(fn.body[idx + 1 :]),
        "env": env,
        "envs": envs,
        "pts": [p1, p2, p3, p4],
    }


def alg_atom(alg: Algebra, v: Vec) -> str:
    """Name of the positive symbol |v| (registered on demand)."""
    p = alg.norm(v)
    ((m, c),) = p.items()
    ((name, e),) = m
    return name


# ---- early returns ------------------------------------------------------------------------------------------------

class NotAThreshold(Exception):
    pass


_INC_WRAPPERS = {
    # f increasing on the range of its argument here:  f(s) < b  <=>  s < f^-1(b)
    "arcsin": math.sin,
    "asin": math.sin,
    "degrees": math.radians,
    "rad2deg": math.radians,
    "radians": math.degrees,
    "deg2rad": math.degrees,
    "sqrt": lambda v: v * v,
    "float": lambda v: v,
    "abs": lambda v: v,  # of a non-negative quantity (a norm, a sine)
    "fabs": lambda v: v,
}


def guard_tree(test: ast.AST, env: Dict[str, Any], alg: NumAlgebra, defs: Optional[Dict[str, ast.AST]] = None) -> Tuple:
    """The condition as a tree  ('or' | 'and', [children])  /  ('atom', fact)  with fact = {'monomial': {symbol: exponent},
    'c': float, 'text': str}: "Q < c" for a Laurent monomial Q in positive symbols.  Special facts: 'holds' (a comparison of
    two numbers, with its truth), 'never' (a norm below a non-positive number).  `not` is pushed inwards, chains are split,
    `min(..) < c` is an `or`, `max(..) < c` an `and`, increasing wrappers are inverted on the constant side."""
    defs = defs or {}  # definitions of locals the algebra could not express (e.g. `worst = min(s1, s2)`): looked through

    def leaf(small: ast.AST, big: ast.AST, inv: List[Callable[[float], float]], text: str) -> Tuple:
        if isinstance(small, ast.Call) and not small.keywords:
            fn = _fname(small)
            if fn in ("min", "max") and small.args:
                xs = small.args[0].elts if len(small.args) == 1 and isinstance(small.args[0], (ast.List, ast.Tuple)) else small.args
                return ("or" if fn == "min" else "and", [leaf(x, big, inv, text) for x in xs])
            if fn in _INC_WRAPPERS and len(small.args) == 1:
                return leaf(small.args[0], big, inv + [_INC_WRAPPERS[fn]], text)
        if isinstance(big, ast.Call) and not big.keywords and not inv:
            fn = _fname(big)
            # c < max(..) / c < min(..) with the quantities on the big side: the comparison fires when they are LARGE
            if fn in ("min", "max") and big.args:
                xs = big.args[0].elts if len(big.args) == 1 and isinstance(big.args[0], (ast.List, ast.Tuple)) else big.args
                return ("and" if fn == "min" else "or", [leaf(small, x, inv, text) for x in xs])
        if isinstance(small, ast.Name) and small.id in env and isinstance(env[small.id], Opaque) and small.id in defs:
            return leaf(defs[small.id], big, inv, text)
        try:
            s = alg.ev(small, env)
            b = alg.ev(big, env)
        except AlgebraError as ex:
            raise NotAThreshold(f"`{text}`: {ex}")
        if isinstance(s, Vec) or isinstance(b, Vec):
            raise NotAThreshold(f"`{text}` compares vectors")
        if inv:
            if not is_const(b):
                raise NotAThreshold(f"`{text}`: a wrapped quantity is compared with a non-constant")
            v = const_value(b)
            try:
                for f in inv:  # outermost wrapper first
                    v = f(v)
            except Exception as ex:
                raise NotAThreshold(f"`{text}`: {ex}")
            b = P(Fraction(v)) if v else {}
        if is_const(s) and is_const(b):
            return ("atom", {"monomial": {}, "c": const_value(b), "lhs": const_value(s), "holds": const_value(s) < const_value(b), "text": text})
        if is_const(s) and const_value(s) <= 0 and len(b) == 1:
            ((mb0, cb0),) = b.items()
            if cb0 > 0 and mb0 and all(v in alg.POS for v, _ in mb0):
                # a non-positive number below a norm: always true
                return ("atom", {"monomial": {}, "c": math.inf, "lhs": const_value(s), "holds": True, "text": text})
        if is_const(b) and const_value(b) <= 0 and len(s) == 1:
            ((ms, cs),) = s.items()
            if cs > 0 and all(v in alg.POS for v, _ in ms):
                return ("atom", {"monomial": dict(ms), "c": const_value(b), "never": True, "text": text})
        if len(s) != 1 or len(b) != 1:
            raise NotAThreshold(f"`{text}`: the compared quantities are not monomials in norms (a sum cannot be bounded here)")
        ((ms, cs),) = s.items()
        ((mb, cb),) = b.items()
        for m in (ms, mb):
            if not all(v in alg.POS for v, _ in m):
                raise NotAThreshold(f"`{text}`: the compared quantity is not a product of norms")
        if cs <= 0 or cb <= 0:
            raise NotAThreshold(f"`{text}`: sign of the compared quantities")
        mono: Dict[str, int] = {}
        for v, e in ms:
            mono[v] = mono.get(v, 0) + e
        for v, e in mb:
            mono[v] = mono.get(v, 0) - e
        mono = {v: e for v, e in mono.items() if e}
        return ("atom", {"monomial": mono, "c": float(cb / cs), "text": text})

    def node(t: ast.AST, positive: bool) -> Tuple:
        if isinstance(t, ast.Call) and isinstance(t.func, ast.Name) and t.func.id in ("any", "all") and len(t.args) == 1 and not t.keywords:
            # any(P(x) for x in xs) is the disjunction of P over the elements, all(...) the conjunction (negation pushed inwards)
            is_or = (t.func.id == "any") == positive
            a = t.args[0]
            if isinstance(a, (ast.List, ast.Tuple)):
                return ("or" if is_or else "and", [node(x, positive) for x in a.elts])
            if isinstance(a, (ast.GeneratorExp, ast.ListComp)) and len(a.generators) == 1 and not a.generators[0].ifs:
                g = a.generators[0]
                try:
                    items = alg.ev(g.iter, env)
                except AlgebraError as ex:
                    raise NotAThreshold(f"`{ast.unparse(t)[:60]}`: {ex}")
                if not isinstance(items, list) or not items:
                    raise NotAThreshold(f"`{ast.unparse(t)[:60]}` does not range over a sequence of algebraic values")
                kids = []
                for item in items:
                    env2 = dict(env)
                    try:
                        alg._bind_target(g.target, item, env2)
                    except AlgebraError as ex:
                        raise NotAThreshold(f"`{ast.unparse(t)[:60]}`: {ex}")
                    sub = a.elt if positive else ast.UnaryOp(op=ast.Not(), operand=a.elt)
                    kids.append(guard_tree(sub, env2, alg, defs))
                return ("or" if is_or else "and", kids)
            raise NotAThreshold(f"`{ast.unparse(t)[:60]}` is not a comparison")
        if isinstance(t, ast.BoolOp):
            is_or = isinstance(t.op, ast.Or)
            return ("or" if is_or == positive else "and", [node(v, positive) for v in t.values])
        if isinstance(t, ast.UnaryOp) and isinstance(t.op, ast.Not):
            return node(t.operand, not positive)
        if isinstance(t, ast.Compare):
            leaves = []
            left = t.left
            for op, right in zip(t.ops, t.comparators):
                if isinstance(op, (ast.Lt, ast.LtE)):
                    pair = (left, right)
                elif isinstance(op, (ast.Gt, ast.GtE)):
                    pair = (right, left)
                else:
                    raise NotAThreshold(f"`{ast.unparse(t)[:60]}` is not an order comparison")
                if not positive:
                    pair = (pair[1], pair[0])
                leaves.append(leaf(pair[0], pair[1], [], f"{ast.unparse(pair[0])[:40]} < {ast.unparse(pair[1])[:40]}"))
                left = right
            if len(leaves) == 1:
                return leaves[0]
            return ("and" if positive else "or", leaves)
        raise NotAThreshold(f"`{ast.unparse(t)[:60]}` is not a comparison")

    return node(test, True)


def tree_atoms(tree: Tuple) -> List[Dict[str, Any]]:
    if tree[0] == "atom":
        return [tree[1]]
    out: List[Dict[str, Any]] = []
    for c in tree[1]:
        out += tree_atoms(c)
    return out


def guard_atoms(test: ast.AST, env: Dict[str, Any], alg: NumAlgebra, defs: Optional[Dict[str, ast.AST]] = None) -> List[Dict[str, Any]]:
    return tree_atoms(guard_tree(test, env, alg, defs))


def classify(mono: Dict[str, int], quantities: Dict[str, Tuple[str, Tuple[int, ...]]], alg: Algebra) -> Tuple[str, str]:
    """(kind, description): 'cross' |b_i x b_j| ; 'sine' |b_i x b_j| / (|b_i||b_j|) ; 'scaled-cross' the cross norm times
    other positive factors ; 'bond' |b_i| ; 'other'."""
    crosses = [(v, e) for v, e in mono.items() if quantities.get(v, ("", ()))[0] == "cross"]
    bonds = {v: e for v, e in mono.items() if quantities.get(v, ("", ()))[0] == "bond"}
    rest = {v: e for v, e in mono.items() if v not in quantities}
    scales = {v: e for v, e in rest.items() if v.startswith("C")}
    foreign = {v: e for v, e in rest.items() if not v.startswith("C")}
    if len(crosses) == 1 and crosses[0][1] == 1 and not foreign:
        v = crosses[0][0]
        i, j = quantities[v][1]
        own = {b for b, (k, ix) in quantities.items() if k == "bond" and ix[0] in (i, j)}
        if not bonds and not scales:
            return "cross", f"|b{i} x b{j}|"
        if set(bonds) == own and all(e == -1 for e in bonds.values()) and not scales:
            return "sine", f"|b{i} x b{j}| / (|b{i}| |b{j}|) = sine of the bond angle"
        if not bonds and len(scales) == 2 and all(e == 1 for e in scales.values()):
            return "sine", f"|u{i} x u{j}| of the normalised bond vectors = sine of the bond angle"
        return "scaled-cross", f"|b{i} x b{j}| times other positive factors"
    if not crosses and not foreign and len(bonds) == 1 and list(bonds.values()) == [1] and not scales:
        v = next(iter(bonds))
        return "bond", f"|b{quantities[v][1][0]}|"
    if not crosses and not foreign and len(bonds) == 1 and list(bonds.values()) == [1] and len(scales) == 1:
        v = next(iter(bonds))
        return "bond", f"|u{quantities[v][1][0]}| of the normalised bond vector"
    return "other", "a quantity that does not vanish exactly in the collinear case"
