"""Memoised functions whose answer comes from outside their arguments (C14: repeated calls and fresh processes agree).

`functools.lru_cache` / `functools.cache` identify a call by its arguments for the life of the process.  That is sound
for a function of its arguments only.  A function that reads the file system (or the environment, the clock, standard
input) through a path or a handle it was given answers from *state the key does not determine*: the arguments name a
file, not its content - not even together with a modification time, which has a granularity and can be preserved by a
copy.  The second call with equal arguments returns what the first call read, while a fresh process reads the file
again: the output depends on what the process did before.

Facts per memo site (decorated function, or a module-level `NAME = lru_cache(...)(function)`):
    external reads   calls in the function body, or in package functions it calls (resolved by name through the
                     imports, methods of its own class through self; bounded depth), that read state outside the
                     arguments: open / io / gzip / bz2 / lzma .open, os.listdir / scandir / stat / getenv / environ,
                     os.path.getmtime / getsize / exists ..., input(), sys.stdin, time / datetime clocks, pathlib
                     read_text / read_bytes, and reader methods of other libraries (`readFile`, `read_csv`, `load`,
                     `loadtxt`, `parse` applied to a path argument)
Violation: the set of external reads is not empty.
"""
from __future__ import annotations

import ast
from typing import Dict, List, Optional, Set, Tuple

from . import astq
from .model import FuncInfo, Repo

MEMO = ("lru_cache", "cache")
READ_CALLS = {
    "open", "input", "io.open", "gzip.open", "bz2.open", "lzma.open", "codecs.open", "os.listdir", "os.scandir", "os.walk", "os.stat", "os.lstat", "os.getenv", "os.getcwd",
    "os.path.getmtime", "os.path.getsize", "os.path.getctime", "os.path.exists", "os.path.isfile", "os.path.isdir", "glob.glob", "time.time", "time.time_ns", "time.monotonic",
    "datetime.now", "datetime.datetime.now", "datetime.utcnow", "datetime.date.today", "sys.stdin.read", "sys.stdin.readline", "sys.stdin.readlines",
}  # fmt: skip
READ_METHODS = {"readFile", "read_text", "read_bytes", "read_csv", "read_json", "read_table", "read_excel", "loadtxt", "genfromtxt", "fromfile"}
READ_METHODS_ON_PATH = {"load", "parse", "read", "readlines", "readline"}  # readers when the receiver or an argument is a parameter of the memoised function


def _dotted(fi: FuncInfo, f: ast.AST) -> Optional[str]:
    d = astq.dotted(f)
    if d is None:
        return None
    head, _, rest = d.partition(".")
    imp = fi.module.imports.get(head)
    if imp is not None:
        src, orig = imp
        base = src if orig is None else f"{src}.{orig}"
        return base + ("." + rest if rest else "")
    return d


def external_reads(repo: Repo, fi: FuncInfo, depth: int = 4, _seen: Optional[Set[int]] = None) -> List[Tuple[FuncInfo, ast.AST, str]]:
    """(function, node, what) for every read of state outside the arguments in fi and the package functions it calls"""
    seen = _seen if _seen is not None else set()
    if id(fi.node) in seen:
        return []
    seen.add(id(fi.node))
    out: List[Tuple[FuncInfo, ast.AST, str]] = []
    params = {a.arg for a in fi.node.args.posonlyargs + fi.node.args.args + fi.node.args.kwonlyargs}
    for n in ast.walk(fi.node):
        if isinstance(n, ast.Attribute) and astq.dotted(n) == "os.environ":
            out.append((fi, n, "os.environ"))
        if not isinstance(n, ast.Call):
            continue
        d = _dotted(fi, n.func) or ""
        last = n.func.attr if isinstance(n.func, ast.Attribute) else d
        if d in READ_CALLS:
            out.append((fi, n, f"{d}(...)"))
            continue
        if isinstance(n.func, ast.Attribute) and last in READ_METHODS:
            out.append((fi, n, f"`{ast.unparse(n)[:50]}` reads the file its argument names"))
            continue
        if isinstance(n.func, ast.Attribute) and last in READ_METHODS_ON_PATH:
            touches = {x.id for x in ast.walk(n) if isinstance(x, ast.Name)} & params
            if touches and not (isinstance(n.func.value, ast.Name) and n.func.value.id in ("json", "orjson", "ast", "re", "pickle") and last in ("parse",)):
                recv = n.func.value
                if isinstance(recv, ast.Name) and recv.id in ("self",):
                    pass
                else:
                    out.append((fi, n, f"`{ast.unparse(n)[:50]}` reads through `{sorted(touches)[0]}`"))
                    continue
        # package callees
        if depth <= 0:
            continue
        g = None
        if isinstance(n.func, ast.Name):
            try:
                hm, hn = repo.const_home(fi.module.name, n.func.id)
                if hn in repo.modules[hm].funcs:
                    g = repo.modules[hm].funcs[hn]
            except Exception:
                g = None
        elif isinstance(n.func, ast.Attribute) and isinstance(n.func.value, ast.Name):
            if n.func.value.id in ("self", "cls") and fi.cls is not None:
                q = f"{fi.cls.name}.{n.func.attr}"
                g = fi.module.funcs.get(q)
            elif n.func.value.id in fi.module.imports:
                src, orig = fi.module.imports[n.func.value.id]
                m = (src if orig is None else f"{src}.{orig}").split(".")[-1]
                if m in repo.modules:
                    g = repo.modules[m].funcs.get(n.func.attr)
        if g is not None:
            out.extend(external_reads(repo, g, depth - 1, seen))
    return out


def memo_functions(repo: Repo) -> List[Tuple[FuncInfo, str, ast.AST]]:
    """(memoised function, how it is memoised, node of the memo construct)"""
    out = []
    for fi in repo.all_funcs():
        decs = [d for d in fi.decorators if d in MEMO]
        if decs:
            out.append((fi, f"@{decs[0]}", fi.node))
    for mod in repo.modules.values():
        for name, e in mod.consts.items():
            # NAME = lru_cache(maxsize=...)(function) / NAME = cache(function)
            if not isinstance(e, ast.Call):
                continue
            inner = e.func.func if isinstance(e.func, ast.Call) else e.func
            nm = (astq.dotted(inner) or "").split(".")[-1]
            if nm in MEMO and e.args and isinstance(e.args[0], ast.Name) and e.args[0].id in mod.funcs:
                out.append((mod.funcs[e.args[0].id], f"{name} = {nm}(...)({e.args[0].id})", e))
    return out


def findings(repo: Repo) -> Tuple[List[Tuple[FuncInfo, ast.AST, str, str]], int]:
    out = []
    sites = memo_functions(repo)
    for fi, how, node in sites:
        reads = external_reads(repo, fi)
        if not reads:
            continue
        g, n, what = reads[0]
        via = "" if g is fi else f" in {g.qualname}, which it calls,"
        params = ", ".join(a.arg for a in fi.node.args.posonlyargs + fi.node.args.args if a.arg not in ("self", "cls"))
        out.append(
            (
                fi,
                node,
                f"`{how}` memoises {fi.qualname}({params}) by its arguments, but its answer comes from outside them: {what}{via} ({g.module.relpath}:{getattr(n, 'lineno', 0)}). "
                f"The key names the source (a path, a handle, even with a modification time), not its content: a later call with equal arguments returns what the first call read, "
                f"a fresh process reads again - the output depends on what the process did before, and every caller shares one mutable answer",
                f"memo-external:{fi.module.name}:{fi.qualname}",
            )
        )
    return out, len(sites)
