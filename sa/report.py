"""Obligations, verdicts, known findings, evidence files, exit codes."""
from __future__ import annotations

import json
import os
import sys
import time
from dataclasses import dataclass, field
from typing import Any, Dict, List, Optional

VERIF = os.path.dirname(os.path.dirname(os.path.abspath(__file__)))


def evidence_dir() -> str:
    """evidence/ of /verif; selftests redirect it with VERIF_EVIDENCE_DIR so they never touch committed evidence."""
    return os.environ.get("VERIF_EVIDENCE_DIR") or os.path.join(VERIF, "evidence")


@dataclass
class Obligation:
    rule: str
    site: str
    status: str  # "ok" | "violation" | "error" | "known"
    detail: str
    key: str = ""
    expected: Any = None
    found: Any = None

    def as_json(self) -> Dict[str, Any]:
        d = {"rule": self.rule, "site": self.site, "status": self.status, "detail": self.detail}
        if self.key:
            d["key"] = self.key
        if self.expected is not None:
            d["expected"] = _j(self.expected)
        if self.found is not None:
            d["found"] = _j(self.found)
        return d


def _j(x: Any) -> Any:
    try:
        json.dumps(x)
        return x
    except TypeError:
        if isinstance(x, (set, frozenset)):
            return sorted(map(_j, x), key=repr)
        if isinstance(x, (list, tuple)):
            return [_j(v) for v in x]
        if isinstance(x, dict):
            return {str(k): _j(v) for k, v in x.items()}
        return repr(x)


class Check:
    def __init__(self, pid: str, tier: str, repo, seed: int = 0):
        self.pid = pid
        self.tier = tier
        self.repo = repo
        self.seed = seed
        self.t0 = time.time()
        self.obligations: List[Obligation] = []
        self.functions: set = set()
        self.explanation = ""
        self.trusted: List[str] = []
        self.assumptions: List[str] = []
        self.floors: Dict[str, int] = {}
        self.robust: set = set()
        self.superseded: Dict[str, str] = {}  # pinned-shape rule -> evaluated rule that decides the same behaviour
        self.known = _load_known(pid)

    # -- recording --------------------------------------------------------
    def note_function(self, fi) -> None:
        self.functions.add(f"{fi.module.name}.{fi.qualname}")

    def ok(self, rule: str, site: str, detail: str) -> None:
        self.obligations.append(Obligation(rule, site, "ok", detail))

    def violation(self, rule: str, site: str, detail: str, key: str, expected: Any = None, found: Any = None) -> None:
        """A rule instance fails.  Rules that evaluate facts independently of statement shape (truth tables, accept regions,
        folded constants, kinds, effects, closed-world 'extra construct' findings) are listed in self.robust and always give a
        VIOLATION.  The other rules read a pinned idiom: when the function they look at was structurally rewritten
        (statements added or recast, see Repo.shape_status) their failure only says 'idiom not recognised' -> ANALYSIS-ERROR."""
        if rule in self.superseded and self._rewritten(site):
            # the function was rewritten and an evaluated rule decides this behaviour on the new code: the pinned form is only a reading aid
            self.obligations.append(Obligation(rule, site, "ok", f"pinned form not matched in a rewritten function; the behaviour is decided by rule `{self.superseded[rule]}` on the current code"))
            return
        if rule not in self.robust and self._rewritten(site):
            self.obligations.append(Obligation(rule, site, "error", "idiom not recognised in a structurally rewritten function (rule reads the pinned form): " + detail, key, expected, found))
            return
        self.obligations.append(Obligation(rule, site, "violation", detail, key, expected, found))

    def _rewritten(self, site: str) -> bool:
        import re

        m = re.match(r"src/rnapolis/(\w+)\.py(?::\d+)? (\S+)$", site or "")
        if not m or self.repo is None:
            return False
        try:
            return self.repo.shape_status(m.group(1), m.group(2)) == "shape"
        except Exception:
            return False

    def error(self, rule: str, site: str, detail: str) -> None:
        if rule in self.superseded and self._rewritten(site):
            self.obligations.append(Obligation(rule, site, "ok", f"pinned form not recognised in a rewritten function ({detail[:80]}); the behaviour is decided by rule `{self.superseded[rule]}` on the current code"))
            return
        self.obligations.append(Obligation(rule, site, "error", detail))

    def expect(self, cond: bool, rule: str, site: str, detail_ok: str, detail_bad: str, key: str, expected: Any = None, found: Any = None) -> bool:
        if cond:
            self.ok(rule, site, detail_ok)
        else:
            self.violation(rule, site, detail_bad, key, expected, found)
        return cond

    # -- shape vs fact (sa/shape.py) -------------------------------------------------------------------
    def block(self, rule: str, site: str, actual, expected, ok_msg: str, bad_msg: str, key: str) -> bool:
        """Compare a statement list with the form(s) the rule expects: ok / VIOLATION (a fact differs or a required
        step is gone) / ANALYSIS-ERROR (another syntactic form: idiom not recognised)."""
        from .shape import classify_block

        alts = expected if isinstance(expected, (list, tuple)) and expected and isinstance(expected[0], str) else [expected]
        results = [classify_block(actual, e) for e in alts]
        return self._classified(results, rule, site, ok_msg, bad_msg, key, actual)

    def expr(self, rule: str, site: str, actual, expected, ok_msg: str, bad_msg: str, key: str) -> bool:
        from .shape import classify_expr

        if actual is None:
            self.error(rule, site, f"construct not found ({bad_msg[:80]})")
            return False
        alts = expected if isinstance(expected, (list, tuple)) else [expected]
        results = [classify_expr(actual, e) for e in alts]
        return self._classified(results, rule, site, ok_msg, bad_msg, key, actual)

    def _classified(self, results, rule, site, ok_msg, bad_msg, key, actual) -> bool:
        import ast as _ast

        kinds = [k for k, _ in results]
        if "ok" in kinds:
            self.ok(rule, site, ok_msg)
            return True
        for want in ("fact", "missing"):
            for k, note in results:
                if k == want:
                    self.violation(rule, site, f"{bad_msg} [{note}]", key, found=_text(actual))
                    return False
        self.error(rule, site, f"idiom not recognised - {results[0][1]} (rule: {ok_msg[:90]})")
        return False

    def floor(self, rule: str, n: int) -> None:
        """The rule must have bound at least n constructs (confirmed by hand on the pinned tree)."""
        self.floors[rule] = n

    # -- finishing ----------------------------------------------------------
    def finish(self) -> int:
        counts: Dict[str, int] = {}
        for o in self.obligations:
            counts[o.rule] = counts.get(o.rule, 0) + 1
        for rule, n in self.floors.items():
            if counts.get(rule, 0) < n:
                self.error(rule, "-", f"instance floor not met: bound {counts.get(rule, 0)} construct(s), confirmed {n} on the pinned tree")
        # known findings
        lines: List[str] = []
        used_known = set()
        for o in self.obligations:
            if o.status == "violation":
                k = self._match_known(o)
                if k is not None:
                    o.status = "known"
                    used_known.add(k["id"])
                    lines.append(f"KNOWN-FINDING: property={self.pid} {k['what']}")
        viol = [o for o in self.obligations if o.status == "violation"]
        errs = [o for o in self.obligations if o.status == "error"]
        ev_dir = evidence_dir()
        os.makedirs(os.path.join(ev_dir, "replay"), exist_ok=True)
        for n in os.listdir(os.path.join(ev_dir, "replay")):
            if n.startswith(self.pid + "-"):
                os.remove(os.path.join(ev_dir, "replay", n))
        for i, o in enumerate(viol):
            path = os.path.join("evidence", "replay", f"{self.pid}-{i}.json")
            with open(os.path.join(ev_dir, "replay", f"{self.pid}-{i}.json"), "w") as f:
                json.dump({"property": self.pid, **o.as_json()}, f, indent=1)
            lines.append(f"VIOLATION property={self.pid} replay={path}")
            lines.append(f"  rule={o.rule} at {o.site}: {o.detail}")
            if o.expected is not None or o.found is not None:
                lines.append(f"  expected={_short(o.expected)} found={_short(o.found)}")
        for o in errs:
            lines.append(f"ANALYSIS-ERROR property={self.pid} rule={o.rule} at {o.site}: {o.detail}")
        self._write_evidence(viol, errs)
        n_ok = sum(1 for o in self.obligations if o.status == "ok")
        lines.append(
            f"{self.pid} [{self.tier}] obligations={len(self.obligations)} ok={n_ok} known={sum(1 for o in self.obligations if o.status == 'known')} "
            f"violations={len(viol)} analysis_errors={len(errs)} functions={len(self.functions)} wall={time.time() - self.t0:.2f}s"
        )
        print("\n".join(lines))
        if viol:
            return 1
        if errs:
            return 2
        return 0

    def _match_known(self, o: Obligation) -> Optional[Dict[str, Any]]:
        for k in self.known:
            if k.get("status") != "known":
                continue
            if k["rule"] == o.rule and k["key"] == o.key:
                return k
        return None

    def _write_evidence(self, viol, errs) -> None:
        nontrivial = {(o.rule, o.site, o.detail) for o in self.obligations if o.site != "-"}
        samples = [o.as_json() for o in self.obligations[:: max(1, len(self.obligations) // 12)]][:14]
        rules: Dict[str, Dict[str, int]] = {}
        for o in self.obligations:
            r = rules.setdefault(o.rule, {"ok": 0, "violation": 0, "error": 0, "known": 0})
            r[o.status] += 1
        ev = {
            "property_id": self.pid,
            "tier": self.tier,
            "seed": self.seed,
            "level": "other",
            "coverage": {
                "explanation": self.explanation,
                "evaluations": len(self.obligations),
                "distinct_nontrivial": len(nontrivial),
                "rule": "one evaluation = one static obligation (rule instance bound to a concrete construct of /repo's current source); "
                "non-trivial = bound to a file:line construct, distinct by (rule, site, fact)",
                "obligations": len(self.obligations),
                "discharged": sum(1 for o in self.obligations if o.status == "ok"),
                "rules": rules,
                "samples": samples,
                "functions_analysed": sorted(self.functions),
                "files": dict(sorted(self.repo.consulted.items())) if self.repo else {},
                "trusted_base": self.trusted,
                "locals_renamed_to_reference": {k: v for k, v in (getattr(self.repo, "renamed", {}) or {}).items() if any(k == f or k.startswith(f + ".") or f.startswith(k) for f in self.functions)} if self.repo else {},
                "analysis_errors": [o.as_json() for o in errs],
                "violations": [o.as_json() for o in viol],
                "known_findings": [o.as_json() for o in self.obligations if o.status == "known"],
                "exhaustive": True,
            },
            "assumptions": self.assumptions,
            "wall_s": round(time.time() - self.t0, 3),
            "violations": len(viol),
        }
        with open(os.path.join(evidence_dir(), f"{self.pid}.json"), "w") as f:
            json.dump(ev, f, indent=1)
            f.write("\n")


def _text(x: Any) -> Any:
    import ast as _ast

    if isinstance(x, _ast.AST):
        return _ast.unparse(x)[:200]
    if isinstance(x, (list, tuple)):
        return [_text(y) for y in x][:12]
    return x


def _short(x: Any) -> str:
    s = json.dumps(_j(x)) if x is not None else "-"
    return s if len(s) < 300 else s[:297] + "..."


def _load_known(pid: str) -> List[Dict[str, Any]]:
    path = os.path.join(VERIF, "known_findings.json")
    if not os.path.exists(path):
        return []
    with open(path) as f:
        data = json.load(f)
    return [k for k in data.get("findings", []) if k.get("property") == pid]
