"""A1 (part): light, flow-insensitive type inference for locals, enough to know what sets contain.

Types:  'int' 'float' 'bool' 'none' 'str' 'bytes'
        ('tuple', (t1, t2, ...)) | ('tupleof', t)
        ('list', t) | ('set', t) | ('frozenset', t) | ('dict', k, v) | ('iter', t)
        ('cls', module, name) | 'unknown'
Unknown stays unknown; every rule says what it does with it.
"""
from __future__ import annotations

import ast
from typing import Any, Dict, List, Optional, Tuple

from . import astq
from .model import FuncInfo, Repo

T = Any
UNK = "unknown"
PRIM = {"int": "int", "float": "float", "bool": "bool", "str": "str", "bytes": "bytes", "None": "none", "NoneType": "none"}


def join(a: T, b: T) -> T:
    if a == b or b is None:
        return a
    if a is None:
        return b
    if a == UNK or b == UNK:
        return UNK
    if a == "none":
        return b
    if b == "none":
        return a
    if isinstance(a, tuple) and isinstance(b, tuple) and {a[0], b[0]} <= {"set", "list", "frozenset", "iter"} and a[0] != b[0]:
        # may be a set: keep the unordered reading (conservative for order taint)
        kind = "set" if "set" in (a[0], b[0]) else ("frozenset" if "frozenset" in (a[0], b[0]) else "list")
        return (kind, join(a[1], b[1]))
    if isinstance(a, tuple) and isinstance(b, tuple) and a[0] == b[0] and len(a) == len(b):
        if a[0] == "tuple":
            if len(a[1]) == len(b[1]):
                return ("tuple", tuple(join(x, y) for x, y in zip(a[1], b[1])))
            return UNK
        if a[0] == "cls":
            return UNK
        return (a[0],) + tuple(join(x, y) for x, y in zip(a[1:], b[1:]))
    if {a, b} <= {"int", "float", "bool"} if isinstance(a, str) and isinstance(b, str) else False:
        return "float"
    return UNK


def elem(t: T) -> T:
    if t is None:
        return None
    if isinstance(t, tuple):
        if t[0] in ("list", "set", "frozenset", "iter", "tupleof"):
            return t[1]
        if t[0] == "dict":
            return t[1]
        if t[0] == "tuple":
            r = None
            for x in t[1]:
                r = join(r, x)
            return r if r is not None else UNK
    if t == "str":
        return "str"
    return UNK


class Types:
    def __init__(self, repo: Repo):
        self.repo = repo
        self._ret: Dict[Tuple[str, str], T] = {}
        self._busy: set = set()

    # ---- annotations -----------------------------------------------------------------
    def ann(self, module: str, a: Optional[ast.AST]) -> T:
        if a is None:
            return UNK
        if isinstance(a, ast.Constant) and isinstance(a.value, str):
            try:
                return self.ann(module, ast.parse(a.value, mode="eval").body)
            except SyntaxError:
                return UNK
        if isinstance(a, ast.Constant) and a.value is None:
            return "none"
        if isinstance(a, ast.Name):
            if a.id in PRIM:
                return PRIM[a.id]
            return self._cls(module, a.id)
        if isinstance(a, ast.Attribute):
            return self._cls(module, a.attr)
        if isinstance(a, ast.Subscript):
            head = ast.unparse(a.value).split(".")[-1]
            args = a.slice.elts if isinstance(a.slice, ast.Tuple) else [a.slice]
            ts = [self.ann(module, x) for x in args]
            if head == "Optional":
                return ts[0]
            if head == "Union":
                r = None
                for x in ts:
                    r = join(r, x)
                return r
            if head in ("List", "list", "Sequence", "Iterable", "Iterator", "Collection"):
                return ("list", ts[0])
            if head in ("Set", "set", "OrderedSet"):
                return ("set", ts[0]) if head != "OrderedSet" else ("list", ts[0])
            if head in ("FrozenSet", "frozenset"):
                return ("frozenset", ts[0])
            if head in ("Dict", "dict", "DefaultDict", "Mapping"):
                return ("dict", ts[0], ts[1] if len(ts) > 1 else UNK)
            if head in ("Tuple", "tuple"):
                if len(args) == 2 and isinstance(args[1], ast.Constant) and args[1].value is Ellipsis:
                    return ("tupleof", ts[0])
                return ("tuple", tuple(ts))
        return UNK

    def _cls(self, module: str, name: str) -> T:
        try:
            hm, hn = self.repo.const_home(module, name)
            if hn in self.repo.modules[hm].classes:
                return ("cls", hm, hn)
        except Exception:
            pass
        return UNK

    # ---- module-level constants ---------------------------------------------------------------
    def const_type(self, module: str, name: str) -> T:
        """Type of a module-level constant (following `from rnapolis.x import NAME`), inferred from its defining expression in
        its own module: literals, constructor calls such as frozenset("ACGU"), comprehensions, set algebra on other constants."""
        try:
            hm, hn = self.repo.const_home(module, name)
            mod = self.repo.modules[hm]
            if hn not in mod.consts:
                return UNK
        except Exception:
            return UNK
        key = ("<const>", hm + "." + hn)
        if key in self._ret:
            return self._ret[key]
        if key in self._busy:
            return UNK
        self._busy.add(key)
        try:
            fake = ast.FunctionDef(name="<module>", args=ast.arguments(posonlyargs=[], args=[], vararg=None, kwonlyargs=[], kw_defaults=[], kwarg=None, defaults=[]), body=[ast.Pass()], decorator_list=[], returns=None, lineno=1, col_offset=0)
            ft = FuncTypes(self, FuncInfo(mod, "<module>", fake, None))
            e = mod.consts[hn]
            t = ft._refine(e, ft.of(e))
        except Exception:
            t = UNK
        finally:
            self._busy.discard(key)
        self._ret[key] = t
        return t

    # ---- class members ------------------------------------------------------------------
    def member(self, ct: T, attr: str) -> T:
        if not (isinstance(ct, tuple) and ct[0] == "cls"):
            return UNK
        seen = set()
        todo = [(ct[1], ct[2])]
        while todo:
            m, c = todo.pop(0)
            if (m, c) in seen:
                continue
            seen.add((m, c))
            node = self.repo.modules[m].classes.get(c)
            if node is None:
                continue
            for b in node.body:
                if isinstance(b, ast.AnnAssign) and isinstance(b.target, ast.Name) and b.target.id == attr:
                    t = self.ann(m, b.annotation)
                    if t == UNK and b.value is not None and not (isinstance(b.value, ast.Call) and astq.callee_name(b.value) == "field"):
                        t = self._class_attr_type(m, c, attr, b.value)
                    return t
                if isinstance(b, ast.Assign) and any(isinstance(t0, ast.Name) and t0.id == attr for t0 in b.targets):
                    # a table kept in the class body (`nucleobase_heavy_atoms = {...}`): typed from its defining expression
                    return self._class_attr_type(m, c, attr, b.value)
                if isinstance(b, ast.FunctionDef) and b.name == attr:
                    fi = self.repo.modules[m].funcs.get(f"{c}.{attr}")
                    if fi is not None and any(d in ("property", "cached_property") for d in fi.decorators):
                        return self.ret(fi)
                    return UNK
            for base in node.bases:
                t = self._cls(m, ast.unparse(base).split(".")[-1].split("[")[0])
                if isinstance(t, tuple):
                    todo.append((t[1], t[2]))
        return UNK

    def _class_attr_type(self, module: str, cls: str, attr: str, e: ast.AST) -> T:
        key = ("<classattr>", f"{module}.{cls}.{attr}")
        if key in self._ret:
            return self._ret[key]
        if key in self._busy:
            return UNK
        self._busy.add(key)
        try:
            mod = self.repo.modules[module]
            fake = ast.FunctionDef(name="<class body>", args=ast.arguments(posonlyargs=[], args=[], vararg=None, kwonlyargs=[], kw_defaults=[], kwarg=None, defaults=[]), body=[ast.Pass()], decorator_list=[], returns=None, lineno=1, col_offset=0)
            ft = FuncTypes(self, FuncInfo(mod, "<class body>", fake, None))
            t = ft._refine(e, ft.of(e))
        except Exception:
            t = UNK
        finally:
            self._busy.discard(key)
        self._ret[key] = t
        return t

    def ret(self, fi: FuncInfo) -> T:
        key = (fi.module.name, fi.qualname)
        if key in self._ret:
            return self._ret[key]
        if key in self._busy:
            return UNK
        self._busy.add(key)
        try:
            t = self.ann(fi.module.name, fi.node.returns) if fi.node.returns is not None else UNK
            if t == UNK:
                ft = FuncTypes(self, fi)
                r = None
                for n in astq.walk_no_nested(fi.node):
                    if isinstance(n, ast.Return) and n.value is not None:
                        r = join(r, ft._refine(n.value, ft.of(n.value)))
                t = r if r is not None else UNK
        finally:
            self._busy.discard(key)
        self._ret[key] = t
        return t

    def ret_ctx(self, fi: FuncInfo, argt: Dict[str, T], outer: Optional[Dict[str, T]] = None) -> T:
        """Return type of fi *at one call site*: unannotated parameters take the types of the arguments given there (and, for a
        helper nested in a function, free names the types they have in the enclosing function).  Private helpers and nested defs
        carry no annotations; what they return depends on what they are given."""
        try:
            key = ("<ctx>", fi.module.name + ":" + fi.qualname + ":" + repr(sorted(argt.items())) + repr(sorted((outer or {}).items())))
        except Exception:
            return UNK
        if key in self._ret:
            return self._ret[key]
        if key in self._busy or len(self._busy) > 12:
            return UNK
        self._busy.add(key)
        try:
            ft = FuncTypes(self, fi, preset=argt, outer=outer)
            r = None
            for n in astq.walk_no_nested(fi.node):
                if isinstance(n, ast.Return) and n.value is not None:
                    r = join(r, ft._refine(n.value, ft.of(n.value)))
            t = r if r is not None else UNK
        finally:
            self._busy.discard(key)
        self._ret[key] = t
        return t

    # ---- hash stability --------------------------------------------------------------------
    def stable(self, t: T, seen: Tuple = ()) -> Optional[bool]:
        """True: iteration order of a set of t does not depend on PYTHONHASHSEED; False: it does; None: unknown."""
        if t in ("int", "float", "bool", "none"):
            return True
        if t in ("str", "bytes"):
            return False
        if t == UNK or t is None:
            return None
        if isinstance(t, tuple):
            if t[0] == "tuple":
                rs = [self.stable(x, seen) for x in t[1]]
                return False if False in rs else (None if None in rs else True)
            if t[0] in ("tupleof", "frozenset"):
                return self.stable(t[1], seen)
            if t[0] == "cls":
                return self._cls_stable(t, seen)
            return False  # lists/sets/dicts are unhashable or identity-hashed
        return None

    def _cls_stable(self, t: T, seen: Tuple) -> Optional[bool]:
        if t in seen:
            return True
        node = self.repo.modules[t[1]].classes[t[2]]
        bases = [ast.unparse(b).split(".")[-1] for b in node.bases]
        if any(b in ("Enum", "IntEnum", "Flag") for b in bases):
            return False  # Enum.__hash__ = hash(self._name_), a str
        if "namedtuple" in ast.unparse(node) and False:
            return False
        hashes = [b for b in node.body if isinstance(b, ast.FunctionDef) and b.name == "__hash__"]
        fields = self._all_fields(t)
        if hashes:
            used = [n.attr for n in ast.walk(hashes[0]) if isinstance(n, ast.Attribute) and isinstance(n.value, ast.Name) and n.value.id == "self"]
            rs = [self.stable(fields.get(f, UNK), seen + (t,)) for f in used]
            return False if False in rs else (None if None in rs else True)
        decos = [ast.unparse(d) for d in node.decorator_list]
        if any("dataclass" in d for d in decos):
            rs = [self.stable(x, seen + (t,)) for x in fields.values()]
            return False if False in rs else (None if None in rs else True)
        for b in bases:
            bt = self._cls(t[1], b)
            if isinstance(bt, tuple):
                return self._cls_stable(bt, seen + (t,))
        return False  # identity hash: address dependent

    def _all_fields(self, t: T) -> Dict[str, T]:
        out: Dict[str, T] = {}
        node = self.repo.modules[t[1]].classes[t[2]]
        for base in node.bases:
            bt = self._cls(t[1], ast.unparse(base).split(".")[-1].split("[")[0])
            if isinstance(bt, tuple):
                out.update(self._all_fields(bt))
        for b in node.body:
            if isinstance(b, ast.AnnAssign) and isinstance(b.target, ast.Name):
                out[b.target.id] = self.ann(t[1], b.annotation)
        return out


def _has_bottom(t: T) -> bool:
    if t is None:
        return True
    if isinstance(t, tuple) and t[0] != "cls":
        return any(_has_bottom(x) for x in (t[1] if t[0] == "tuple" else t[1:]))
    return False


def _has_unknown(t: T) -> bool:
    if t is None or t == UNK:
        return True
    if isinstance(t, tuple):
        if t[0] == "cls":
            return False
        if t[0] == "tuple":
            return any(_has_unknown(x) for x in t[1])
        return any(_has_unknown(x) for x in t[1:])
    return False


def _top(t: T) -> T:
    if t is None:
        return UNK
    if isinstance(t, tuple):
        if t[0] == "tuple":
            return ("tuple", tuple(_top(x) for x in t[1]))
        if t[0] == "cls":
            return t
        return (t[0],) + tuple(_top(x) for x in t[1:])
    return t


_BUILTIN_RET = {"len": "int", "int": "int", "float": "float", "str": "str", "bool": "bool", "abs": "float", "round": "float", "sum": "float", "repr": "str", "hash": "int", "id": "int", "ord": "int", "chr": "str"}


class FuncTypes:
    """Types of expressions inside one function."""

    def __init__(self, types: Types, fi: FuncInfo, preset: Optional[Dict[str, T]] = None, outer: Optional[Dict[str, T]] = None):
        self.ty, self.fi = types, fi
        self.repo = types.repo
        self.env: Dict[str, T] = {}
        self.adds: Dict[str, T] = {}  # textual container expr -> joined type of elements added
        self.keys: Dict[str, T] = {}  # dict name -> joined type of the keys it is subscripted with
        self.vals: Dict[str, T] = {}  # dict name (created in this function) -> joined type of the values stored by `name[k] = v`
        self.preset = dict(preset or {})  # call-site types of unannotated parameters (Types.ret_ctx)
        self.outer = dict(outer or {})  # types of the enclosing function's names (helper nested in a function)
        self._busy: set = set()
        self._params()
        # least fixpoint: unbound names are bottom (None) while iterating, unknown (top) afterwards
        self._fix = True
        for _ in range(8):
            before = (dict(self.env), dict(self.adds), dict(self.keys), dict(self.vals))
            self._scan()
            if (self.env, self.adds, self.keys, self.vals) == before:
                break
        self._fix = False
        self._rt_cache = {}
        for d in (self.env, self.adds, self.keys, self.vals):
            for k in list(d):
                d[k] = _top(d[k])

    def _params(self) -> None:
        a = self.fi.node.args
        for p in a.posonlyargs + a.args + a.kwonlyargs:
            if p.arg == "self" and self.fi.cls is not None:
                self.env["self"] = ("cls", self.fi.module.name, self.fi.cls.name)
            else:
                t = self.ty.ann(self.fi.module.name, p.annotation)
                if t == UNK and p.arg in self.preset and self.preset[p.arg] is not None:
                    t = self.preset[p.arg]
                self.env[p.arg] = t

    def _bind(self, t: ast.AST, ty: T) -> None:
        if isinstance(t, ast.Name):
            if t.id in self.env and t.id in [p.arg for p in self.fi.node.args.args] and self.env[t.id] != UNK:
                self.env[t.id] = join(self.env[t.id], ty)
            else:
                self.env[t.id] = join(self.env.get(t.id), ty) if t.id in self.env else ty
        elif isinstance(t, (ast.Tuple, ast.List)):
            for i, e in enumerate(t.elts):
                if isinstance(ty, tuple) and ty[0] == "tuple" and i < len(ty[1]) and len(ty[1]) == len(t.elts):
                    self._bind(e, ty[1][i])
                elif isinstance(ty, tuple) and ty[0] == "cls" and ty[2] == "Entry" and len(t.elts) == 3:
                    self._bind(e, ("int", "str", "int")[i])
                else:
                    self._bind(e, elem(ty))
        elif isinstance(t, ast.Starred):
            self._bind(t.value, ("list", elem(ty)))

    def _scan(self) -> None:
        self._rt_cache = {}  # reaching-type answers are valid for one round of the fixpoint only
        for n in astq.walk_no_nested(self.fi.node):
            if isinstance(n, ast.Assign):
                ty = self.of(n.value)
                for t in n.targets:
                    self._bind(t, ty)
                    if isinstance(t, ast.Subscript) and isinstance(t.value, ast.Name) and not isinstance(t.slice, ast.Slice) and self._local_dict(t.value.id):
                        self.vals[t.value.id] = join(self.vals.get(t.value.id), ty)
            elif isinstance(n, ast.AnnAssign):
                ty = self.ty.ann(self.fi.module.name, n.annotation)
                if ty == UNK and n.value is not None:
                    ty = self.of(n.value)
                self._bind(n.target, ty)
            elif isinstance(n, (ast.For, ast.AsyncFor)):
                self._bind(n.target, elem(self.of(n.iter)))
            elif isinstance(n, ast.NamedExpr):
                self._bind(n.target, self.of(n.value))
            elif isinstance(n, ast.With):
                for it in n.items:
                    if it.optional_vars is not None:
                        self._bind(it.optional_vars, UNK)
            elif isinstance(n, ast.Call) and isinstance(n.func, ast.Attribute) and n.func.attr in ("add", "append") and n.args:
                key = ast.unparse(n.func.value)
                self.adds[key] = join(self.adds.get(key), self.of(n.args[0]))
            elif isinstance(n, ast.Call) and isinstance(n.func, ast.Attribute) and n.func.attr in ("update", "extend") and n.args:
                key = ast.unparse(n.func.value)
                self.adds[key] = join(self.adds.get(key), elem(self.of(n.args[0])))

        def visit(n: ast.AST, top: bool = False) -> None:
            if not top and isinstance(n, (ast.FunctionDef, ast.AsyncFunctionDef, ast.ClassDef, ast.Lambda)):
                return
            if isinstance(n, (ast.ListComp, ast.SetComp, ast.GeneratorExp, ast.DictComp)):
                # the variables of a comprehension exist inside it only: subscripts in there are typed with them bound
                saved = dict(self.env)
                try:
                    for g in n.generators:
                        visit(g.iter)
                        self._bind(g.target, elem(self.of(g.iter)))
                        for c in g.ifs:
                            visit(c)
                    for c in ([n.key, n.value] if isinstance(n, ast.DictComp) else [n.elt]):
                        visit(c)
                finally:
                    self.env = saved
                return
            if isinstance(n, ast.Subscript) and not isinstance(n.slice, ast.Slice):
                bt = self.env.get(n.value.id) if isinstance(n.value, ast.Name) else None
                if isinstance(bt, tuple) and bt[0] == "dict":
                    self.keys[n.value.id] = join(self.keys.get(n.value.id), self.of(n.slice))
            for c in ast.iter_child_nodes(n):
                visit(c)

        visit(self.fi.node, top=True)

    def _local_dict(self, name: str) -> bool:
        """`name` is a dict created in this function and bound only by plain assignments of new dicts ({}, {k: v ...}, dict(...),
        dict.fromkeys(...), defaultdict(...), a dict comprehension): everything it holds was put in here."""
        if name in [p.arg for p in self.fi.node.args.posonlyargs + self.fi.node.args.args + self.fi.node.args.kwonlyargs]:
            return False
        defs = astq.assignments(self.fi.node, name)
        if not defs:
            return False
        for st, v in defs:
            if not isinstance(st, (ast.Assign, ast.AnnAssign)):
                return False
            ok = isinstance(v, (ast.Dict, ast.DictComp)) or (isinstance(v, ast.Call) and (astq.dotted(v.func) or "") in ("dict", "defaultdict", "collections.defaultdict", "OrderedDict", "collections.OrderedDict", "dict.fromkeys"))
            if not ok:
                return False
        return True

    def _refine(self, e: ast.AST, t: T) -> T:
        """A container built empty gets its element type from what is added to it."""
        key = ast.unparse(e)
        if isinstance(t, tuple) and t[0] == "dict" and isinstance(e, ast.Name):
            k, v = t[1], t[2]
            if k in (UNK, None) and e.id in self.keys:
                k = self.keys[e.id]
            if e.id in self.vals and not (isinstance(v, tuple) and v[0] in ("set", "list")):
                if v in (UNK, None) and not self._has_literal_values(e.id):
                    v = self.vals[e.id]  # built empty: the values are what is stored
            if isinstance(v, tuple) and v[0] in ("set", "list") and v[1] in (UNK, None):
                a = None
                for k2, x in self.adds.items():
                    if k2.startswith(e.id + "["):
                        a = join(a, x)
                if a is not None:
                    v = (v[0], a)
            return ("dict", k, v)
        if isinstance(t, tuple) and t[0] in ("set", "list") and t[1] in (UNK, None):
            a = self.adds.get(key)
            if a is None:
                # d[k].add(x) where e is d[k'] of a dict-of-sets: any subscript of the same base
                if isinstance(e, ast.Subscript):
                    base = ast.unparse(e.value)
                    for k2, v in self.adds.items():
                        if k2.startswith(base + "["):
                            a = join(a, v)
            if a is not None:
                t = (t[0], a)
        if isinstance(t, tuple) and t[0] == "list" and isinstance(t[1], tuple) and len(t[1]) == 2 and t[1][0] in ("set", "list") and t[1][1] in (UNK, None):
            # a list of containers built empty and filled through a subscript (`unique.append(set()); unique[-1].add(x)`)
            a = None
            for k2, v in self.adds.items():
                if k2.startswith(key + "["):
                    a = join(a, v)
            if a is not None:
                return (t[0], (t[1][0], a))
        return t

    def _is_instance_member(self, bt: T, attr: str) -> bool:
        """attr of the class object bt is a method / property / dataclass field (not a value kept in the class body)"""
        node = self.repo.modules[bt[1]].classes.get(bt[2])
        if node is None:
            return True
        for b in node.body:
            if isinstance(b, ast.FunctionDef) and b.name == attr:
                return True
            if isinstance(b, ast.AnnAssign) and isinstance(b.target, ast.Name) and b.target.id == attr and b.value is None:
                return True
        return False

    def _has_literal_values(self, name: str) -> bool:
        """some defining expression of the dict `name` already supplies values (their type is part of the declared type)"""
        for st, v in astq.assignments(self.fi.node, name):
            if isinstance(v, ast.Dict) and v.values:
                return True
            if isinstance(v, ast.DictComp):
                return True
            if isinstance(v, ast.Call) and (v.args or v.keywords) and (astq.dotted(v.func) or "") in ("dict", "dict.fromkeys", "OrderedDict"):
                return True
        return False

    def of(self, e: Optional[ast.AST]) -> T:
        t = self._of(e)
        return t if self._fix else _top(t)

    # ---- reaching definitions of a reused name ------------------------------------------------------------------------
    def _layout(self):
        """statement -> (block, index, parent statement); expression node -> its statement (nested defs excluded)."""
        if getattr(self, "_lay", None) is not None:
            return self._lay
        where: Dict[int, Tuple[list, int, Optional[ast.AST]]] = {}
        stmt_of: Dict[int, ast.AST] = {}

        def block(stmts, parent):
            for i, st in enumerate(stmts):
                where[id(st)] = (stmts, i, parent)
                if isinstance(st, (ast.FunctionDef, ast.AsyncFunctionDef, ast.ClassDef)):
                    continue
                for fld in ("body", "orelse", "finalbody"):
                    b = getattr(st, fld, None)
                    if isinstance(b, list) and b and isinstance(b[0], ast.stmt):
                        block(b, st)
                for h in getattr(st, "handlers", []) or []:
                    block(h.body, st)
                for n in ast.walk(st):
                    if isinstance(n, ast.expr) and id(n) not in stmt_of:
                        stmt_of[id(n)] = st

        block(self.fi.node.body, None)
        # the innermost statement wins: walk again, deeper statements overwrite
        def assign(stmts):
            for st in stmts:
                if isinstance(st, (ast.FunctionDef, ast.AsyncFunctionDef, ast.ClassDef)):
                    continue
                heads = [getattr(st, f, None) for f in ("test", "iter", "value", "target", "targets", "items", "exc", "msg")]
                for h in heads:
                    for x in (h if isinstance(h, list) else [h]):
                        if isinstance(x, ast.AST):
                            for n in ast.walk(x):
                                stmt_of[id(n)] = st
                for fld in ("body", "orelse", "finalbody"):
                    b = getattr(st, fld, None)
                    if isinstance(b, list) and b and isinstance(b[0], ast.stmt):
                        assign(b)
                for h in getattr(st, "handlers", []) or []:
                    assign(h.body)

        assign(self.fi.node.body)
        self._lay = (where, stmt_of)
        return self._lay

    def _def_index(self):
        """name -> its plain `name = value` statements; names that are (also) bound by a loop, with, walrus, tuple target, parameter ..."""
        if getattr(self, "_defidx", None) is not None:
            return self._defidx
        plain: Dict[str, List[ast.Assign]] = {}
        other = {a.arg for a in self.fi.node.args.args + self.fi.node.args.kwonlyargs + self.fi.node.args.posonlyargs}
        if self.fi.node.args.vararg:
            other.add(self.fi.node.args.vararg.arg)
        if self.fi.node.args.kwarg:
            other.add(self.fi.node.args.kwarg.arg)
        for n in astq.walk_no_nested(self.fi.node):
            if isinstance(n, ast.Assign):
                for t in n.targets:
                    if isinstance(t, ast.Name):
                        plain.setdefault(t.id, []).append(n)
                    else:
                        other |= {x.id for x in ast.walk(t) if isinstance(x, ast.Name) and isinstance(x.ctx, ast.Store)}
            elif isinstance(n, (ast.AnnAssign, ast.AugAssign, ast.For, ast.AsyncFor, ast.NamedExpr, ast.comprehension)):
                other |= {x.id for x in ast.walk(n.target) if isinstance(x, ast.Name)}
            elif isinstance(n, ast.With):
                for it in n.items:
                    if it.optional_vars is not None:
                        other |= {x.id for x in ast.walk(it.optional_vars) if isinstance(x, ast.Name)}
            elif isinstance(n, (ast.Global, ast.Nonlocal)):
                other |= set(n.names)
            elif isinstance(n, ast.ExceptHandler) and n.name:
                other.add(n.name)
        self._defidx = (plain, other)
        return self._defidx

    def _ancestors(self, st) -> List[ast.AST]:
        where, _ = self._layout()
        out = []
        cur = st
        while cur is not None and id(cur) in where:
            out.append(cur)
            cur = where[id(cur)][2]
        return out

    def _reaching_type(self, use: ast.Name) -> Optional[T]:
        """Join of the types of the plain `name = value` definitions that can reach this use; None when that cannot be told."""
        if id(use) in self._busy:
            return None
        cache = self.__dict__.setdefault("_rt_cache", {})
        if id(use) in cache:
            return cache[id(use)]
        if len(self._busy) > 12:
            return None  # nested chains of reused names: give up on precision (unknown), never on termination
        cache[id(use)] = None  # provisional: a cyclic question about the same use reads 'cannot be told'
        r = self._reaching_type_uncached(use)
        cache[id(use)] = r
        return r

    def _loop_variable_type(self, use: ast.Name) -> Optional[T]:
        """The use lies in the body of a `for` loop whose target binds the name, and nothing else binds it inside that body: every
        iteration rebinds it before the body runs, so at the use it has the type the loop gives it - whatever the name holds elsewhere."""
        where, stmt_of = self._layout()
        ust = stmt_of.get(id(use))
        if ust is None:
            return None
        for a in self._ancestors(ust):
            if not isinstance(a, (ast.For, ast.AsyncFor)):
                continue
            if use.id not in {x.id for x in ast.walk(a.target) if isinstance(x, ast.Name)}:
                continue
            in_body = any(n is use for st in a.body for n in ast.walk(st))
            if not in_body:
                return None
            for st in a.body:
                for n in astq.walk_no_nested(st):
                    if isinstance(n, ast.Name) and n.id == use.id and isinstance(n.ctx, (ast.Store, ast.Del)):
                        return None
                    if isinstance(n, (ast.ListComp, ast.SetComp, ast.DictComp, ast.GeneratorExp)) and any(n2 is use for n2 in ast.walk(n)) and any(use.id in {x.id for x in ast.walk(g.target) if isinstance(x, ast.Name)} for g in n.generators):
                        return None  # the use reads a comprehension variable of the same name
            self._busy.add(id(use))
            saved = self.env
            try:
                self.env = {k: v for k, v in saved.items() if k != use.id}
                self._bind(a.target, elem(self.of(a.iter)))
                return self.env.get(use.id)
            finally:
                self.env = saved
                self._busy.discard(id(use))
        return None

    def _reaching_type_uncached(self, use: ast.Name) -> Optional[T]:
        lt = self._loop_variable_type(use)
        if lt is not None and lt != UNK:
            return lt
        plain, other = self._def_index()
        if use.id in other:
            return None  # bound in another way somewhere: keep the joined (unknown) reading
        defs = plain.get(use.id, [])
        if len(defs) < 2:
            return None
        where, stmt_of = self._layout()
        ust = stmt_of.get(id(use))
        if ust is None:
            return None
        u_anc = self._ancestors(ust)
        u_loops = [a for a in u_anc if isinstance(a, (ast.For, ast.While, ast.AsyncFor))]
        reach = []
        for d in defs:
            if d is ust:
                continue
            before = (d.lineno, d.col_offset) < (use.lineno, use.col_offset)
            shares_loop = any(l in self._ancestors(d) for l in u_loops)
            if before or shares_loop:
                reach.append(d)
        # a definition that sits unconditionally on the straight way to the use hides every earlier one
        killers = []
        for d in reach:
            if (d.lineno, d.col_offset) >= (use.lineno, use.col_offset):
                continue
            blk, idx, _ = where[id(d)]
            for a in u_anc:
                if id(a) in where and where[id(a)][0] is blk and where[id(a)][1] > idx:
                    killers.append(d)
                    break
        if killers:
            last = max(killers, key=lambda d: (d.lineno, d.col_offset))
            reach = [d for d in reach if (d.lineno, d.col_offset) >= (last.lineno, last.col_offset) or any(l in self._ancestors(d) for l in u_loops) and (d.lineno, d.col_offset) > (use.lineno, use.col_offset)]
        if not reach:
            return None
        r = None
        self._busy.add(id(use))
        try:
            for d in reach:
                r = join(r, self.of(d.value))
        finally:
            self._busy.discard(id(use))
        return r

    def _of(self, e: Optional[ast.AST]) -> T:
        if e is None:
            return "none"
        if isinstance(e, ast.Constant):
            return PRIM.get(type(e.value).__name__, UNK)
        if isinstance(e, ast.JoinedStr):
            return "str"
        if isinstance(e, ast.Name):
            if e.id in self.env:
                t0 = self.env[e.id]
                if t0 == UNK:
                    # a name reused for values of different types joins to unknown; at this use only the definitions that can reach it count
                    t1 = self._reaching_type(e)
                    if t1 is not None and t1 != UNK:
                        return self._refine(e, t1)
                return self._refine(e, t0)
            if e.id in ("True", "False"):
                return "bool"
            if self._fix and astq.assignments(self.fi.node, e.id):
                return None  # bound later in the fixpoint iteration
            if e.id in self.outer:
                return self.outer[e.id]
            t = self.ty.const_type(self.fi.module.name, e.id)
            if t == UNK:
                ct = self.ty._cls(self.fi.module.name, e.id)
                if ct != UNK:
                    return ("clsobj", ct[1], ct[2])  # the class itself: `Residue3D.table`
            return t
        if isinstance(e, ast.Tuple):
            return ("tuple", tuple(self.of(x) for x in e.elts))
        if isinstance(e, ast.List):
            r = None
            for x in e.elts:
                r = join(r, self.of(x))
            return ("list", r)
        if isinstance(e, ast.Set):
            r = None
            for x in e.elts:
                r = join(r, self.of(x))
            return ("set", r if r is not None else UNK)
        if isinstance(e, ast.Dict):
            k = v = None
            for a, b in zip(e.keys, e.values):
                if a is not None:
                    k, v = join(k, self.of(a)), join(v, self.of(b))
            return ("dict", k, v)
        if isinstance(e, (ast.ListComp, ast.GeneratorExp, ast.SetComp, ast.DictComp)):
            saved = dict(self.env)
            try:
                for g in e.generators:
                    self._bind(g.target, elem(self.of(g.iter)))
                if isinstance(e, ast.DictComp):
                    return ("dict", self.of(e.key), self.of(e.value))
                t = self.of(e.elt)
                return ("set", t) if isinstance(e, ast.SetComp) else ("list", t)
            finally:
                self.env = saved
        if isinstance(e, ast.IfExp):
            return join(self.of(e.body), self.of(e.orelse))
        if isinstance(e, ast.BoolOp):
            r = None
            for v in e.values:
                r = join(r, self.of(v))
            return r
        if isinstance(e, ast.Compare):
            return "bool"
        if isinstance(e, ast.UnaryOp):
            return "bool" if isinstance(e.op, ast.Not) else self.of(e.operand)
        if isinstance(e, ast.BinOp):
            a, b = self.of(e.left), self.of(e.right)
            if isinstance(a, tuple) and a[0] in ("set", "frozenset") and isinstance(e.op, (ast.BitOr, ast.BitAnd, ast.Sub, ast.BitXor)):
                return (a[0], join(a[1], elem(b))) if isinstance(e.op, (ast.BitOr, ast.BitXor)) else a
            if isinstance(a, tuple) and a[0] == "list" and isinstance(e.op, ast.Add):
                return ("list", join(a[1], elem(b)))
            if a == "str" or b == "str":
                return "str"
            if a in ("int", "float", "bool") and b in ("int", "float", "bool"):
                return "int" if a == b == "int" and not isinstance(e.op, ast.Div) else "float"
            return UNK
        if isinstance(e, ast.Attribute):
            bt = self.of(e.value)
            if isinstance(bt, tuple) and bt[0] == "clsobj":
                m = self.ty.member(("cls", bt[1], bt[2]), e.attr) if not self._is_instance_member(bt, e.attr) else UNK
                return self._refine(e, m)
            m = self.ty.member(bt, e.attr)
            return self._refine(e, m)
        if isinstance(e, ast.Subscript):
            bt = self._refine(e.value, self.of(e.value))
            if isinstance(e.slice, ast.Slice):
                return bt
            if isinstance(bt, tuple):
                if bt[0] == "dict":
                    return self._refine(e, bt[2])
                if bt[0] == "tuple" and isinstance(e.slice, ast.Constant) and isinstance(e.slice.value, int) and -len(bt[1]) <= e.slice.value < len(bt[1]):
                    return bt[1][e.slice.value]
                return self._refine(e, elem(bt))
            if bt == "str":
                return "str"
            return UNK
        if isinstance(e, ast.Call):
            return self._call(e)
        if isinstance(e, ast.Starred):
            return self.of(e.value)
        if isinstance(e, ast.NamedExpr):
            return self.of(e.value)
        if isinstance(e, ast.Lambda):
            return UNK
        return UNK

    def _ret_at(self, fi: FuncInfo, c: ast.Call, offset: Optional[int] = None, outer: Optional[Dict[str, T]] = None) -> T:
        """Return type of the package function fi for this call: the declared / inferred type, and when that leaves something unknown
        and fi has unannotated parameters, the type inferred with the parameters bound to this call's argument types."""
        r = self.ty.ret(fi) if outer is None else UNK
        if not _has_unknown(r):
            return r
        a = fi.node.args
        params = [p for p in a.posonlyargs + a.args]
        if offset is None:
            offset = 1 if (fi.cls is not None and params and params[0].arg in ("self", "cls") and "staticmethod" not in fi.decorators) else 0
        params = params[offset:]
        if not any(p.annotation is None for p in params + a.kwonlyargs) and outer is None:
            return r
        argt: Dict[str, T] = {}
        for p, x in zip(params, c.args):
            if isinstance(x, ast.Starred):
                break
            argt[p.arg] = self.of(x)
        for kw in c.keywords:
            if kw.arg:
                argt[kw.arg] = self.of(kw.value)
        if self._fix and any(_has_bottom(v) for v in argt.values()):
            return None  # an argument is not typed yet in this round of the fixpoint: bottom, not unknown
        argt = {k: v for k, v in argt.items() if v is not None}
        r2 = self.ty.ret_ctx(fi, argt, outer)
        return r2 if (r == UNK or not _has_unknown(r2)) else r

    def _nested_def(self, name: str) -> Optional[FuncInfo]:
        for n in ast.walk(self.fi.node):
            if isinstance(n, ast.FunctionDef) and n is not self.fi.node and n.name == name:
                q = f"{self.fi.qualname}.<locals>.{name}"
                return self.fi.module.funcs.get(q) or FuncInfo(self.fi.module, q, n, None)
        return None

    def _call(self, c: ast.Call) -> T:
        f = c.func
        name = astq.callee_name(c)
        args = c.args
        if isinstance(f, ast.Name):
            if name in _BUILTIN_RET:
                return _BUILTIN_RET[name]
            if name == "range":
                return ("list", "int")
            if name in ("list", "sorted", "reversed", "tuple", "iter", "filter"):
                src = args[-1] if args else None
                return ("list", elem(self.of(src))) if src is not None else ("list", UNK)
            if name in ("set", "frozenset"):
                return (name, elem(self.of(args[0])) if args else None)
            if name == "dict":
                return self.of(args[0]) if args else ("dict", None, None)
            if name == "enumerate":
                return ("list", ("tuple", ("int", elem(self.of(args[0])))))
            if name == "zip":
                return ("list", ("tuple", tuple(elem(self.of(a)) for a in args)))
            if name in ("min", "max", "next"):
                if len(args) == 1:
                    return elem(self.of(args[0]))
                if name == "next" and len(args) == 2:
                    if isinstance(args[1], ast.Constant) and args[1].value is None:
                        return elem(self.of(args[0]))  # Optional[T]: None never enters a container of T here
                    return join(elem(self.of(args[0])), self.of(args[1]))
                return UNK
            if name == "map":
                if args and isinstance(args[0], ast.Name) and args[0].id in _BUILTIN_RET:
                    return ("list", _BUILTIN_RET[args[0].id])
                return ("list", UNK)
            if name == "defaultdict":
                if args and isinstance(args[0], ast.Name):
                    inner = {"set": ("set", None), "list": ("list", None), "int": "int", "dict": ("dict", None, None), "OrderedSet": ("list", None)}.get(args[0].id, UNK)
                    return ("dict", None, inner)
                return ("dict", None, UNK)
            if name == "Counter":
                return ("dict", elem(self.of(args[0])) if args else UNK, "int")
            if name == "OrderedSet":
                return ("list", elem(self.of(args[0])) if args else UNK)
            ct = self.ty._cls(self.fi.module.name, name)
            if ct != UNK:
                return ct
            try:  # X = namedtuple("X", [...]) at module level: instances are tuples of the argument types
                hm0, hn0 = self.repo.const_home(self.fi.module.name, name)
                ce = self.repo.modules[hm0].consts.get(hn0)
                if isinstance(ce, ast.Call) and astq.callee_name(ce) in ("namedtuple", "NamedTuple"):
                    return ("tuple", tuple(self.of(a) for a in args))
            except Exception:
                pass
            nd = self._nested_def(name)
            if nd is not None:
                outer = {k: v for k, v in {**self.outer, **self.env}.items() if v is not None}
                return self._ret_at(nd, c, 0, outer)
            try:
                hm, hn = self.repo.const_home(self.fi.module.name, name)
                fi = self.repo.modules[hm].funcs.get(hn)
                if fi is not None:
                    return self._ret_at(fi, c)
            except Exception:
                pass
            return UNK
        if isinstance(f, ast.Attribute):
            d = astq.dotted(f)
            if d in ("itertools.filterfalse", "itertools.takewhile", "itertools.dropwhile") and len(args) == 2:
                return ("list", elem(self.of(args[1])))
            if d in ("itertools.islice", "itertools.accumulate", "itertools.cycle", "itertools.tee") and args:
                return ("list", elem(self.of(args[0])))
            if d == "itertools.count" and all(self.of(a) == "int" for a in args):
                return ("list", "int")
            if d == "itertools.repeat" and args:
                return ("list", self.of(args[0]))
            if d == "itertools.groupby" and args:
                return ("list", ("tuple", (UNK, ("list", elem(self.of(args[0]))))))
            if d in ("itertools.zip_longest",):
                return ("list", ("tuple", tuple(elem(self.of(a)) for a in args)))
            if d == "itertools.pairwise" and args:
                return ("list", ("tuple", (elem(self.of(args[0])), elem(self.of(args[0])))))
            if d in ("itertools.combinations", "itertools.permutations"):
                return ("list", ("tupleof", elem(self.of(args[0])) if args else UNK))
            if d == "itertools.product":
                r = None
                for a in args:
                    if isinstance(a, ast.Starred):
                        r = join(r, elem(elem(self._refine(a.value, self.of(a.value)))))  # product(*L): every member of L contributes its elements
                    else:
                        r = join(r, elem(self._refine(a, self.of(a))))
                return ("list", ("tupleof", r if r is not None else UNK))
            if d == "itertools.chain.from_iterable":
                return ("list", elem(elem(self._refine(args[0], self.of(args[0])))) if args else UNK)
            if d in ("itertools.chain",):
                r = None
                for a in args:
                    r = join(r, elem(self.of(a)))
                return ("list", r if r is not None else UNK)
            if d == "dict.fromkeys":
                return ("dict", elem(self.of(args[0])) if args else UNK, self.of(args[1]) if len(args) > 1 else UNK)
            if name == "query_pairs":
                return ("set", ("tuple", ("int", "int")))
            if name == "getRowList":  # mmcif DataCategory: rows are lists of str
                return ("list", ("list", "str"))
            if name == "getAttributeList":
                return ("list", "str")
            bt = self.of(f.value)
            if bt is None and self._fix:
                return None  # the receiver is not typed yet in this round of the fixpoint: bottom, not unknown
            bt = self._refine(f.value, bt)
            if isinstance(bt, tuple):
                if bt[0] == "dict":
                    if name == "items":
                        return ("list", ("tuple", (bt[1], bt[2])))
                    if name == "keys":
                        return ("list", bt[1])
                    if name == "values":
                        return ("list", bt[2])
                    if name in ("get", "pop", "setdefault"):
                        return bt[2]
                    if name == "most_common":
                        return ("list", ("tuple", (bt[1], "int")))
                    if name == "copy":
                        return bt
                if bt[0] in ("set", "frozenset"):
                    if name in ("union", "intersection", "difference", "symmetric_difference", "copy"):
                        return bt
                    if name == "pop":
                        return bt[1]
                    if name in ("issubset", "issuperset", "isdisjoint"):
                        return "bool"
                if bt[0] == "list":
                    if name == "pop":
                        return bt[1]
                    if name == "copy":
                        return bt
                    if name in ("index", "count"):
                        return "int"
                if bt[0] == "cls":
                    # repo method
                    fi = self.repo.modules[bt[1]].funcs.get(f"{bt[2]}.{name}")
                    if fi is not None:
                        return self._ret_at(fi, c)
            if bt == "str":
                if name in ("split", "splitlines"):
                    return ("list", "str")
                if name in ("join", "strip", "upper", "lower", "replace", "format", "rstrip", "lstrip", "ljust", "rjust"):
                    return "str"
                if name in ("startswith", "endswith", "isdigit", "isalpha", "isspace"):
                    return "bool"
            if name == "join":
                return "str"
            # Class.method(...)
            if isinstance(f.value, ast.Name):
                ct = self.ty._cls(self.fi.module.name, f.value.id)
                if ct != UNK:
                    fi = self.repo.modules[ct[1]].funcs.get(f"{ct[2]}.{name}")
                    if fi is not None:
                        r = self._ret_at(fi, c)
                        return r if r != UNK else (ct if "staticmethod" in fi.decorators and name.startswith("from_") else UNK)
            return UNK
        return UNK
