#!/bin/sh
# Runs the repository's pinned baseline (guard OFF) and compares with /root/.vp/BASELINE.json.
# usage: tools/baseline.sh [repo_dir]
REPO="${1:-/repo}"
OUT="$(mktemp -d)"
unset TZOK_RNAPOLIS_PY_VERIF
cd "$REPO" && PYTHONPATH="$REPO/src" /venv/bin/python -m pytest -ra -q -p no:cacheprovider --timeout=900 --continue-on-collection-errors --junitxml="$OUT/j.xml" -n 8 >"$OUT/log" 2>&1 || \
  (cd "$REPO" && PYTHONPATH="$REPO/src" /venv/bin/python -m pytest -ra -q -p no:cacheprovider --timeout=900 --continue-on-collection-errors --junitxml="$OUT/j.xml" >"$OUT/log" 2>&1)
/venv/bin/python - "$OUT/j.xml" <<'PY'
import sys, json, xml.etree.ElementTree as ET
base = json.load(open('/root/.vp/BASELINE.json'))
want = set(base['stable_pass'])
t = ET.parse(sys.argv[1])
passed = set()
for tc in t.iter('testcase'):
    bad = any(c.tag in ('failure', 'error', 'skipped') for c in tc)
    name = f"{tc.get('classname')}::{tc.get('name')}"
    if not bad:
        passed.add(name)
missing = sorted(want - passed)
print(f"baseline: {len(want & passed)}/{len(want)} stable tests pass; extra passing: {sorted(passed - want)}")
if missing:
    print("MISSING:", missing); sys.exit(1)
PY
rc=$?
tail -3 "$OUT/log"
rm -rf "$OUT"
exit $rc
