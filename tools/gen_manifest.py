#!/venv/bin/python
"""Regenerates MANIFEST.json from checks/*.py (each check module carries its own claim text in MANIFEST_ENTRY)."""
import importlib, json, os, sys

V = os.path.dirname(os.path.dirname(os.path.abspath(__file__)))
sys.path.insert(0, V)
props = [json.loads(l) for l in open(os.path.join(V, "properties.jsonl"))]
checks, na = [], []
DECLINED = {}
try:
    DECLINED = json.load(open(os.path.join(V, "spec", "declined.json")))
except OSError:
    pass
for p in props:
    pid = p["id"]
    path = os.path.join(V, "checks", pid.lower() + ".py")
    entry = None
    if os.path.exists(path):
        mod = importlib.import_module("checks." + pid.lower())
        entry = getattr(mod, "MANIFEST_ENTRY", None)
    if entry is None:
        na.append({"property_id": pid, "reason": DECLINED.get(pid, "static check not built yet in this round (see DESIGN.md §4 for the planned rules)")})
        continue
    from sa import memo as _memo

    cross = ""
    if pid in _memo.ENTRIES:
        cross = (" Cross-cutting rules run after the property's own and are attributed to it through the call graph of its entry points: memo-key-state (a memo's key covers the state the memoised code reads), "
                 "identity-equality (record classes compare their identity fields; spec/identity.json) and diagnostic-purity (nothing evaluated for a log message consumes, mutates or creates state that outlives it; sa/diag.py).")
    checks.append(
        {
            "property_id": pid,
            "quick_cmd": f"./vcheck {pid} --tier quick",
            "thorough_cmd": f"./vcheck {pid} --tier thorough",
            "evidence_file": f"evidence/{pid}.json",
            "replay_cmd_template": f"./vcheck {pid} --replay {{path}}",
            "engine": "sa",
            "level_claimed": {"category": "other", "text": entry["text"] + cross, "design_ref": f"DESIGN.md §4 {pid}"},
            "level_note": entry["note"],
            "technique": entry["technique"],
        }
    )
_kf = json.load(open(os.path.join(V, "known_findings.json")))["findings"]
N_FIXED = sum(1 for f in _kf if f.get("status") == "fixed")
N_KNOWN = sum(1 for f in _kf if f.get("status") == "known")
KNOWN_PIDS = ", ".join(sorted({f["property"] for f in _kf if f.get("status") == "known"}))
man = {
    "version": 1,
    "setup_cmd": "/venv/bin/python -B -c \"import ast,glob,sys; [ast.parse(open(f).read(), f) for f in glob.glob('sa/*.py')+glob.glob('checks/*.py')]\"",
    "hooks": {
        "guard": "TZOK_RNAPOLIS_PY_VERIF",
        "enable": "no hooks: the checks read /repo/src/rnapolis/*.py as text and never import or run it",
        "baseline_off_cmd": "cd /repo && /venv/bin/python -m pytest -ra -q -p no:cacheprovider --timeout=900 --continue-on-collection-errors",
        "source_commits": [],
        "add_only": True,
    },
    "engines": [
        {
            "name": "sa",
            "path": "sa/",
            "serves_properties": [c["property_id"] for c in checks],
            "kind_free_text": "repository-specific static analysis over Python ast (stdlib only): source model, constant folding, structured path conditions (dominating guards), order-type/interval evaluation of comparison predicates, affine loop summaries, effect/alias, iteration-order taint, sibling-table agreement, polynomial normal forms; no repository code is imported or executed",
        }
    ],
    "checks": checks,
    "not_applicable": na,
    "notes": "All checks are static analyses of /repo's current source (level 'other'); each decides the structural clauses listed in DESIGN.md §4 for its property and states the residual it does not decide. Exit 0 held / 1 VIOLATION / 2 ANALYSIS-ERROR (anchor or idiom not recognised; never reported as a violation). " + f"known_findings.json lists genuine defects: {N_FIXED} repaired by fix: commits in /repo, {N_KNOWN} known ({KNOWN_PIDS}).",
}
json.dump(man, open(os.path.join(V, "MANIFEST.json"), "w"), indent=1)
print(f"MANIFEST.json: {len(checks)} checks, {len(na)} not_applicable")
