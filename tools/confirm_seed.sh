#!/bin/sh
# usage: tools/confirm_seed.sh <Cxx> <a|b>   - confirms a candidate seeded fault in its scratch worktree /tmp/wt/<Cxx>
# prints: <id> demo_clean=<rc> demo_patched=<rc> suite=<ok|fail>
P=$1; X=$2; WT=/tmp/wt/$P; OUT=/tmp/seed/$P/$X
cd "$WT" || exit 2
git checkout -q -- . 2>/dev/null
git apply --check "$OUT/patch.diff" 2>/dev/null || { echo "$P/$X patch-does-not-apply"; exit 0; }
PYTHONPATH=$WT/src /venv/bin/python "$OUT/demo.py" "$WT" >/dev/null 2>&1; C=$?
git apply "$OUT/patch.diff"
PYTHONPATH=$WT/src /venv/bin/python "$OUT/demo.py" "$WT" >/dev/null 2>&1; D=$?
S=$(/verif/tools/baseline.sh "$WT" 2>&1 | head -1)
git checkout -q -- .
echo "$P/$X demo_clean=$C demo_patched=$D suite=[$S]"
