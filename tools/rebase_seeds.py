#!/venv/bin/python
"""Re-expresses stored seed patches on /repo HEAD after `fix:` commits moved the code under them.

For every seeded/<id>/patch.diff that no longer applies to HEAD: find the commit it was written against (the newest of
BASES where `git apply --check` succeeds), apply it there, and 3-way merge each touched file with HEAD (`git merge-file`).
Without conflicts the new diff replaces patch.diff (meta.json gets a `rebased` note); with conflicts the seed is listed
for manual treatment.  Nothing is written to /repo (throw-away worktrees under /tmp).
usage: tools/rebase_seeds.py [--dry] [--dir seeded]
"""
import argparse, json, os, shutil, subprocess, sys, tempfile

VERIF = os.path.dirname(os.path.dirname(os.path.abspath(__file__)))
BASES = ["9586d82", "a74fb9f", "aed329e", "d067541", "75480c9", "da228c7"]


def sh(*a, cwd=None):
    return subprocess.run(a, cwd=cwd, capture_output=True, text=True)


def main():
    ap = argparse.ArgumentParser()
    ap.add_argument("--dry", action="store_true")
    ap.add_argument("--dir", default=os.path.join(VERIF, "seeded"))
    ap.add_argument("--favour-seed", default="", help="comma separated seed ids: conflicting hunks are resolved by taking the seed's side (use when the seed rewrites the whole construct the fix touched)")
    a = ap.parse_args()
    wts = {}

    def wt(rev):
        if rev not in wts:
            d = tempfile.mkdtemp(prefix="rebase-")
            sh("git", "-C", "/repo", "worktree", "add", "-q", "--detach", d, rev)
            wts[rev] = d
        return wts[rev]

    try:
        head = wt("HEAD")
        for name in sorted(os.listdir(a.dir)):
            p = os.path.join(a.dir, name, "patch.diff")
            if not os.path.exists(p):
                continue
            if sh("git", "apply", "--check", p, cwd=head).returncode == 0:
                continue
            base = None
            for b in BASES:
                if sh("git", "apply", "--check", p, cwd=wt(b)).returncode == 0:
                    base = b
                    break
            if base is None:
                print(f"{name}: applies to none of {BASES}")
                continue
            files = [l[6:].strip() for l in open(p) if l.startswith("+++ b/")]
            tmp = tempfile.mkdtemp(prefix="rebase-f-")
            conflicts = 0
            merged = {}
            bw = wt(base)
            sh("git", "apply", p, cwd=bw)
            try:
                for f in files:
                    mine = os.path.join(bw, f)
                    old = os.path.join(tmp, "old.py")
                    open(old, "w").write(sh("git", "-C", "/repo", "show", f"{base}:{f}").stdout)
                    extra = ["--ours"] if name in a.favour_seed.split(",") else []
                    r = sh("git", "merge-file", "-p", *extra, mine, old, os.path.join(head, f))
                    merged[f] = r.stdout
                    if r.returncode != 0:
                        conflicts += 1
            finally:
                sh("git", "checkout", "--", ".", cwd=bw)
                shutil.rmtree(tmp, ignore_errors=True)
            if conflicts:
                print(f"{name}: base {base}, {conflicts} file(s) with conflicts - manual")
                continue
            out = ""
            for f, text in merged.items():
                new = os.path.join(head, f)
                keep = open(new).read()
                open(new, "w").write(text)
                try:
                    compile(text, f, "exec")
                except SyntaxError as e:
                    print(f"{name}: merged {f} does not compile: {e}")
                out += sh("git", "diff", "--", f, cwd=head).stdout
                open(new, "w").write(keep)
            print(f"{name}: rebased from {base} ({len(out.splitlines())} lines)")
            if not a.dry:
                open(p, "w").write(out)
                mp = os.path.join(a.dir, name, "meta.json")
                if os.path.exists(mp):
                    m = json.load(open(mp))
                    m["rebased"] = (m.get("rebased", "") + "; " if m.get("rebased") else "") + f"patch.diff re-expressed on /repo HEAD by a clean 3-way merge from {base} (tools/rebase_seeds.py); demo/equiv scripts are as confirmed at {base}"
                    json.dump(m, open(mp, "w"), indent=1)
    finally:
        for d in wts.values():
            sh("git", "-C", "/repo", "worktree", "remove", "--force", d)


if __name__ == "__main__":
    main()
