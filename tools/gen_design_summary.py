#!/venv/bin/python
"""Rewrites the generated block of DESIGN.md (between the GENERATED markers) from MANIFEST.json: per property the claimed level text,
the technique and the note (what is trusted / not decided), so that the design document and the manifest cannot drift apart."""
import json, os, re

V = os.path.dirname(os.path.dirname(os.path.abspath(__file__)))
m = json.load(open(os.path.join(V, "MANIFEST.json")))
props = {json.loads(l)["id"]: json.loads(l) for l in open(os.path.join(V, "properties.jsonl"))}
out = ["<!-- GENERATED:as-built BEGIN (tools/gen_design_summary.py; do not edit by hand) -->", ""]
for c in m["checks"]:
    pid = c["property_id"]
    out.append(f"**{pid} - {props[pid]['title']}**")
    out.append("")
    out.append(f"*Decided:* {c['level_claimed']['text']}")
    out.append("")
    out.append(f"*Technique:* {c['technique']}")
    out.append("")
    out.append(f"*Trusted / not decided:* {c['level_note']}")
    out.append("")
out.append("<!-- GENERATED:as-built END -->")
block = "\n".join(out)
p = os.path.join(V, "DESIGN.md")
s = open(p).read()
if "<!-- GENERATED:as-built BEGIN" in s:
    s = re.sub(r"<!-- GENERATED:as-built BEGIN.*?<!-- GENERATED:as-built END -->", lambda _: block, s, flags=re.S)
else:
    marker = "### C01 — BPSEQ ↔ dot-bracket is lossless"
    intro = ("### 4.0 As built after rounds 3-5 (generated from the checks' own MANIFEST entries)\n\n"
             "The subsections C01 ... C20 below were written in rounds 0-2 and describe the *mechanisms* each check reads and the pinned\n"
             "forms of that time; since round 3 every one of those forms is only a fallback behind a fact-level rule (§10.9, §10.10). What each\n"
             "check decides today, by which technique, and what it leaves undecided is stated by the check itself (`MANIFEST_ENTRY` in\n"
             "`checks/cNN.py`) and copied here verbatim by `tools/gen_design_summary.py`:\n\n")
    s = s.replace(marker, intro + block + "\n\n" + marker, 1)
open(p, "w").write(s)
print("DESIGN.md as-built block written:", len(block.splitlines()), "lines")
