#!/venv/bin/python
"""Development aid (NOT part of any check, never run by vcheck / selftest): compares sa/frame.py, the pure-Python stand-in for
the pandas objects that fragment evaluation hands to interpreted library code, with the real pandas operation by operation.
It imports pandas only - nothing of rnapolis.  Run it after changing sa/frame.py:  tools/frame_model_vs_pandas.py
"""
import math
import os
import sys

sys.path.insert(0, os.path.dirname(os.path.dirname(os.path.abspath(__file__))))

import warnings

import pandas as real_pd

from sa import frame as F

warnings.simplefilter("ignore")

ROWS = [
    # chain, resSeq, iCode, name, x, model
    ("B", 5, None, "P", 1.0, 1),
    ("B", 5, None, "C4'", 2.0, 1),
    ("B", 5, "A", "P", 3.0, 1),
    ("AA", 5, None, "P", 4.0, 1),
    ("AA", 6, None, "P", 5.0, 1),
    ("B", 5, None, "N1", 6.0, 1),
    ("AA", 10000, "A", "P", 7.0, 2),
    ("B", 7, "B", "P", 8.0, 2),
]
COLS = ["chain", "resSeq", "iCode", "name", "x", "model"]


def build(pd, model: bool, index=None):
    rows = [dict(zip(COLS, r)) for r in ROWS]
    df = pd.DataFrame(rows) if index is None else pd.DataFrame(rows, index=index)
    for c in ("chain", "iCode", "name"):
        df[c] = df[c].astype("category")
    df["resSeq"] = df["resSeq"].astype("Int64")
    df.attrs["format"] = "mmCIF"
    return df


def canon(v):
    """A comparable plain value of a pandas / model result."""
    if isinstance(v, (real_pd.DataFrame, F.Frame)):
        cols = list(v.columns)
        return ("frame", [canon(x) for x in v.index], {str(c): [canon(x) for x in v[c]] for c in cols})
    if isinstance(v, (real_pd.Series, F.Series)):
        return ("series", [canon(x) for x in v.index], [canon(x) for x in v])
    if isinstance(v, (real_pd.Index, F.Index)):
        return ("index", [canon(x) for x in v])
    if isinstance(v, dict):
        return {canon(k): canon(x) for k, x in v.items()}
    if isinstance(v, (list, tuple)) or type(v).__name__ in ("ndarray", "Categorical", "Arr", "IntegerArray"):
        return [canon(x) for x in v]
    if v is None or v is real_pd.NA or (isinstance(v, float) and math.isnan(v)):
        return None
    if type(v).__module__ == "numpy":
        v = v.item()
    if isinstance(v, bool):
        return v
    if isinstance(v, float) and v == int(v):
        return int(v)
    return v


def icode_filled(df):
    return df["iCode"].astype(object).fillna("")


CASES = {
    "unique": lambda pd, df: df["chain"].unique(),
    "unique-with-na": lambda pd, df: list(df["iCode"].unique()),
    "nunique": lambda pd, df: df["chain"].nunique(),
    "len/empty": lambda pd, df: (len(df), df.empty, df.shape),
    "columns-in": lambda pd, df: ("chain" in df.columns, "zz" in df.columns, list(df.columns)),
    "to_numeric.max": lambda pd, df: pd.to_numeric(df["resSeq"], errors="coerce").max(),
    "to_numeric-str": lambda pd, df: pd.to_numeric(pd.Series(["1", "x", None, "2.5"]), errors="coerce"),
    "str.len.max": lambda pd, df: df["chain"].dropna().astype(str).str.len().max(),
    "empty-max": lambda pd, df: pd.Series([], dtype=object).max(),
    "check_df": lambda pd, df: pd.DataFrame({"chain": df["chain"], "resSeq": df["resSeq"], "iCode": icode_filled(df)}),
    "check_df-scalar": lambda pd, df: pd.DataFrame({"chain": df["chain"], "iCode": ""}),
    "groupby.apply.count": lambda pd, df: pd.DataFrame({"chain": df["chain"], "resSeq": df["resSeq"], "iCode": icode_filled(df)}).groupby("chain").apply(lambda x: x[["resSeq", "iCode"]].drop_duplicates().shape[0]),
    "groupby3.size": lambda pd, df: pd.DataFrame({"chain": df["chain"], "resSeq": df["resSeq"], "iCode": icode_filled(df)}).groupby(["chain", "resSeq", "iCode"], observed=True).size(),
    "groupby3.size.level": lambda pd, df: pd.DataFrame({"chain": df["chain"], "resSeq": df["resSeq"], "iCode": icode_filled(df)}).groupby(["chain", "resSeq", "iCode"], observed=True).size().groupby(level="chain", observed=True).size(),
    "groupby3-na.size.level": lambda pd, df: pd.DataFrame({"chain": df["chain"], "resSeq": df["resSeq"], "iCode": df["iCode"]}).groupby(["chain", "resSeq", "iCode"], observed=True).size().groupby(level="chain", observed=True).size(),
    "groupby3-na-keep": lambda pd, df: pd.DataFrame({"chain": df["chain"].astype(object), "resSeq": df["resSeq"], "iCode": df["iCode"].astype(object)}).groupby(["chain", "resSeq", "iCode"], dropna=False).size(),
    "groupby-iter": lambda pd, df: [(k, list(g.index), list(g["name"])) for k, g in df.groupby("chain", observed=True)],
    "groupby-iter-obj": lambda pd, df: [(k, list(g.index)) for k, g in df.assign(chain=df["chain"].astype(object)).groupby("chain")],
    "groupby-nosort": lambda pd, df: [(k, list(g.index)) for k, g in df.assign(chain=df["chain"].astype(object)).groupby("chain", sort=False)],
    "groupby-list1-key": lambda pd, df: [k for k, g in df.assign(chain=df["chain"].astype(object)).groupby(["chain"])],
    "drop_duplicates": lambda pd, df: df[["resSeq", "iCode"]].drop_duplicates(),
    "itertuples": lambda pd, df: [tuple(t) for t in df[["resSeq", "iCode"]].drop_duplicates().itertuples(index=False)],
    "set_index.index": lambda pd, df: list(df.set_index(["resSeq", "name"]).index),
    "index.map": lambda pd, df: df.set_index(["resSeq", "name"]).index.map({(5, "P"): 1, (6, "P"): 2}),
    "series.map": lambda pd, df: df["chain"].map({"B": "A", "AA": "B"}),
    "series.map-missing": lambda pd, df: df["chain"].astype(object).map({"B": "A"}),
    "map.astype-object": lambda pd, df: df["chain"].map({"B": "A", "AA": "B"}).astype(object),
    "loc-set-index": lambda pd, df: _loc_set(pd, df),
    "loc-set-series": lambda pd, df: _loc_set_series(pd, df),
    "setitem-scalar-none": lambda pd, df: _set_none(pd, df),
    "sort_index": lambda pd, df: df.iloc[::-1].sort_index(),
    "sort_values-stable": lambda pd, df: df.assign(chain=df["chain"].astype(object)).sort_values(["model", "chain"], kind="stable"),
    "iterrows": lambda pd, df: [(i, r["chain"], r.get("zz", 0), r.get("iCode")) for i, r in df.iterrows()],
    "shift-ne": lambda pd, df: _starts(pd, df),
    "shift-ne-nofill": lambda pd, df: (lambda k: (k != k.shift()).any(axis=1))(df[["chain", "resSeq", "iCode"]].astype(object)),
    "cumsum-groupby": lambda pd, df: _starts(pd, df).groupby(df["chain"].astype(object)).cumsum(),
    "isnull.any": lambda pd, df: (df["iCode"].isnull().any(), df["chain"].isnull().any()),
    "fillna-category-raises": lambda pd, df: _raises(lambda: df["iCode"].fillna("")),
    "fillna-category-ok": lambda pd, df: df["iCode"].cat.add_categories([""]).fillna(""),
    "cat.categories": lambda pd, df: list(df["iCode"].cat.categories),
    "is_categorical": lambda pd, df: (pd.api.types.is_categorical_dtype(df["iCode"]), pd.api.types.is_categorical_dtype(df["x"])),
    "astype-category-from-object": lambda pd, df: df["iCode"].astype(object).fillna("").astype("category"),
    "rename-drop": lambda pd, df: df.rename(columns={"chain": "chainID"}).drop(columns=["x"]),
    "astype-Int64": lambda pd, df: pd.Series([1.0, None, 3.0]).astype("Int64"),
    "eq-none-object": lambda pd, df: (pd.Series([None, "a", None], dtype=object) != pd.Series([None, "a", "b"], dtype=object)),
    "eq-nan-object": lambda pd, df: (pd.Series([float("nan"), "a"], dtype=object) != pd.Series([float("nan"), "a"], dtype=object)),
    "frame-ne-none": lambda pd, df: (lambda k: (k != k.shift()).any(axis=1))(pd.DataFrame({"a": [None, None, "x", "x"], "b": [1, 1, 1, 2]})),
    "frame-eq-none": lambda pd, df: (lambda k: (k == k.shift()).all(axis=1))(pd.DataFrame({"a": [None, None, "x", "x"], "b": [1, 1, 1, 2]})),
    "series-eq-scalar-none": lambda pd, df: (df["iCode"].astype(object) == "A", df["iCode"].astype(object) != "A"),
    "nunique-groupby": lambda pd, df: df.assign(chain=df["chain"].astype(object)).groupby("chain")["resSeq"].nunique(),
    "groupby-two-iter": lambda pd, df: [(k, list(g.index)) for k, g in df.assign(chain=df["chain"].astype(object), iCode=df["iCode"].astype(object)).groupby(["chain", "iCode"])],
    "groupby-two-iter-keepna": lambda pd, df: [(canon(k), list(g.index)) for k, g in df.assign(chain=df["chain"].astype(object), iCode=df["iCode"].astype(object)).groupby(["chain", "iCode"], dropna=False)],
    "groupby-cat-iter-na": lambda pd, df: [(k, list(g.index)) for k, g in df.groupby("iCode", observed=True)],
    "apply-axis1": lambda pd, df: df.apply(lambda r: (r["chain"], r["resSeq"]), axis=1),
    "merge-keys-tuple-map": lambda pd, df: pd.Series(list(zip(df["chain"].astype(object), df["resSeq"]))).map({("B", 5): 1}),
    "sort_values-desc": lambda pd, df: df.sort_values(["model", "x"], ascending=[False, True], kind="stable")["x"],
    "drop_duplicates-keeplast": lambda pd, df: df.drop_duplicates(subset=["chain"], keep="last")["x"],
    "iloc-row": lambda pd, df: (df.iloc[0]["chain"], df.iloc[-1]["x"]),
    "groupby-level0": lambda pd, df: df.set_index("model").groupby(level=0).size(),
    "series-sub-shift": lambda pd, df: (df["x"] - df["x"].shift()).tolist(),
    "where": lambda pd, df: df["x"].where(df["model"] == 2, 0),
    "isin": lambda pd, df: df["name"].isin(["P"]),
    "str-strip": lambda pd, df: df["name"].astype(object).str.strip().str.upper(),
    "between": lambda pd, df: (df["resSeq"].between(5, 6), df["resSeq"].between(1, 9999).all()),
    "index-ops": lambda pd, df: (pd.to_numeric(df["resSeq"].astype("category").cat.categories, errors="coerce").max(), df["chain"].cat.categories.astype(str).str.len().max(), pd.Index(df["iCode"].dropna().unique()).astype(str).str.len().max(), pd.to_numeric(pd.Index(df["x"].dropna().unique()), errors="coerce").max()),
    "abs-round": lambda pd, df: ((-df["x"]).abs().max(), df["x"].round(0).tolist()),
    "gt-scalar": lambda pd, df: (df["resSeq"] > 9999).any(),
    "nan-gt": lambda pd, df: float("nan") > 9999,
    "concat": lambda pd, df: pd.concat([df.iloc[:2], df.iloc[4:6]]),
    "cumcount": lambda pd, df: df.assign(chain=df["chain"].astype(object)).groupby("chain").cumcount(),
    "ngroup": lambda pd, df: df.assign(chain=df["chain"].astype(object)).groupby("chain").ngroup(),
    "ngroup-nosort": lambda pd, df: df.assign(chain=df["chain"].astype(object)).groupby("chain", sort=False).ngroup(),
    "transform-nunique": lambda pd, df: df.assign(chain=df["chain"].astype(object)).groupby("chain")["resSeq"].transform("nunique"),
    "reset_index": lambda pd, df: df.iloc[2:5].reset_index(drop=True),
    "duplicated": lambda pd, df: df.duplicated(subset=["chain", "resSeq", "iCode"]),
    "mask-select": lambda pd, df: df[df["model"] == 2],
    "loc-mask-col": lambda pd, df: df.loc[df["model"] == 2, "name"],
    "dropna-astype-str": lambda pd, df: df["iCode"].dropna().astype(str),
    "value_counts": lambda pd, df: df["model"].value_counts(),
    "groupby-series-size": lambda pd, df: df["x"].groupby(df["chain"].astype(object)).size(),
}


def _starts(pd, df):
    k = df[["chain", "resSeq", "iCode"]].astype(object).fillna("")
    return (k != k.shift()).any(axis=1)


def _loc_set(pd, df):
    d = df.copy()
    d["new"] = -1
    g = d.iloc[2:5]
    d.loc[g.index, "new"] = g.set_index(["resSeq", "name"]).index.map({(5, "P"): 1, (6, "P"): 2})
    return d["new"]


def _loc_set_series(pd, df):
    d = df.copy()
    d["new"] = -1
    s = pd.Series([10, 20], index=[4, 2])
    d.loc[[2, 4], "new"] = s
    d.loc[0, "new"] = 99
    return d["new"]


def _set_none(pd, df):
    d = df.copy()
    d["iCode"] = None
    return (d["iCode"], d["iCode"].isnull().any())


def _raises(f):
    try:
        f()
    except Exception as ex:
        return type(ex).__name__
    return "no exception"


def main() -> int:
    model_pd = F.pd_namespace()
    bad = 0
    for index in (None, [10, 11, 12, 13, 14, 15, 16, 17]):
        a = build(real_pd, False, index)
        b = build(model_pd, True, index)
        for name, f in CASES.items():
            try:
                ra = canon(f(real_pd, a.copy()))
            except Exception as ex:
                ra = ("raises", type(ex).__name__)
            try:
                rb = canon(f(model_pd, b.copy()))
            except Exception as ex:
                rb = ("raises", type(ex).__name__, str(ex)[:80])
            if ra != rb and not (isinstance(ra, tuple) and ra[0] == "raises" and isinstance(rb, tuple) and rb[0] == "raises"):
                bad += 1
                print(f"MISMATCH {name} (index={'default' if index is None else 'shifted'})\n   pandas: {ra}\n   model : {rb}")
    print(f"{len(CASES) * 2} comparisons, {bad} mismatches")
    return 1 if bad else 0


if __name__ == "__main__":
    sys.exit(main())
