#!/bin/sh
# usage: tools/confirm_seed2.sh <seed dir> <tag>
#   confirms a candidate change in a throw-away git worktree of /repo HEAD (outside /repo and /verif, removed afterwards):
#   the patch applies, the demonstration (bugs only) exits 0 on the clean tree and non-zero with the patch, the 45 baseline tests pass with the patch.
OUT=$1; TAG=$2
WT=$(mktemp -d /tmp/cs2.XXXXXX)
git -C /repo worktree add -q --detach "$WT" HEAD >/dev/null 2>&1 || { echo "$TAG worktree-failed"; exit 0; }
cd "$WT" || exit 2
if ! git apply --check "$OUT/patch.diff" 2>/dev/null; then echo "$TAG patch-does-not-apply"; cd /; git -C /repo worktree remove --force "$WT"; exit 0; fi
C=-; D=-
if [ -f "$OUT/demo.py" ]; then PYTHONPATH=$WT/src /venv/bin/python "$OUT/demo.py" "$WT" >/dev/null 2>&1; C=$?; fi
git apply "$OUT/patch.diff"
if [ -f "$OUT/demo.py" ]; then PYTHONPATH=$WT/src /venv/bin/python "$OUT/demo.py" "$WT" >/dev/null 2>&1; D=$?; fi
S=$(/verif/tools/baseline.sh "$WT" 2>&1 | head -1)
cd /
git -C /repo worktree remove --force "$WT"
echo "$TAG demo_clean=$C demo_patched=$D suite=[$S]"
