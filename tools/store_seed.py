#!/venv/bin/python
"""Stores a confirmed round-3 candidate under seeded/<id>/ (patch.diff, demo.py / equiv.py, meta.json).
usage: tools/store_seed.py /tmp/r3/out/C07/bug1 C07-e --caught-by C07 [--confirm /tmp/r3/confirm1.txt]"""
import argparse, json, os, shutil, sys

VERIF = os.path.dirname(os.path.dirname(os.path.abspath(__file__)))
ap = argparse.ArgumentParser()
ap.add_argument("src")
ap.add_argument("id")
ap.add_argument("--caught-by", default="")
ap.add_argument("--confirm", default="/tmp/r3/confirm1.txt")
ap.add_argument("--note", default=None)
ap.add_argument("--round", type=int, default=3)
a = ap.parse_args()
meta = json.load(open(os.path.join(a.src, "meta.json")))
tag = "/".join(a.src.rstrip("/").split("/")[-2:])
line = None
if os.path.exists(a.confirm):
    for l in open(a.confirm):
        if l.startswith(tag + " "):
            line = l.strip()
if line is None:
    sys.exit(f"{tag}: no confirmation line in {a.confirm}")
f = dict(x.split("=", 1) for x in line.split(" files=")[0].split()[1:])
suite = line.split("suite=[", 1)[1]
ok_suite = "45/45" in suite
kind = meta.get("kind")
if kind == "bug" and not (f["demo_clean"] == "0" and f["demo_patched"] not in ("0", "-") and ok_suite):
    sys.exit(f"{tag}: not confirmed: {line[:200]}")
if kind == "refactor" and not (f["equiv_clean"] in ("0", "-") and f["equiv_patched"] in ("0", "-") and ok_suite):
    sys.exit(f"{tag}: not confirmed: {line[:200]}")
dst = os.path.join(VERIF, "seeded", a.id)
os.makedirs(dst, exist_ok=True)
for fn in ("patch.diff", "demo.py", "equiv.py"):
    if os.path.exists(os.path.join(a.src, fn)):
        shutil.copy(os.path.join(a.src, fn), os.path.join(dst, fn))
out = {
    "property": meta["property"],
    "kind": kind,
    "round": a.round,
    "origin": f"independent sub-agent, round {a.round} (given only the property text and a scratch worktree; asked for three subtle property-breaking changes at different mechanisms - one of them two cooperating sites - and two behaviour-preserving refactors)",
    "summary": meta.get("summary"),
}
if kind == "bug":
    out["needs"] = meta.get("needs")
else:
    out["why_equivalent"] = meta.get("why_equivalent")
out["confirmed"] = {
    "demo_on_clean_tree_exit": f["demo_clean"],
    "demo_with_patch_exit": f["demo_patched"],
    "equiv_on_clean_tree_exit": f["equiv_clean"],
    "equiv_with_patch_exit": f["equiv_patched"],
    "baseline_suite_with_patch": suite.split(" FAILED")[0].rstrip("] "),
    "how": "tools/confirm_seed3.sh in a throw-away git worktree of /repo HEAD (removed afterwards)",
}
out["agent_ran"] = meta.get("agent_ran")
if kind == "bug":
    out["expected_exit"] = 1
    out["caught_by"] = [x for x in a.caught_by.split(",") if x] or [meta["property"]]
else:
    out["checks"] = "all"
if a.note:
    out["note"] = a.note
json.dump(out, open(os.path.join(dst, "meta.json"), "w"), indent=1)
print("stored", a.id, "<-", tag)
