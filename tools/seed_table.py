#!/venv/bin/python
"""Markdown table of the stored seeds of given rounds from seeded/*/meta.json and a `selftest/run.py --seeded` log.
usage: tools/seed_table.py <selftest log> --rounds 3,4,5,6 > table.md"""
import argparse, json, os, re, sys

VERIF = os.path.dirname(os.path.dirname(os.path.abspath(__file__)))
ap = argparse.ArgumentParser()
ap.add_argument("log")
ap.add_argument("--rounds", default="1,2,3,4,5,6,7,8")
ap.add_argument("--compact", action="store_true", help="one short row per seed (for DESIGN.md); default: long form with the summary (seeded/INDEX.md)")
a = ap.parse_args()
rounds = {int(x) for x in a.rounds.split(",")}
verdict = {}
for l in open(a.log):
    m = re.match(r"(\S+)\s+seed:(\S+)\s+(.*)", l)
    if m:
        verdict[m.group(2)] = (m.group(1), m.group(3).strip())
rows = []
for name in sorted(os.listdir(os.path.join(VERIF, "seeded"))):
    mp = os.path.join(VERIF, "seeded", name, "meta.json")
    if not os.path.exists(mp):
        continue
    m = json.load(open(mp))
    if "round" not in m and "round 1" in (m.get("origin") or ""):
        m["round"], m["kind"] = 1, m.get("kind") or "bug"
    if m.get("round") not in rounds:
        continue
    st, info = verdict.get(name, ("?", "not in the log"))
    kind = m.get("kind")
    if m.get("kind_expected") == "silent" and kind == "bug":
        kind = "bug (obsolete)"
    summ = re.sub(r"\s+", " ", (m.get("summary") or "")).replace("|", "/")[:170]
    if kind == "refactor":
        tol = m.get("tolerate_exit2") or []
        res = ("all 20 checks exit 0" if not tol else f"no check fires; {', '.join(tol)} may stop at exit 2 (idiom not read, see the seed's note)") if st == "OK" else f"**{st}**: {info[:80]}"
    elif kind == "bug":
        res = ("VIOLATION by " + info.replace(" fired", "")) if st == "OK" else f"**{st}**: {info[:80]}"
    else:
        res = "silent (no longer a fault after the repair)" if st == "OK" else f"**{st}**"
    rows.append((m.get("round"), name, kind, summ, res))
if a.compact:
    print("| seed | round, kind | verdict of the current checks |")
    print("|---|---|---|")
    for r in sorted(rows, key=lambda r: (r[1].split("-")[0], r[0] or 0, r[1])):
        print(f"| {r[1]} | {r[0]}, {r[2]} | {r[4]} |")
    print(f"\n{len(rows)} seeds: " + ", ".join(f"{sum(1 for r in rows if r[2] == k)} {k}" for k in sorted({r[2] for r in rows})) + ".")
    sys.exit(0)
print("| round | seed | kind | change | verdict |")
print("|---|---|---|---|---|")
for r in sorted(rows):
    print(f"| {r[0]} | {r[1]} | {r[2]} | {r[3]}... | {r[4]} |")
print(f"\n{len(rows)} seeds; " + ", ".join(f"{k}: {sum(1 for r in rows if r[2] == k)}" for k in sorted({r[2] for r in rows})), file=sys.stderr)
