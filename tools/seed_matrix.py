#!/venv/bin/python
"""Runs all 20 checks against every candidate change under a directory (<dir>/<Cnn>/<name>/patch.diff + meta.json).
Scratch copies only (mktemp, removed at once); nothing is applied to /repo.  Prints one line per candidate.
usage: tools/seed_matrix.py /tmp/r3/out [-j 16] [--only C07] [--json out.json]
"""
import argparse, concurrent.futures as cf, json, os, shutil, subprocess, sys, tempfile

VERIF = os.path.dirname(os.path.dirname(os.path.abspath(__file__)))
PIDS = [f"C{i:02d}" for i in range(1, 21)]


def prep(patch):
    d = tempfile.mkdtemp(prefix="verif-mx-")
    shutil.copytree("/repo/src", os.path.join(d, "src"), ignore=shutil.ignore_patterns("__pycache__", "*.dic"))
    p = subprocess.run(["patch", "-p1", "-s", "-d", d, "-i", patch], capture_output=True, text=True)
    if p.returncode != 0:
        shutil.rmtree(d, ignore_errors=True)
        return None
    return d


def run(pid, root):
    ev = tempfile.mkdtemp(prefix="verif-ev-")
    try:
        p = subprocess.run([os.path.join(VERIF, "vcheck"), pid, "--root", root], capture_output=True, text=True, env=dict(os.environ, VERIF_EVIDENCE_DIR=ev), timeout=600)
        lines = [l for l in (p.stdout + p.stderr).splitlines() if l.startswith(("  rule=", "ANALYSIS-ERROR"))]
        return pid, p.returncode, lines
    finally:
        shutil.rmtree(ev, ignore_errors=True)


def main():
    ap = argparse.ArgumentParser()
    ap.add_argument("dir")
    ap.add_argument("-j", type=int, default=16)
    ap.add_argument("--only")
    ap.add_argument("--json")
    ap.add_argument("-v", action="store_true")
    a = ap.parse_args()
    cands = []
    for root, dirs, files in sorted(os.walk(a.dir)):
        if "patch.diff" in files and "meta.json" in files:
            try:
                meta = json.load(open(os.path.join(root, "meta.json")))
            except Exception as e:
                print("BAD-META", root, e)
                continue
            if a.only and meta.get("property") != a.only:
                continue
            cands.append((os.path.relpath(root, a.dir), root, meta))
    out = {}
    with cf.ThreadPoolExecutor(a.j) as ex:
        for name, root, meta in cands:
            d = prep(os.path.join(root, "patch.diff"))
            if d is None:
                print(f"{name:14s} PATCH-DOES-NOT-APPLY")
                continue
            try:
                res = list(ex.map(lambda pid: run(pid, d), PIDS))
            finally:
                shutil.rmtree(d, ignore_errors=True)
            fired = [pid for pid, rc, _ in res if rc == 1]
            errs = [pid for pid, rc, _ in res if rc == 2]
            kind = meta.get("kind")
            own = meta.get("property")
            if kind == "bug":
                status = "CAUGHT" if own in fired else ("caught-by-sibling" if fired else ("EXIT2" if errs else "MISSED"))
            else:
                status = "FALSE-ALARM" if fired else ("BRITTLE" if errs else "silent")
            print(f"{name:14s} {kind:8s} {status:18s} fired={','.join(fired) or '-'} exit2={','.join(errs) or '-'}")
            if a.v or status not in ("CAUGHT", "silent"):
                for pid, rc, lines in res:
                    if rc:
                        for l in lines[:4]:
                            print(f"      {pid}: {l[:260]}")
            out[name] = dict(kind=kind, property=own, status=status, fired=fired, exit2=errs, detail={pid: lines[:6] for pid, rc, lines in res if rc})
            sys.stdout.flush()
    if a.json:
        json.dump(out, open(a.json, "w"), indent=1)


if __name__ == "__main__":
    main()
