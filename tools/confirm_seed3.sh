#!/bin/sh
# usage: tools/confirm_seed3.sh <candidate dir> <tag>
#   throw-away git worktree of /repo HEAD (outside /repo and /verif, removed afterwards): patch applies; demo.py (bugs) exits 0 clean and
#   non-zero patched; equiv.py (refactors, optional) exits 0 clean and 0 patched; the 45 baseline tests pass with the patch.
OUT=$1; TAG=$2
WT=$(mktemp -d /tmp/cs3.XXXXXX)
git -C /repo worktree add -q --detach "$WT" HEAD >/dev/null 2>&1 || { echo "$TAG worktree-failed"; exit 0; }
cd "$WT" || exit 2
if ! git apply --check "$OUT/patch.diff" 2>/dev/null; then echo "$TAG patch-does-not-apply"; cd /; git -C /repo worktree remove --force "$WT"; exit 0; fi
C=-; D=-; EC=-; ED=-
if [ -f "$OUT/demo.py" ]; then PYTHONPATH=$WT/src timeout 300 /venv/bin/python "$OUT/demo.py" "$WT" >/dev/null 2>&1; C=$?; fi
if [ -f "$OUT/equiv.py" ]; then PYTHONPATH=$WT/src timeout 600 /venv/bin/python "$OUT/equiv.py" "$WT" >/dev/null 2>&1; EC=$?; fi
git apply "$OUT/patch.diff"
FILES=$(git diff --name-only | tr '\n' ' ')
if [ -f "$OUT/demo.py" ]; then PYTHONPATH=$WT/src timeout 300 /venv/bin/python "$OUT/demo.py" "$WT" >/dev/null 2>&1; D=$?; fi
if [ -f "$OUT/equiv.py" ]; then PYTHONPATH=$WT/src timeout 600 /venv/bin/python "$OUT/equiv.py" "$WT" >/dev/null 2>&1; ED=$?; fi
S=$(/verif/tools/baseline.sh "$WT" 2>&1 | head -2 | tr '\n' ' ')
# one hypothesis-based test is flaky under machine load: when it is the only one missing, re-run it alone
case "$S" in
  *"44/45"*"MISSING: ['tests.test_common::test_rnapdbee_adapters_api_compliance_structure2d']"*)
    if (cd "$WT" && PYTHONPATH="$WT/src" /venv/bin/python -m pytest -q -p no:cacheprovider --timeout=900 "tests/test_common.py::test_rnapdbee_adapters_api_compliance_structure2d" >/dev/null 2>&1); then
      S="baseline: 45/45 stable tests pass (flaky test_rnapdbee_adapters_api_compliance_structure2d passed when re-run alone); extra passing: []"
    fi;;
esac
cd /
git -C /repo worktree remove --force "$WT"
echo "$TAG demo_clean=$C demo_patched=$D equiv_clean=$EC equiv_patched=$ED files=[$FILES] suite=[$S]"
