import argparse
import csv
import logging
import math
import os
from enum import Enum
from functools import cached_property
from typing import List, Optional

import numpy as np
from rnapolis.metareader import read_metadata
from rnapolis.parser import read_3d_structure
from rnapolis.tertiary import Atom, Residue3D
from scipy.spatial import KDTree

CARBON_RADIUS = 0.6
NITROGEN_RADIUS = 0.54
OXYGEN_RADIUS = 0.53
PHOSPHORUS_RADIUS = 0.94

logging.basicConfig(level=os.getenv("LOGLEVEL", "INFO").upper())


class AtomType(Enum):
    C = "C"
    N = "N"
    O = "O"
    P = "P"

    @cached_property
    def radius(self) -> float:
        if self.value == "C":
            return CARBON_RADIUS
        elif self.value == "N":
            return NITROGEN_RADIUS
        elif self.value == "O":
            return OXYGEN_RADIUS
        elif self.value == "P":
            return PHOSPHORUS_RADIUS
        raise RuntimeError(f"Unknown atom type: {self}")

    def matches(self, atom: Atom):
        return atom.name.strip().startswith(self.value)


def find_clashes(
    residues: List[Residue3D],
    ignore_occupancy: bool,
    ignore_autoclashes: bool,
    nucleic_acid_only: bool,
    require_same_atom_name: bool,
    enable_molprobity_mode: bool,
):
    reference_residues = []
    reference_atoms = []
    coordinates = []

    for residue in residues:
        if (
            nucleic_acid_only is True and residue.is_nucleotide
        ) or nucleic_acid_only is False:
            for atom in residue.atoms:
                if any([atom_type.matches(atom) for atom_type in AtomType]):
                    reference_residues.append(residue)
                    reference_atoms.append(atom)
                    coordinates.append(atom.coordinates)

    if len(coordinates) < 2:
        return []

    kdtree = KDTree(coordinates)
    result = []
    max_radius = max([atom_type.radius for atom_type in AtomType])
    molprobity_factor = 0.5 if enable_molprobity_mode is True else 0.0

    for i, j in kdtree.query_pairs(2.0 * max_radius + molprobity_factor):
        ai: Atom = reference_atoms[i]
        aj: Atom = reference_atoms[j]
        ri, rj = reference_residues[i], reference_residues[j]

        if ignore_autoclashes is True and ri == rj:
            continue
        if require_same_atom_name is True and ai.name != aj.name:
            continue

        distance = np.linalg.norm(ai.coordinates - aj.coordinates)
        sum_vdw_radii = AtomType[ai.name[0]].radius + AtomType[aj.name[0]].radius
        if distance > sum_vdw_radii + molprobity_factor:
            continue

        sum_occupancies = (1.0 if ai.occupancy is None else ai.occupancy) + (
            1.0 if aj.occupancy is None else aj.occupancy
        )
        if ignore_occupancy is True or math.isclose(sum_occupancies, 1.0):
            result.append(((ri, ai), (rj, aj), sum_occupancies))

    return result


def classify_clash(atom_i: Atom, atom_j: Atom, occupancy: float) -> Optional[str]:
    if atom_i.name == "O3'" and atom_j.name in (
        "OP1",
        "OP2",
        "OP3",
        "O1P",
        "O2P",
        "O3P",
    ):
        return "O3'"
    return None


def main():
    parser = argparse.ArgumentParser()
    parser.add_argument("input", help="Path to PDB or mmCIF file")
    parser.add_argument(
        "--ignore-occupancy",
        help="By default clashes are reported if atoms' occupancies are not equal to 1.0, but you can ignore this check. If you ignore this check, any pair of atoms too close to each other will be reported regardless of their occupancy",
        action="store_true",
    )
    parser.add_argument(
        "--nucleic-acid-only",
        help="By default all kind of clashes will be found, but you can focus only on nucleic acids chains",
        action="store_true",
    )
    parser.add_argument(
        "--ignore-autoclashes",
        help="By default clashes will be reported even in scope of the same residue, but you can disable this behaviour",
        action="store_true",
    )
    parser.add_argument(
        "--require-same-atom-name",
        help="By default any two clashing atoms are reported (e.g. P vs OP1), but when this is set, the program will report only clashes of the same atom name (e.g. OP1 vs OP1)",
        action="store_true",
    )
    parser.add_argument(
        "--enable-molprobity-mode",
        help="By default this tool will report any *strong* clash, i.e., when two atoms are closer than their sum of vdW radii; when this option is set, additional 0.5A is added as in MolProbity, so that more clashes are detected, but some of them might be *weak*",
        action="store_true",
    )
    parser.add_argument("--csv", help="Store result in CSV format")
    args = parser.parse_args()

    with open(args.input) as f:
        structure3d = read_3d_structure(f, 1)

    clashing_chains = {}
    max_occupancy_residues = {}
    max_occupancy_chains = {}

    clashes = find_clashes(
        structure3d.residues,
        args.ignore_occupancy,
        args.ignore_autoclashes,
        args.nucleic_acid_only,
        args.require_same_atom_name,
        args.enable_molprobity_mode,
    )

    if clashes:
        for pi, pj, occupancy in clashes:
            ri, ai = pi
            rj, aj = pj

            chain_key = (ri.chain, rj.chain)
            residue_key = (ri, rj)
            if chain_key not in clashing_chains:
                clashing_chains[chain_key] = {}
            if residue_key not in clashing_chains[chain_key]:
                clashing_chains[chain_key][residue_key] = set()
            clashing_chains[chain_key][residue_key].add((ai, aj, occupancy))

            max_occupancy_residues[(ri, rj)] = max(
                [max_occupancy_residues.get((ri, rj), 0.0), occupancy]
            )
            max_occupancy_chains[(ri.chain, rj.chain)] = max(
                [max_occupancy_chains.get((ri.chain, rj.chain), 0.0), occupancy]
            )

    if clashing_chains:
        for ci, cj in sorted(clashing_chains):
            if ci == cj:
                print(
                    f"Clashes found in chain {ci} with maximum occupancy sum equal to {max_occupancy_chains[(ci, cj)]}"
                )
            else:
                print(
                    f"Clashes found between chains {ci} and {cj} with maximum occupancy sum equal to {max_occupancy_chains[(ci, cj)]}"
                )
            for ri, rj in clashing_chains[(ci, cj)]:
                if ri == rj:
                    print(
                        f"    Clashes found in residue {ri} with maximum occupancy sum equal to {max_occupancy_residues[(ri, rj)]}"
                    )
                else:
                    print(
                        f"    Clashes found between residues {ri} and {rj} with maximum occupancy sum equal to {max_occupancy_residues[(ri, rj)]}"
                    )
                for ai, aj, occupancy in sorted(clashing_chains[(ci, cj)][(ri, rj)]):
                    print(
                        f"        Clashes found between atoms {ai.name} and {aj.name} with occupancy sum of {occupancy}"
                    )

        if args.csv:
            with open(args.input) as f:
                metadata = read_metadata(f, ["exptl", "refine"])

            with open(args.csv, "w") as f:
                writer = csv.writer(f)
                writer.writerow(
                    [
                        "Filename",
                        "Experimental method",
                        "Resolution",
                        "Atom 1",
                        "Atom 2",
                        "Occupancy sum",
                        "Classification",
                    ]
                )

                for ci, cj in sorted(clashing_chains):
                    for ri, rj in clashing_chains[(ci, cj)]:
                        for ai, aj, occupancy in sorted(
                            clashing_chains[(ci, cj)][(ri, rj)]
                        ):
                            writer.writerow(
                                [
                                    f"{os.path.splitext(os.path.basename(args.input))[0]}",
                                    metadata["exptl"][0]["method"],
                                    metadata["refine"][0]["ls_d_res_high"],
                                    f"{ri} {ai.name}",
                                    f"{rj} {aj.name}",
                                    occupancy,
                                    classify_clash(ai, aj, occupancy),
                                ]
                            )


if __name__ == "__main__":
    main()
