import itertools
import logging
import math
from collections import defaultdict
from dataclasses import dataclass, field
from functools import cached_property, total_ordering
from typing import Dict, List, Optional, Set, Tuple, Union

import numpy
import numpy.typing
from scipy.stats import vonmises

from rnapolis.common import (
    BasePair,
    BpSeq,
    Entry,
    GlycosidicBond,
    InterStemParameters,
    LeontisWesthof,
    Residue,
    ResidueAuth,
    ResidueLabel,
    Saenger,
    Stacking,
    Stem,
    Strand,
)

BASE_ATOMS = {
    "A": ["N1", "C2", "N3", "C4", "C5", "C6", "N6", "N7", "C8", "N9"],
    "G": ["N1", "C2", "N2", "N3", "C4", "C5", "C6", "O6", "N7", "C8", "N9"],
    "C": ["N1", "C2", "O2", "N3", "C4", "N4", "C5", "C6"],
    "U": ["N1", "C2", "O2", "N3", "C4", "O4", "C5", "C6"],
    "T": ["N1", "C2", "O2", "N3", "C4", "O4", "C5", "C6", "C7"],
}

BASE_DONORS = {
    "A": ["C2", "N6", "C8", "O2'"],
    "G": ["N1", "N2", "C8", "O2'"],
    "C": ["N4", "C5", "C6", "O2'"],
    "U": ["N3", "C5", "C6", "O2'"],
    "T": ["N3", "C6", "C7"],
}

BASE_ACCEPTORS = {
    "A": ["N1", "N3", "N7"],
    "G": ["N3", "O6", "N7"],
    "C": ["O2", "N3"],
    "U": ["O2", "O4"],
    "T": ["O2", "O4"],
}

PHOSPHATE_ACCEPTORS = ["OP1", "OP2", "O5'", "O3'"]

RIBOSE_ACCEPTORS = ["O4'", "O2'"]

BASE_EDGES = {
    "A": {
        "N1": "W",
        "C2": "WS",
        "N3": "S",
        "N6": "WH",
        "N7": "H",
        "C8": "H",
        "O2'": "S",
    },
    "G": {
        "N1": "W",
        "N2": "WS",
        "N3": "S",
        "O6": "WH",
        "N7": "H",
        "C8": "H",
        "O2'": "S",
    },
    "C": {
        "O2": "WS",
        "N3": "W",
        "N4": "WH",
        "C5": "H",
        "C6": "H",
        "O2'": "S",
    },
    "U": {
        "O2": "WS",
        "N3": "W",
        "O4": "WH",
        "C5": "H",
        "C6": "H",
        "O2'": "S",
    },
    "T": {
        "O2": "WS",
        "N3": "W",
        "O4": "WH",
        "C6": "H",
        "C7": "H",
    },
}

AVERAGE_OXYGEN_PHOSPHORUS_DISTANCE_COVALENT = 1.6


@dataclass(frozen=True, order=True)
class Atom:
    entity_id: Optional[str]
    label: Optional[ResidueLabel]
    auth: Optional[ResidueAuth]
    model: int
    name: str
    x: float
    y: float
    z: float
    occupancy: Optional[float]

    @cached_property
    def coordinates(self) -> numpy.typing.NDArray[numpy.floating]:
        return numpy.array([self.x, self.y, self.z])


@dataclass(frozen=True)
@total_ordering
class Residue3D(Residue):
    model: int
    one_letter_name: str
    atoms: Tuple[Atom, ...]

    # Dict representing expected name of atom involved in glycosidic bond
    outermost_atoms = {"A": "N9", "G": "N9", "C": "N1", "U": "N1", "T": "N1"}
    # Dist representing expected name of atom closest to the tetrad center
    innermost_atoms = {"A": "N6", "G": "O6", "C": "N4", "U": "O4", "T": "O4"}
    # Heavy atoms in phosphate and ribose
    phosphate_atoms = {"P", "OP1", "OP2", "O3'", "O5'"}
    sugar_atoms = {"C1'", "C2'", "C3'", "C4'", "C5'", "O4'"}
    # Heavy atoms for each main nucleobase
    nucleobase_heavy_atoms = {
        "A": set(["N1", "C2", "N3", "C4", "C5", "C6", "N6", "N7", "C8", "N9"]),
        "G": set(["N1", "C2", "N2", "N3", "C4", "C5", "C6", "O6", "N7", "C8", "N9"]),
        "C": set(["N1", "C2", "O2", "N3", "C4", "N4", "C5", "C6"]),
        "U": set(["N1", "C2", "O2", "N3", "C4", "O4", "C5", "C6"]),
        "T": set(["N1", "C2", "O2", "N3", "C4", "O4", "C5", "C5M", "C6"]),
    }

    def __lt__(self, other):
        return (self.model, self.chain, self.number, self.icode or " ") < (
            other.model,
            other.chain,
            other.number,
            other.icode or " ",
        )

    def __hash__(self):
        return hash((self.model, self.label, self.auth))

    def __repr__(self):
        return f"{self.full_name}"

    @cached_property
    def chi(self) -> float:
        if self.one_letter_name.upper() in ("A", "G"):
            return self.__chi_purine()
        elif self.one_letter_name.upper() in ("C", "U", "T"):
            return self.__chi_pyrimidine()
        # if unknown, try purine first, then pyrimidine
        torsion = self.__chi_purine()
        if math.isnan(torsion):
            return self.__chi_pyrimidine()
        return torsion

    @cached_property
    def chi_class(self) -> Optional[GlycosidicBond]:
        if math.isnan(self.chi):
            return None
        # syn is between -30 and 120 degress
        # this complies with Neidle "Principles of Nucleic Acid Structure" and with own research
        if math.radians(-30) < self.chi < math.radians(120):
            return GlycosidicBond.syn
        # the rest is anti
        return GlycosidicBond.anti

    @cached_property
    def outermost_atom(self) -> Atom:
        return next(filter(None, self.__outer_generator()))

    @cached_property
    def innermost_atom(self) -> Atom:
        return next(filter(None, self.__inner_generator()))

    @cached_property
    def is_nucleotide(self) -> bool:
        scores = {"phosphate": 0.0, "sugar": 0.0, "base": 0.0, "connections": 0.0}
        weights = {"phosphate": 0.25, "sugar": 0.25, "base": 0.25, "connections": 0.25}

        residue_atoms = {atom.name for atom in self.atoms}

        phosphate_match = len(residue_atoms.intersection(self.phosphate_atoms))
        scores["phosphate"] = phosphate_match / len(self.phosphate_atoms)

        sugar_match = len(residue_atoms.intersection(self.sugar_atoms))
        scores["sugar"] = sugar_match / len(self.sugar_atoms)

        nucleobase_atoms = {
            key: self.nucleobase_heavy_atoms[key] for key in self.nucleobase_heavy_atoms
        }
        matches = {
            key: len(residue_atoms.intersection(nucleobase_atoms[key]))
            / len(nucleobase_atoms[key])
            for key in nucleobase_atoms
        }
        best_match = max(matches.items(), key=lambda x: x[1])
        scores["base"] = best_match[1]

        connection_score = 0.0
        distance_threshold = 2.0

        if "P" in residue_atoms and "O5'" in residue_atoms:
            p_atom = next(atom for atom in self.atoms if atom.name == "P")
            o5_atom = next(atom for atom in self.atoms if atom.name == "O5'")
            if (
                numpy.linalg.norm(p_atom.coordinates - o5_atom.coordinates)
                <= distance_threshold
            ):
                connection_score += 0.5
        if "C1'" in residue_atoms:
            c1_atom = next(atom for atom in self.atoms if atom.name == "C1'")
            for base_connection in ["N9", "N1"]:
                if base_connection in residue_atoms:
                    base_atom = next(
                        atom for atom in self.atoms if atom.name == base_connection
                    )
                    if (
                        numpy.linalg.norm(c1_atom.coordinates - base_atom.coordinates)
                        <= distance_threshold
                    ):
                        connection_score += 0.5
                        break

        scores["connections"] = connection_score

        probability = sum(
            scores[component] * weights[component] for component in scores.keys()
        )
        return probability > 0.5

    @cached_property
    def base_normal_vector(self) -> Optional[numpy.typing.NDArray[numpy.floating]]:
        if self.one_letter_name in "AG":
            n9 = self.find_atom("N9")
            n7 = self.find_atom("N7")
            n3 = self.find_atom("N3")
            if n9 is None or n7 is None or n3 is None:
                return None
            v1 = n7.coordinates - n9.coordinates
            v2 = n3.coordinates - n9.coordinates
        else:
            n1 = self.find_atom("N1")
            c4 = self.find_atom("C4")
            o2 = self.find_atom("O2")
            if n1 is None or c4 is None or o2 is None:
                return None
            v1 = c4.coordinates - n1.coordinates
            v2 = o2.coordinates - n1.coordinates
        normal: numpy.typing.NDArray[numpy.floating] = numpy.cross(v1, v2)
        return normal / numpy.linalg.norm(normal)

    @cached_property
    def has_all_nucleobase_heavy_atoms(self) -> bool:
        if self.one_letter_name in "ACGU":
            present_atom_names = set([atom.name for atom in self.atoms])
            expected_atom_names = Residue3D.nucleobase_heavy_atoms[self.one_letter_name]
            return expected_atom_names.issubset(present_atom_names)
        return False

    def find_atom(self, atom_name: str) -> Optional[Atom]:
        for atom in self.atoms:
            if atom.name == atom_name:
                return atom
        return None

    def is_connected(self, next_residue_candidate) -> bool:
        o3p = self.find_atom("O3'")
        p = next_residue_candidate.find_atom("P")

        if o3p is not None and p is not None:
            distance = numpy.linalg.norm(o3p.coordinates - p.coordinates).item()
            return distance < 1.5 * AVERAGE_OXYGEN_PHOSPHORUS_DISTANCE_COVALENT

        return False

    def __chi_purine(self) -> float:
        atoms = [
            self.find_atom("O4'"),
            self.find_atom("C1'"),
            self.find_atom("N9"),
            self.find_atom("C4"),
        ]
        if all([atom is not None for atom in atoms]):
            return torsion_angle(*atoms)  # type: ignore
        return math.nan

    def __chi_pyrimidine(self) -> float:
        atoms = [
            self.find_atom("O4'"),
            self.find_atom("C1'"),
            self.find_atom("N1"),
            self.find_atom("C2"),
        ]
        if all([atom is not None for atom in atoms]):
            return torsion_angle(*atoms)  # type: ignore
        return math.nan

    def __outer_generator(self):
        # try to find expected atom name
        upper = self.one_letter_name.upper()
        if upper in self.outermost_atoms:
            yield self.find_atom(self.outermost_atoms[upper])

        # try to get generic name for purine/pyrimidine
        yield self.find_atom("N9")
        yield self.find_atom("N1")

        # try to find at least C1' next to nucleobase
        yield self.find_atom("C1'")

        # get any atom
        if self.atoms:
            yield self.atoms[0]

        # last resort, create pseudoatom at (0, 0, 0)
        logging.error(
            f"Failed to determine the outermost atom for nucleotide {self}, so an arbitrary atom will be used"
        )
        yield Atom(None, self.label, self.auth, self.model, "UNK", 0.0, 0.0, 0.0, None)

    def __inner_generator(self):
        # try to find expected atom name
        upper = self.one_letter_name.upper()
        if upper in self.innermost_atoms:
            yield self.find_atom(self.innermost_atoms[upper])

        # try to get generic name for purine/pyrimidine
        yield self.find_atom("C6")
        yield self.find_atom("C4")

        # try to find any atom at position 4 or 6 for purine/pyrimidine respectively
        yield self.find_atom("O6")
        yield self.find_atom("N6")
        yield self.find_atom("S6")
        yield self.find_atom("O4")
        yield self.find_atom("N4")
        yield self.find_atom("S4")

        # get any atom
        if self.atoms:
            yield self.atoms[0]

        # last resort, create pseudoatom at (0, 0, 0)
        logging.error(
            f"Failed to determine the innermost atom for nucleotide {self}, so an arbitrary atom will be used"
        )
        yield Atom(None, self.label, self.auth, self.model, "UNK", 0.0, 0.0, 0.0, None)


@dataclass(frozen=True, order=True)
class BasePair3D(BasePair):
    nt1_3d: Residue3D
    nt2_3d: Residue3D

    score_table = {
        LeontisWesthof.cWW: 1,
        LeontisWesthof.tWW: 2,
        LeontisWesthof.cWH: 3,
        LeontisWesthof.tWH: 4,
        LeontisWesthof.cWS: 5,
        LeontisWesthof.tWS: 6,
        LeontisWesthof.cHW: 7,
        LeontisWesthof.tHW: 8,
        LeontisWesthof.cHH: 9,
        LeontisWesthof.tHH: 10,
        LeontisWesthof.cHS: 11,
        LeontisWesthof.tHS: 12,
        LeontisWesthof.cSW: 13,
        LeontisWesthof.tSW: 14,
        LeontisWesthof.cSH: 15,
        LeontisWesthof.tSH: 16,
        LeontisWesthof.cSS: 17,
        LeontisWesthof.tSS: 18,
    }

    @cached_property
    def reverse(self):
        return BasePair3D(
            self.nt2,
            self.nt1,
            self.lw.reverse,
            self.saenger,
            self.nt2_3d,
            self.nt1_3d,
        )

    @cached_property
    def score(self) -> int:
        return self.score_table.get(self.lw, 20)

    @cached_property
    def is_canonical(self) -> bool:
        if self.saenger is not None:
            return self.saenger.is_canonical

        nts = "".join(
            sorted(
                [
                    self.nt1_3d.one_letter_name.upper(),
                    self.nt2_3d.one_letter_name.upper(),
                ]
            )
        )
        return self.lw == LeontisWesthof.cWW and (
            nts == "AU" or nts == "AT" or nts == "CG" or nts == "GU"
        )


@dataclass(frozen=True, order=True)
class Stacking3D(Stacking):
    nt1_3d: Residue3D
    nt2_3d: Residue3D

    @cached_property
    def reverse(self):
        if self.topology is None:
            return self
        return Stacking3D(
            self.nt2, self.nt1, self.topology.reverse, self.nt2_3d, self.nt1_3d
        )


@dataclass
class Structure3D:
    residues: List[Residue3D]
    residue_map: Dict[Union[ResidueLabel, ResidueAuth], Residue3D] = field(init=False)

    def __post_init__(self):
        self.residue_map = {}
        for residue in self.residues:
            if residue.label is not None:
                self.residue_map[residue.label] = residue
            if residue.auth is not None:
                self.residue_map[residue.auth] = residue

    def find_residue(
        self, label: Optional[ResidueLabel], auth: Optional[ResidueAuth]
    ) -> Optional[Residue3D]:
        if label is not None and label in self.residue_map:
            return self.residue_map.get(label)
        if auth is not None and auth in self.residue_map:
            return self.residue_map.get(auth)
        return None


@dataclass
class Mapping2D3D:
    structure3d: Structure3D
    base_pairs2d: List[BasePair]
    stackings2d: List[Stacking]
    find_gaps: bool

    @cached_property
    def base_pairs(self) -> List[BasePair3D]:
        result = []
        used = set()
        for base_pair in self.base_pairs2d:
            nt1 = self.structure3d.find_residue(base_pair.nt1.label, base_pair.nt1.auth)
            nt2 = self.structure3d.find_residue(base_pair.nt2.label, base_pair.nt2.auth)
            if nt1 is not None and nt2 is not None:
                bp = BasePair3D(
                    base_pair.nt1,
                    base_pair.nt2,
                    base_pair.lw,
                    base_pair.saenger,
                    nt1,
                    nt2,
                )
                if bp not in used:
                    result.append(bp)
                    used.add(bp)
                if bp.reverse not in used:
                    result.append(bp.reverse)
                    used.add(bp.reverse)
        return result

    @cached_property
    def base_pair_graph(
        self,
    ) -> Dict[Residue3D, Set[Residue3D]]:
        graph = defaultdict(set)
        for pair in self.base_pairs:
            graph[pair.nt1_3d].add(pair.nt2_3d)
            graph[pair.nt2_3d].add(pair.nt1_3d)
        return graph

    @cached_property
    def base_pair_dict(self) -> Dict[Tuple[Residue3D, Residue3D], BasePair3D]:
        result = {}
        for base_pair in self.base_pairs:
            residue_i = base_pair.nt1_3d
            residue_j = base_pair.nt2_3d
            result[(residue_i, residue_j)] = base_pair
            result[(residue_j, residue_i)] = base_pair.reverse
        return result

    @cached_property
    def stackings(self) -> List[Stacking3D]:
        result = []
        used = set()
        for stacking in self.stackings2d:
            nt1 = self.structure3d.find_residue(stacking.nt1.label, stacking.nt1.auth)
            nt2 = self.structure3d.find_residue(stacking.nt2.label, stacking.nt2.auth)
            if nt1 is not None and nt2 is not None:
                st = Stacking3D(stacking.nt1, stacking.nt2, stacking.topology, nt1, nt2)
                if st not in used:
                    result.append(st)
                    used.add(st)
                if st.reverse not in used:
                    result.append(st.reverse)
                    used.add(st.reverse)
        return result

    @cached_property
    def stacking_graph(self) -> Dict[Residue3D, Set[Residue3D]]:
        graph = defaultdict(set)
        for pair in self.stackings:
            graph[pair.nt1_3d].add(pair.nt2_3d)
            graph[pair.nt2_3d].add(pair.nt1_3d)
        return graph

    @cached_property
    def strands_sequences(self) -> List[Tuple[str, str]]:
        nucleotides = list(filter(lambda r: r.is_nucleotide, self.structure3d.residues))

        if not nucleotides:
            return []

        result = [(nucleotides[0].chain, [nucleotides[0].one_letter_name])]

        for i in range(1, len(nucleotides)):
            previous = nucleotides[i - 1]
            residue = nucleotides[i]

            if residue.chain != previous.chain:
                result.append((residue.chain, [residue.one_letter_name]))
            else:
                if self.find_gaps:
                    if not previous.is_connected(residue):
                        for k in range(residue.number - previous.number - 1):
                            result[-1][1].append("?")
                result[-1][1].append(residue.one_letter_name)

        return [(chain, "".join(sequence)) for chain, sequence in result]

    @cached_property
    def bpseq(self) -> BpSeq:
        def pair_scoring_function(pair: BasePair3D) -> int:
            if pair.saenger is not None:
                if pair.saenger in (Saenger.XIX, Saenger.XX):
                    return 0, pair.nt1, pair.nt2
                else:
                    return 1, pair.nt1, pair.nt2

            sequence = "".join(
                sorted(
                    [
                        pair.nt1_3d.one_letter_name.upper(),
                        pair.nt2_3d.one_letter_name.upper(),
                    ]
                )
            )
            if sequence in ("AU", "AT", "CG"):
                return 0, pair.nt1, pair.nt2
            return 1, pair.nt1, pair.nt2

        canonical = [
            base_pair
            for base_pair in self.base_pairs
            if base_pair.is_canonical and base_pair.nt1 < base_pair.nt2
        ]

        while True:
            matches = defaultdict(set)

            for base_pair in canonical:
                matches[base_pair.nt1_3d].add(base_pair)
                matches[base_pair.nt2_3d].add(base_pair)

            for pairs in matches.values():
                if len(pairs) > 1:
                    pairs = sorted(pairs, key=pair_scoring_function)
                    canonical.remove(pairs[-1])
                    break
            else:
                break

        return self._generated_bpseq_data[0]

    @cached_property
    def bpseq_index_to_residue_map(self) -> Dict[int, Residue3D]:
        """Mapping from BpSeq entry index to the corresponding Residue3D object."""
        return self._generated_bpseq_data[1]

    @cached_property
    def _generated_bpseq_data(self) -> Tuple[BpSeq, Dict[int, Residue3D]]:
        """Helper property to compute BpSeq and index map simultaneously."""

        def pair_scoring_function(pair: BasePair3D) -> int:
            if pair.saenger is not None:
                if pair.saenger in (Saenger.XIX, Saenger.XX):
                    return 0, pair.nt1, pair.nt2
                else:
                    return 1, pair.nt1, pair.nt2

            sequence = "".join(
                sorted(
                    [
                        pair.nt1_3d.one_letter_name.upper(),
                        pair.nt2_3d.one_letter_name.upper(),
                    ]
                )
            )
            if sequence in ("AU", "AT", "CG"):
                return 0, pair.nt1, pair.nt2
            return 1, pair.nt1, pair.nt2

        canonical = [
            base_pair
            for base_pair in self.base_pairs
            if base_pair.is_canonical and base_pair.nt1 < base_pair.nt2
        ]

        while True:
            # lists in input order, not sets: the stable sort below then breaks
            # ties of the scoring key the same way under every PYTHONHASHSEED
            matches = defaultdict(list)

            for base_pair in canonical:
                for residue in (base_pair.nt1_3d, base_pair.nt2_3d):
                    if base_pair not in matches[residue]:
                        matches[residue].append(base_pair)

            for pairs in matches.values():
                if len(pairs) > 1:
                    pairs = sorted(pairs, key=pair_scoring_function)
                    canonical.remove(pairs[-1])
                    break
            else:
                break

        return self.__generate_bpseq(canonical)

    def __generate_bpseq(self, base_pairs) -> Tuple[BpSeq, Dict[int, Residue3D]]:
        """Generates BpSeq entries and a map from index to Residue3D."""
        nucleotides = list(filter(lambda r: r.is_nucleotide, self.structure3d.residues))
        result: Dict[int, List] = {}
        residue_map: Dict[Residue3D, int] = {}
        index_to_residue_map: Dict[int, Residue3D] = {}
        i = 1

        for j, residue in enumerate(nucleotides):
            if self.find_gaps and j > 0:
                previous = nucleotides[j - 1]

                if (
                    not previous.is_connected(residue)
                    and previous.chain == residue.chain
                ):
                    for k in range(residue.number - previous.number - 1):
                        result[i] = [i, "?", 0]
                        i += 1

            result[i] = [i, residue.one_letter_name, 0]
            residue_map[residue] = i
            index_to_residue_map[i] = residue
            i += 1

        for base_pair in base_pairs:
            j = residue_map.get(base_pair.nt1_3d, None)
            k = residue_map.get(base_pair.nt2_3d, None)
            if j is None or k is None:
                continue
            result[j][2] = k
            result[k][2] = j

        return BpSeq(
            [
                Entry(index_, sequence, pair)
                for index_, sequence, pair in result.values()
            ]
        ), index_to_residue_map

    def find_residue_for_entry(self, entry: Entry) -> Optional[Residue3D]:
        """Finds the Residue3D object corresponding to a BpSeq Entry."""
        return self.bpseq_index_to_residue_map.get(entry.index_)

    def get_residues_for_strand(self, strand: Strand) -> List[Residue3D]:
        """Retrieves the list of Residue3D objects corresponding to a Strand."""
        residues = []
        # Strand indices are 1-based and inclusive
        for index_ in range(strand.first, strand.last + 1):
            residue = self.bpseq_index_to_residue_map.get(index_)
            if residue:
                residues.append(residue)
        return residues

    @cached_property
    def dot_bracket(self) -> str:
        dbns = self.__generate_dot_bracket_per_strand(self.bpseq.dot_bracket.structure)
        i = 0
        result = []

        for i, pair in enumerate(self.strands_sequences):
            chain, sequence = pair
            result.append(f">strand_{chain}")
            result.append(sequence)
            result.append(dbns[i])
            i += len(sequence)
        return "\n".join(result)

    def _calculate_pair_centroid(
        self, residue1: Residue3D, residue2: Residue3D
    ) -> Optional[numpy.typing.NDArray[numpy.floating]]:
        """Calculates the geometric mean of base atoms for a pair of residues."""
        base_atoms = []
        for residue in [residue1, residue2]:
            base_atom_names = Residue3D.nucleobase_heavy_atoms.get(
                residue.one_letter_name.upper(), set()
            )
            if not base_atom_names:
                logging.warning(
                    f"Could not find base atom definition for residue {residue.full_name}"
                )
                continue
            for atom in residue.atoms:
                if atom.name in base_atom_names:
                    base_atoms.append(atom)

        if not base_atoms:
            logging.warning(
                f"No base atoms found for pair {residue1.full_name} - {residue2.full_name}"
            )
            return None

        coordinates = [atom.coordinates for atom in base_atoms]
        return numpy.mean(coordinates, axis=0)

    def get_stem_coordinates(
        self, stem: Stem
    ) -> List[numpy.typing.NDArray[numpy.floating]]:
        """
        Calculates the geometric centroid for each base pair in the stem.

        Args:
            stem: The Stem object.

        Returns:
            A list of numpy arrays, where each array is the centroid of a
            base pair in the stem. Returns an empty list if no centroids
            can be calculated.
        """
        all_pair_centroids = []
        stem_len = stem.strand5p.last - stem.strand5p.first + 1

        for i in range(stem_len):
            idx5p = stem.strand5p.first + i
            idx3p = stem.strand3p.last - i
            try:
                res5p = self.bpseq_index_to_residue_map[idx5p]
                res3p = self.bpseq_index_to_residue_map[idx3p]
                centroid = self._calculate_pair_centroid(res5p, res3p)
                if centroid is not None:
                    all_pair_centroids.append(centroid)
            except KeyError:
                logging.warning(
                    f"Could not find residues for pair {idx5p}-{idx3p} in stem {stem}"
                )
                continue  # Continue calculating other centroids

        return all_pair_centroids

    def calculate_inter_stem_parameters(
        self, stem1: Stem, stem2: Stem, kappa: float = 10.0
    ) -> Optional[Dict[str, Union[str, float]]]:
        """
        Calculates geometric parameters between two stems based on closest endpoints
        and the probability of the observed torsion angle based on an expected
        A-RNA twist using a von Mises distribution.

        Args:
            stem1: The first Stem object.
            stem2: The second Stem object.
            kappa: Concentration parameter for the von Mises distribution (default: 10.0).

        Returns:
            A dictionary containing:
            - 'type': The type of closest endpoint pair ('cs55', 'cs53', 'cs35', 'cs33').
            - 'torsion_angle': The calculated torsion angle in degrees.
            - 'min_endpoint_distance': The minimum distance between the endpoints.
            - 'torsion_angle_pdf': The probability density function (PDF) value of the
              torsion angle under the von Mises distribution.
            - 'min_endpoint_distance_pdf': The probability density function (PDF) value
              based on the minimum endpoint distance using a Lennard-Jones-like function.
            - 'coaxial_probability': The normalized product of the torsion angle PDF and
              distance PDF, indicating the likelihood of coaxial stacking (0-1).
            Returns None if either stem has fewer than 2 base pairs or centroids
            cannot be calculated.
        """
        stem1_centroids = self.get_stem_coordinates(stem1)
        stem2_centroids = self.get_stem_coordinates(stem2)

        # Need at least 2 centroids (base pairs) per stem
        if len(stem1_centroids) < 2 or len(stem2_centroids) < 2:
            logging.warning(
                f"Cannot calculate inter-stem parameters for stems {stem1} and {stem2}: "
                f"Insufficient base pairs ({len(stem1_centroids)} and {len(stem2_centroids)} respectively)."
            )
            return None

        # Define the endpoints for each stem
        s1_first, s1_last = stem1_centroids[0], stem1_centroids[-1]
        s2_first, s2_last = stem2_centroids[0], stem2_centroids[-1]

        # Calculate distances between the four endpoint pairs
        endpoint_distances = {
            "cs55": numpy.linalg.norm(s1_first - s2_first),
            "cs53": numpy.linalg.norm(s1_first - s2_last),
            "cs35": numpy.linalg.norm(s1_last - s2_first),
            "cs33": numpy.linalg.norm(s1_last - s2_last),
        }

        # Find the minimum endpoint distance and the corresponding pair
        min_endpoint_distance = min(endpoint_distances.values())
        closest_pair_key = min(endpoint_distances, key=endpoint_distances.get)

        # Select the points for torsion and determine mu based on the closest pair.
        # s1p2 and s2p1 must be the endpoints involved in the minimum distance.
        a_rna_twist = 32.7
        mu_degrees = 0.0

        if closest_pair_key == "cs55":
            # Closest: s1_first and s2_first
            # Torsion points: s1_second, s1_first, s2_first, s2_second
            s1p1, s1p2 = stem1_centroids[1], stem1_centroids[0]
            s2p1, s2p2 = stem2_centroids[0], stem2_centroids[1]
            mu_degrees = 180.0 - a_rna_twist
        elif closest_pair_key == "cs53":
            # Closest: s1_first and s2_last
            # Torsion points: s1_second, s1_first, s2_last, s2_second_last
            s1p1, s1p2 = stem1_centroids[1], stem1_centroids[0]
            s2p1, s2p2 = stem2_centroids[-1], stem2_centroids[-2]
            mu_degrees = 0.0 - a_rna_twist
        elif closest_pair_key == "cs35":
            # Closest: s1_last and s2_first
            # Torsion points: s1_second_last, s1_last, s2_first, s2_second
            s1p1, s1p2 = stem1_centroids[-2], stem1_centroids[-1]
            s2p1, s2p2 = stem2_centroids[0], stem2_centroids[1]
            mu_degrees = 0.0 + a_rna_twist
        elif closest_pair_key == "cs33":
            # Closest: s1_last and s2_last
            # Torsion points: s1_second_last, s1_last, s2_last, s2_second_last
            s1p1, s1p2 = stem1_centroids[-2], stem1_centroids[-1]
            s2p1, s2p2 = stem2_centroids[-1], stem2_centroids[-2]
            mu_degrees = 180.0 + a_rna_twist
        else:
            # This case should ideally not be reached if endpoint_distances is not empty
            logging.error(
                f"Unexpected closest pair key: {closest_pair_key}. Cannot calculate parameters."
            )
            return None

        # Calculate torsion angle (in radians)
        torsion_radians = calculate_torsion_angle_coords(s1p1, s1p2, s2p1, s2p2)

        # Create von Mises distribution instance
        mu_radians = math.radians(mu_degrees)
        vm_dist = vonmises(kappa=kappa, loc=mu_radians)

        # Calculate the probability density function (PDF) value for the torsion angle
        torsion_probability = vm_dist.pdf(torsion_radians)

        # Calculate the probability density for the minimum endpoint distance
        distance_probability = distance_pdf(
            min_endpoint_distance
        )  # Use the new function

        # Calculate the coaxial probability
        # Max torsion probability occurs at mu (location of the distribution)
        max_torsion_probability = vm_dist.pdf(mu_radians)
        # Max distance probability is 1.0 by design of lennard_jones_like_pdf
        max_distance_probability = 1.0
        # Normalization factor is the product of maximum possible probabilities
        normalization_factor = max_torsion_probability * max_distance_probability

        coaxial_probability = 0.0
        if normalization_factor > 1e-9:  # Avoid division by zero
            probability_product = torsion_probability * distance_probability
            coaxial_probability = probability_product / normalization_factor
            # Clamp between 0 and 1
            coaxial_probability = max(0.0, min(1.0, coaxial_probability))

        return {
            "type": closest_pair_key,
            "torsion_angle": math.degrees(torsion_radians),
            "min_endpoint_distance": min_endpoint_distance,
            "torsion_angle_pdf": torsion_probability,
            "min_endpoint_distance_pdf": distance_probability,
            "coaxial_probability": coaxial_probability,
        }

    def __generate_dot_bracket_per_strand(self, dbn_structure: str) -> List[str]:
        dbn = dbn_structure
        i = 0
        result = []

        for _, sequence in self.strands_sequences:
            result.append("".join(dbn[i : i + len(sequence)]))
            i += len(sequence)
        return result

    @cached_property
    def all_dot_brackets(self) -> List[str]:
        dot_brackets = []

        for dot_bracket in self.bpseq.all_dot_brackets:
            dbns = self.__generate_dot_bracket_per_strand(dot_bracket.structure)
            i = 0
            result = []

            for i, pair in enumerate(self.strands_sequences):
                chain, sequence = pair
                result.append(f">strand_{chain}")
                result.append(sequence)
                result.append(dbns[i])
                i += len(sequence)
            dot_brackets.append("\n".join(result))

        return dot_brackets

    @cached_property
    def extended_dot_bracket(self) -> str:
        result = [
            [f"    >strand_{chain}", f"seq {sequence}"]
            for chain, sequence in self.strands_sequences
        ]

        for lw in LeontisWesthof:
            # as many rows as needed so that no residue is paired twice in a row
            rows, used_per_row = [], []

            for base_pair in self.base_pairs:
                if base_pair.lw == lw and base_pair.nt1 < base_pair.nt2:
                    for row, used in zip(rows, used_per_row):
                        if base_pair.nt1 not in used and base_pair.nt2 not in used:
                            row.append(base_pair)
                            used.add(base_pair.nt1)
                            used.add(base_pair.nt2)
                            break
                    else:
                        rows.append([base_pair])
                        used_per_row.append({base_pair.nt1, base_pair.nt2})

            for row in rows:
                if row:
                    bpseq, _ = self.__generate_bpseq(row)  # Unpack the tuple
                    dbns = self.__generate_dot_bracket_per_strand(
                        bpseq.dot_bracket.structure
                    )

                    for i in range(len(self.strands_sequences)):
                        result[i].append(f"{lw.value} {dbns[i]}")

        return "\n".join(["\n".join(r) for r in result])


def distance_pdf(
    x: float, lower_bound: float = 3.0, upper_bound: float = 7.0, steepness: float = 5.0
) -> float:
    """
    Calculates a probability density based on distance using a plateau function.

    The function uses the product of two sigmoid functions to create a distribution
    that is close to 1.0 between lower_bound and upper_bound, and drops off
    rapidly outside this range.

    Args:
        x: The distance value.
        lower_bound: The start of the high-probability plateau (default: 3.0).
        upper_bound: The end of the high-probability plateau (default: 7.0).
        steepness: Controls how quickly the probability drops outside the plateau
                   (default: 5.0). Higher values mean steeper drops.

    Returns:
        The calculated probability density (between 0.0 and 1.0).
    """
    # Define a maximum exponent value to prevent overflow
    max_exponent = 700.0

    # Calculate exponent for the first sigmoid (increasing)
    exponent1 = -steepness * (x - lower_bound)
    # Clamp the exponent if it's excessively large (which happens when x << lower_bound)
    exponent1 = min(exponent1, max_exponent)
    sigmoid1 = 1.0 / (1.0 + math.exp(exponent1))

    # Calculate exponent for the second sigmoid (decreasing)
    exponent2 = steepness * (x - upper_bound)
    # Clamp the exponent if it's excessively large (which happens when x >> upper_bound)
    exponent2 = min(exponent2, max_exponent)
    sigmoid2 = 1.0 / (1.0 + math.exp(exponent2))

    # The product creates the plateau effect
    probability = sigmoid1 * sigmoid2
    # Clamp to handle potential floating point inaccuracies near 0 and 1
    return max(0.0, min(1.0, probability))


def calculate_all_inter_stem_parameters(
    mapping: Mapping2D3D,
) -> List[InterStemParameters]:
    """
    Calculates InterStemParameters for all valid pairs of stems found in the mapping.

    Args:
        mapping: The Mapping2D3D object containing structure, 2D info, and mapping.

    """
    stems = mapping.bpseq.elements[0]  # Get stems from mapping
    inter_stem_params = []
    for i, j in itertools.combinations(range(len(stems)), 2):
        stem1 = stems[i]
        stem2 = stems[j]

        # Ensure both stems have at least 2 base pairs for parameter calculation
        if (stem1.strand5p.last - stem1.strand5p.first + 1) > 1 and (
            stem2.strand5p.last - stem2.strand5p.first + 1
        ) > 1:
            params = mapping.calculate_inter_stem_parameters(stem1, stem2)
            # Only add if calculation returned valid values
            if params is not None:
                inter_stem_params.append(
                    InterStemParameters(
                        stem1_idx=i,
                        stem2_idx=j,
                        type=params["type"],
                        torsion=params["torsion_angle"],
                        min_endpoint_distance=params["min_endpoint_distance"],
                        torsion_angle_pdf=params["torsion_angle_pdf"],
                        min_endpoint_distance_pdf=params["min_endpoint_distance_pdf"],
                        coaxial_probability=params["coaxial_probability"],
                    )
                )
    return inter_stem_params


def torsion_angle(a1: Atom, a2: Atom, a3: Atom, a4: Atom) -> float:
    """Calculates the torsion angle between four atoms."""
    return calculate_torsion_angle_coords(
        a1.coordinates, a2.coordinates, a3.coordinates, a4.coordinates
    )


def calculate_torsion_angle_coords(
    p1: numpy.typing.NDArray[numpy.floating],
    p2: numpy.typing.NDArray[numpy.floating],
    p3: numpy.typing.NDArray[numpy.floating],
    p4: numpy.typing.NDArray[numpy.floating],
) -> float:
    """Calculates the torsion angle between four points defined by their coordinates."""
    v1 = p2 - p1
    v2 = p3 - p2
    v3 = p4 - p3

    # Normalize vectors to avoid issues with very short vectors
    v1_norm = v1 / numpy.linalg.norm(v1) if numpy.linalg.norm(v1) > 1e-6 else v1
    v2_norm = v2 / numpy.linalg.norm(v2) if numpy.linalg.norm(v2) > 1e-6 else v2
    v3_norm = v3 / numpy.linalg.norm(v3) if numpy.linalg.norm(v3) > 1e-6 else v3

    t1 = numpy.cross(v1_norm, v2_norm)
    t2 = numpy.cross(v2_norm, v3_norm)
    t3 = v1_norm * numpy.linalg.norm(v2_norm)

    # Ensure t1 and t2 are not zero vectors before calculating dot products
    if numpy.linalg.norm(t1) < 1e-6 or numpy.linalg.norm(t2) < 1e-6:
        return 0.0  # Or handle as undefined/error

    dot_t1_t2 = numpy.dot(t1, t2)
    dot_t2_t3 = numpy.dot(t2, t3)

    # Clamp dot product arguments for acos/atan2 to avoid domain errors
    dot_t1_t2 = numpy.clip(dot_t1_t2, -1.0, 1.0)

    angle = math.atan2(dot_t2_t3, dot_t1_t2)
    return angle if not math.isnan(angle) else 0.0
