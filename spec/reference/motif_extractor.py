#! /usr/bin/env python
import argparse
import itertools

from rnapolis.common import BpSeq, DotBracket


def main():
    parser = argparse.ArgumentParser()
    parser.add_argument("--dbn", help="path to DotBracket file")
    parser.add_argument("--bpseq", help="path to BpSeq file")
    parser.add_argument(
        "--remove-pseudoknots", action="store_true", help="remove pseudoknots"
    )
    parser.add_argument(
        "--remove-isolated", action="store_true", help="remove isolated base pairs"
    )
    args = parser.parse_args()

    if args.dbn:
        bpseq = BpSeq.from_dotbracket(DotBracket.from_file(args.dbn))
    elif args.bpseq:
        bpseq = BpSeq.from_file(args.bpseq)
    else:
        parser.print_help()
        return

    if args.remove_isolated:
        bpseq = bpseq.without_isolated()

    if args.remove_pseudoknots:
        bpseq = bpseq.without_pseudoknots()

    print(f"Full dot-bracket:\n{bpseq.dot_bracket}")
    stems, single_strands, hairpins, loops = bpseq.elements

    for element in itertools.chain(stems, single_strands, hairpins, loops):
        print(element)


if __name__ == "__main__":
    main()
