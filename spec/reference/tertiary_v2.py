import string
from functools import cached_property
from typing import List, Optional

import numpy as np
import pandas as pd

# Constants
AVERAGE_OXYGEN_PHOSPHORUS_DISTANCE_COVALENT = 1.6


def calculate_torsion_angle(
    a1: np.ndarray, a2: np.ndarray, a3: np.ndarray, a4: np.ndarray
) -> float:
    """
    Calculate the torsion angle between four points in 3D space.

    Parameters:
    -----------
    a1, a2, a3, a4 : np.ndarray
        3D coordinates of the four atoms

    Returns:
    --------
    float
        Torsion angle in radians
    """
    # Calculate vectors between points
    v1 = a2 - a1
    v2 = a3 - a2
    v3 = a4 - a3

    # Calculate normal vectors
    n1 = np.cross(v1, v2)
    n2 = np.cross(v2, v3)

    # Normalize normal vectors
    n1_norm = np.linalg.norm(n1)
    n2_norm = np.linalg.norm(n2)

    # Check for collinearity
    if n1_norm < 1e-6 or n2_norm < 1e-6:
        return float("nan")

    n1 = n1 / n1_norm
    n2 = n2 / n2_norm

    # Calculate the angle using dot product
    m1 = np.cross(n1, v2 / np.linalg.norm(v2))
    x = np.dot(n1, n2)
    y = np.dot(m1, n2)

    # Return angle in radians
    angle = np.arctan2(y, x)

    return angle


class Structure:
    """
    A class representing a molecular structure parsed from PDB or mmCIF format.

    This class takes a DataFrame created by parser_v2 functions and provides
    methods to access and manipulate the structure data.
    """

    def __init__(self, atoms: pd.DataFrame):
        """
        Initialize a Structure object with atom data.

        Parameters:
        -----------
        atoms : pd.DataFrame
            DataFrame containing atom data, as created by parse_pdb_atoms or parse_cif_atoms
        """
        self.atoms = atoms
        self.format = atoms.attrs.get("format", "unknown")

    @cached_property
    def residues(self) -> List["Residue"]:
        """
        Group atoms by residue and return a list of Residue objects.

        The grouping logic depends on the format of the input data:
        - For PDB: group by (chainID, resSeq, iCode)
        - For mmCIF: group by (label_asym_id, label_seq_id) if present,
                     otherwise by (auth_asym_id, auth_seq_id, pdbx_PDB_ins_code)

        Returns:
        --------
        List[Residue]
            List of Residue objects, each representing a single residue
        """
        if self.format == "PDB":
            # Group by chain ID, residue sequence number, and insertion code
            groupby_cols = ["chainID", "resSeq", "iCode"]

            # Filter out columns that don't exist in the DataFrame
            groupby_cols = [col for col in groupby_cols if col in self.atoms.columns]

            # Group atoms by residue
            grouped = self.atoms.groupby(groupby_cols, dropna=False, observed=False)

        elif self.format == "mmCIF":
            # Prefer auth_* columns if they exist
            if (
                "auth_asym_id" in self.atoms.columns
                and "auth_seq_id" in self.atoms.columns
            ):
                groupby_cols = ["auth_asym_id", "auth_seq_id"]

                # Add insertion code if it exists
                if "pdbx_PDB_ins_code" in self.atoms.columns:
                    groupby_cols.append("pdbx_PDB_ins_code")
            else:
                # Fall back to label_* columns
                groupby_cols = ["label_asym_id", "label_seq_id"]

                # Add insertion code if it exists
                if "pdbx_PDB_ins_code" in self.atoms.columns:
                    groupby_cols.append("pdbx_PDB_ins_code")

            # Group atoms by residue
            grouped = self.atoms.groupby(groupby_cols, dropna=False, observed=False)

        else:
            # For unknown formats, return an empty list
            return []

        # Convert groups to a list of DataFrames
        residue_dfs = []
        for _, group in grouped:
            # Create a copy of the group DataFrame
            residue_df = group.copy()

            # Preserve the format attribute
            residue_df.attrs["format"] = self.format

            residue_dfs.append(residue_df)

        # Convert groups to a list of Residue objects
        residues = []
        for _, group in grouped:
            # Create a copy of the group DataFrame
            residue_df = group.copy()

            # Preserve the format attribute
            residue_df.attrs["format"] = self.format

            # Create a Residue object
            residues.append(Residue(residue_df))

        return residues

    @cached_property
    def connected_residues(self) -> List[List["Residue"]]:
        """
        Find segments of connected residues in the structure.

        Returns:
        --------
        List[List[Residue]]
            List of segments, where each segment is a list of connected residues
        """
        # Group residues by chain
        residues_by_chain = {}
        for residue in self.residues:
            chain_id = residue.chain_id
            if chain_id not in residues_by_chain:
                residues_by_chain[chain_id] = []
            residues_by_chain[chain_id].append(residue)

        # Sort residues in each chain by residue number
        for chain_id in residues_by_chain:
            residues_by_chain[chain_id].sort(
                key=lambda r: (r.residue_number, r.insertion_code or "")
            )

        # Find connected segments in each chain
        segments = []
        for chain_id, chain_residues in residues_by_chain.items():
            current_segment = []

            for residue in chain_residues:
                if not current_segment:
                    # Start a new segment
                    current_segment.append(residue)
                else:
                    # Check if this residue is connected to the previous one
                    prev_residue = current_segment[-1]
                    if prev_residue.is_connected(residue):
                        current_segment.append(residue)
                    else:
                        # End the current segment and start a new one
                        if (
                            len(current_segment) > 1
                        ):  # Only add segments with at least 2 residues
                            segments.append(current_segment)
                        current_segment = [residue]

            # Add the last segment if it has at least 2 residues
            if len(current_segment) > 1:
                segments.append(current_segment)

        return segments

    @cached_property
    def torsion_angles(self) -> pd.DataFrame:
        """
        Calculate torsion angles for all connected residues in the structure.

        Returns:
        --------
        pd.DataFrame
            DataFrame containing torsion angle values for each residue
        """
        # Find connected segments
        segments = self.connected_residues

        # Prepare data for the DataFrame
        data = []

        # Define the torsion angles to calculate
        torsion_definitions = {
            "alpha": [("O3'", -1), ("P", 0), ("O5'", 0), ("C5'", 0)],
            "beta": [("P", 0), ("O5'", 0), ("C5'", 0), ("C4'", 0)],
            "gamma": [("O5'", 0), ("C5'", 0), ("C4'", 0), ("C3'", 0)],
            "delta": [("C5'", 0), ("C4'", 0), ("C3'", 0), ("O3'", 0)],
            "epsilon": [("C4'", 0), ("C3'", 0), ("O3'", 0), ("P", 1)],
            "zeta": [("C3'", 0), ("O3'", 0), ("P", 1), ("O5'", 1)],
            "chi": None,  # Will be handled separately due to purine/pyrimidine difference
        }

        # Process each segment
        for segment in segments:
            for i, residue in enumerate(segment):
                # Prepare row data
                row = {
                    "chain_id": residue.chain_id,
                    "residue_number": residue.residue_number,
                    "insertion_code": residue.insertion_code,
                    "residue_name": residue.residue_name,
                }

                # Calculate standard torsion angles
                for angle_name, atoms_def in torsion_definitions.items():
                    if angle_name == "chi":
                        continue  # Skip chi for now

                    if angle_name == "alpha" and i == 0:
                        continue  # Skip alpha for the second residue

                    if angle_name in ["epsilon", "zeta"] and i == len(segment) - 1:
                        continue  # Skip epsilon and zeta for the second-to-last residue

                    # Get the atoms for this angle
                    atoms = []
                    valid = True

                    for atom_name, offset in atoms_def:
                        res_idx = i + offset
                        if 0 <= res_idx < len(segment):
                            atom = segment[res_idx].find_atom(atom_name)
                            if atom is not None:
                                atoms.append(atom.coordinates)
                            else:
                                valid = False
                                break
                        else:
                            valid = False
                            break

                    # Calculate the angle if all atoms were found
                    if valid and len(atoms) == 4:
                        angle = calculate_torsion_angle(
                            atoms[0], atoms[1], atoms[2], atoms[3]
                        )
                        row[angle_name] = angle
                    else:
                        row[angle_name] = None

                # Calculate chi angle based on residue type
                # Pyrimidines: O4'-C1'-N1-C2
                # Purines: O4'-C1'-N9-C4
                purine_bases = ["A", "G", "DA", "DG"]
                pyrimidine_bases = ["C", "U", "T", "DC", "DT"]

                o4_prime = residue.find_atom("O4'")
                c1_prime = residue.find_atom("C1'")

                if o4_prime is not None and c1_prime is not None:
                    if residue.residue_name in purine_bases:
                        n9 = residue.find_atom("N9")
                        c4 = residue.find_atom("C4")
                        if n9 is not None and c4 is not None:
                            chi = calculate_torsion_angle(
                                o4_prime.coordinates,
                                c1_prime.coordinates,
                                n9.coordinates,
                                c4.coordinates,
                            )
                            row["chi"] = chi
                    elif residue.residue_name in pyrimidine_bases:
                        n1 = residue.find_atom("N1")
                        c2 = residue.find_atom("C2")
                        if n1 is not None and c2 is not None:
                            chi = calculate_torsion_angle(
                                o4_prime.coordinates,
                                c1_prime.coordinates,
                                n1.coordinates,
                                c2.coordinates,
                            )
                            row["chi"] = chi

                data.append(row)

        # Create DataFrame
        if not data:
            # Return empty DataFrame with correct columns
            return pd.DataFrame(
                columns=[
                    "chain_id",
                    "residue_number",
                    "insertion_code",
                    "residue_name",
                    "alpha",
                    "beta",
                    "gamma",
                    "delta",
                    "epsilon",
                    "zeta",
                    "chi",
                ]
            )

        df = pd.DataFrame(data)

        # Ensure all angle columns exist
        for angle in ["alpha", "beta", "gamma", "delta", "epsilon", "zeta", "chi"]:
            if angle not in df.columns:
                df[angle] = None

        # Reorder columns to ensure consistent order
        ordered_columns = [
            "chain_id",
            "residue_number",
            "insertion_code",
            "residue_name",
            "alpha",
            "beta",
            "gamma",
            "delta",
            "epsilon",
            "zeta",
            "chi",
        ]
        df = df[ordered_columns]

        return df


class Residue:
    """
    A class representing a single residue in a molecular structure.

    This class encapsulates a DataFrame containing atoms belonging to a single residue
    and provides methods to access residue properties.
    """

    def __init__(self, residue_df: pd.DataFrame):
        """
        Initialize a Residue object with atom data for a single residue.

        Parameters:
        -----------
        residue_df : pd.DataFrame
            DataFrame containing atom data for a single residue
        """
        self.atoms = residue_df
        self.format = residue_df.attrs.get("format", "unknown")

    @property
    def chain_id(self) -> str:
        """Get the chain identifier for this residue."""
        if self.format == "PDB":
            return self.atoms["chainID"].iloc[0]
        elif self.format == "mmCIF":
            if "auth_asym_id" in self.atoms.columns:
                return self.atoms["auth_asym_id"].iloc[0]
            else:
                return self.atoms["label_asym_id"].iloc[0]
        return ""

    @chain_id.setter
    def chain_id(self, value: str) -> None:
        """Set the chain identifier for this residue."""
        if self.format == "PDB":
            self.atoms["chainID"] = value
        elif self.format == "mmCIF":
            if "auth_asym_id" in self.atoms.columns:
                self.atoms["auth_asym_id"] = value
            if "label_asym_id" in self.atoms.columns:
                self.atoms["label_asym_id"] = value

    @property
    def residue_number(self) -> int:
        """Get the residue sequence number."""
        if self.format == "PDB":
            return int(self.atoms["resSeq"].iloc[0])
        elif self.format == "mmCIF":
            if "auth_seq_id" in self.atoms.columns:
                return int(self.atoms["auth_seq_id"].iloc[0])
            else:
                return int(self.atoms["label_seq_id"].iloc[0])
        return 0

    @residue_number.setter
    def residue_number(self, value: int) -> None:
        """Set the residue sequence number."""
        if self.format == "PDB":
            self.atoms["resSeq"] = value
        elif self.format == "mmCIF":
            if "auth_seq_id" in self.atoms.columns:
                self.atoms["auth_seq_id"] = value
            if "label_seq_id" in self.atoms.columns:
                self.atoms["label_seq_id"] = value

    @property
    def insertion_code(self) -> Optional[str]:
        """Get the insertion code, if any."""
        if self.format == "PDB":
            icode = self.atoms["iCode"].iloc[0]
            return icode if pd.notna(icode) else None
        elif self.format == "mmCIF":
            if "pdbx_PDB_ins_code" in self.atoms.columns:
                icode = self.atoms["pdbx_PDB_ins_code"].iloc[0]
                return icode if pd.notna(icode) else None
        return None

    @insertion_code.setter
    def insertion_code(self, value: Optional[str]) -> None:
        """Set the insertion code."""
        if self.format == "PDB":
            self.atoms["iCode"] = value
        elif self.format == "mmCIF":
            if "pdbx_PDB_ins_code" in self.atoms.columns:
                self.atoms["pdbx_PDB_ins_code"] = value

    @cached_property
    def residue_name(self) -> str:
        """Get the residue name (e.g., 'A', 'G', 'C', 'U', etc.)."""
        if self.format == "PDB":
            return self.atoms["resName"].iloc[0]
        elif self.format == "mmCIF":
            if "auth_comp_id" in self.atoms.columns:
                return self.atoms["auth_comp_id"].iloc[0]
            else:
                return self.atoms["label_comp_id"].iloc[0]
        return ""

    @cached_property
    def atoms_list(self) -> List["Atom"]:
        """Get a list of all atoms in this residue."""
        return [Atom(self.atoms.iloc[i], self.format) for i in range(len(self.atoms))]

    def find_atom(self, atom_name: str) -> Optional["Atom"]:
        """
        Find an atom by name in this residue.

        Parameters:
        -----------
        atom_name : str
            Name of the atom to find

        Returns:
        --------
        Optional[Atom]
            The Atom object, or None if not found
        """
        if self.format == "PDB":
            mask = self.atoms["name"] == atom_name
            atoms_df = self.atoms[mask]
            if len(atoms_df) > 0:
                return Atom(atoms_df.iloc[0], self.format)
        elif self.format == "mmCIF":
            if "auth_atom_id" in self.atoms.columns:
                mask = self.atoms["auth_atom_id"] == atom_name
                atoms_df = self.atoms[mask]
                if len(atoms_df) > 0:
                    return Atom(atoms_df.iloc[0], self.format)
            else:
                mask = self.atoms["label_atom_id"] == atom_name
                atoms_df = self.atoms[mask]
                if len(atoms_df) > 0:
                    return Atom(atoms_df.iloc[0], self.format)
        return None

    def is_connected(self, next_residue_candidate: "Residue") -> bool:
        """
        Check if this residue is connected to the next residue candidate.

        The connection is determined by the distance between the O3' atom of this residue
        and the P atom of the next residue. If the distance is less than 1.5 times the
        average O-P covalent bond distance, the residues are considered connected.

        Parameters:
        -----------
        next_residue_candidate : Residue
            The residue to check for connection

        Returns:
        --------
        bool
            True if the residues are connected, False otherwise
        """
        o3p = self.find_atom("O3'")
        p = next_residue_candidate.find_atom("P")

        if o3p is not None and p is not None:
            distance = np.linalg.norm(o3p.coordinates - p.coordinates).item()
            return distance < 1.5 * AVERAGE_OXYGEN_PHOSPHORUS_DISTANCE_COVALENT

        return False

    def __str__(self) -> str:
        """String representation of the residue."""
        # Start with chain ID and residue name
        chain = self.chain_id
        if chain.isspace() or not chain:
            builder = f"{self.residue_name}"
        else:
            builder = f"{chain}.{self.residue_name}"

        # Add a separator if the residue name ends with a digit
        if len(self.residue_name) > 0 and self.residue_name[-1] in string.digits:
            builder += "/"

        # Add residue number
        builder += f"{self.residue_number}"

        # Add insertion code if present
        icode = self.insertion_code
        if icode is not None:
            builder += f"^{icode}"

        return builder

    def __repr__(self) -> str:
        """Detailed string representation of the residue."""
        return f"Residue({self.__str__()}, {len(self.atoms)} atoms)"


class Atom:
    """
    A class representing a single atom in a molecular structure.

    This class encapsulates a pandas Series containing data for a single atom
    and provides methods to access atom properties.
    """

    def __init__(self, atom_data: pd.Series, format: str):
        """
        Initialize an Atom object with atom data.

        Parameters:
        -----------
        atom_data : pd.Series
            Series containing data for a single atom
        format : str
            Format of the data ('PDB' or 'mmCIF')
        """
        self.data = atom_data
        self.format = format

    @cached_property
    def name(self) -> str:
        """Get the atom name."""
        if self.format == "PDB":
            return self.data["name"]
        elif self.format == "mmCIF":
            if "auth_atom_id" in self.data:
                return self.data["auth_atom_id"]
            else:
                return self.data["label_atom_id"]
        return ""

    @cached_property
    def element(self) -> str:
        """Get the element symbol."""
        if self.format == "PDB":
            return self.data["element"]
        elif self.format == "mmCIF":
            if "type_symbol" in self.data:
                return self.data["type_symbol"]
        return ""

    @cached_property
    def coordinates(self) -> np.ndarray:
        """Get the 3D coordinates of the atom."""
        if self.format == "PDB":
            return np.array([self.data["x"], self.data["y"], self.data["z"]])
        elif self.format == "mmCIF":
            return np.array(
                [self.data["Cartn_x"], self.data["Cartn_y"], self.data["Cartn_z"]]
            )
        return np.array([0.0, 0.0, 0.0])

    @cached_property
    def occupancy(self) -> float:
        """Get the occupancy value."""
        if self.format == "PDB":
            return (
                float(self.data["occupancy"])
                if pd.notna(self.data["occupancy"])
                else 1.0
            )
        elif self.format == "mmCIF":
            if "occupancy" in self.data:
                return (
                    float(self.data["occupancy"])
                    if pd.notna(self.data["occupancy"])
                    else 1.0
                )
        return 1.0

    @cached_property
    def temperature_factor(self) -> float:
        """Get the temperature factor (B-factor)."""
        if self.format == "PDB":
            return (
                float(self.data["tempFactor"])
                if pd.notna(self.data["tempFactor"])
                else 0.0
            )
        elif self.format == "mmCIF":
            if "B_iso_or_equiv" in self.data:
                return (
                    float(self.data["B_iso_or_equiv"])
                    if pd.notna(self.data["B_iso_or_equiv"])
                    else 0.0
                )
        return 0.0

    def __str__(self) -> str:
        """String representation of the atom."""
        return f"{self.name} ({self.element})"

    def __repr__(self) -> str:
        """Detailed string representation of the atom."""
        coords = self.coordinates
        return f"Atom({self.name}, {self.element}, [{coords[0]:.3f}, {coords[1]:.3f}, {coords[2]:.3f}])"
