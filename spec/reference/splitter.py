#!/usr/bin/env python3
import argparse
import os
import sys

from rnapolis.parser import is_cif
from rnapolis.parser_v2 import (
    fit_to_pdb,
    parse_cif_atoms,
    parse_pdb_atoms,
    write_cif,
    write_pdb,
)


def main():
    """Main function to run the splitter tool."""
    parser = argparse.ArgumentParser(
        description="Split a multi-model PDB or mmCIF file into separate files per model."
    )
    parser.add_argument("--output", "-o", help="Output directory", required=True)
    parser.add_argument(
        "--format",
        "-f",
        help="Output format (possible values: PDB, mmCIF, keep. Default: keep)",
        default="keep",
    )
    parser.add_argument("file", help="Input PDB or mmCIF file to split")
    args = parser.parse_args()

    # Check if input file exists
    if not os.path.exists(args.file):
        print(f"Error: Input file not found: {args.file}", file=sys.stderr)
        sys.exit(1)

    # Read and parse the input file
    input_format = "mmCIF"
    try:
        with open(args.file) as f:
            if is_cif(f):
                atoms_df = parse_cif_atoms(f)
                model_column = "pdbx_PDB_model_num"
            else:
                atoms_df = parse_pdb_atoms(f)
                input_format = "PDB"
                model_column = "model"
    except Exception as e:
        print(f"Error parsing file {args.file}: {e}", file=sys.stderr)
        sys.exit(1)

    if atoms_df.empty:
        print(f"Warning: No atoms found in {args.file}", file=sys.stderr)
        sys.exit(0)

    # Check if model column exists
    if model_column not in atoms_df.columns:
        print(
            f"Error: Model column '{model_column}' not found in the parsed data from {args.file}.",
            file=sys.stderr,
        )
        print(
            "This might indicate an issue with the input file or the parser.",
            file=sys.stderr,
        )
        sys.exit(1)

    # Determine output format
    output_format = args.format.upper()
    if output_format == "KEEP":
        output_format = input_format
    elif output_format not in ["PDB", "MMCIF"]:
        print(
            f"Error: Invalid output format '{args.format}'. Choose PDB, mmCIF, or keep.",
            file=sys.stderr,
        )
        sys.exit(1)

    # Ensure output directory exists
    os.makedirs(args.output, exist_ok=True)

    # Group by model number
    grouped_by_model = atoms_df.groupby(model_column)

    # Get base name for output files
    base_name = os.path.splitext(os.path.basename(args.file))[0]

    # Write each model to a separate file
    for model_num, model_df in grouped_by_model:
        # Ensure model_df is a DataFrame copy to avoid SettingWithCopyWarning
        model_df = model_df.copy()

        # Set the correct format attribute for the writer function
        model_df.attrs["format"] = input_format

        # Construct output filename
        ext = ".pdb" if output_format == "PDB" else ".cif"
        output_filename = f"{base_name}_model_{model_num}{ext}"
        output_path = os.path.join(args.output, output_filename)

        print(f"Writing model {model_num} to {output_path}...")

        try:
            if output_format == "PDB":
                df_to_write = fit_to_pdb(model_df)
                write_pdb(df_to_write, output_path)
            else:  # mmCIF
                write_cif(model_df, output_path)
        except ValueError as e:
            # Handle errors specifically from fit_to_pdb
            print(
                f"Error fitting model {model_num} from {args.file} to PDB: {e}. Skipping model.",
                file=sys.stderr,
            )
            continue
        except Exception as e:
            # Handle general writing errors
            print(
                f"Error writing file {output_path} for model {model_num}: {e}",
                file=sys.stderr,
            )
            # Optionally continue to next model or exit
            # sys.exit(1)

    print("Splitting complete.")


if __name__ == "__main__":
    main()
