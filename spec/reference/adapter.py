#! /usr/bin/env python
import argparse
import logging
import os
from enum import Enum
from typing import Dict, List, Optional, Tuple

import orjson

from rnapolis.annotator import (
    add_common_output_arguments,
    handle_output_arguments,
)
from rnapolis.common import (
    BR,
    BaseInteractions,
    BasePair,
    BasePhosphate,
    BaseRibose,
    BPh,
    LeontisWesthof,
    OtherInteraction,
    Residue,
    ResidueAuth,
    Stacking,
    StackingTopology,
    Structure2D,
)
from rnapolis.parser import read_3d_structure
from rnapolis.tertiary import (
    Mapping2D3D,
    Structure3D,
    calculate_all_inter_stem_parameters,  # Import the new helper function
)
from rnapolis.util import handle_input_file


class ExternalTool(Enum):
    FR3D = "fr3d"
    DSSR = "dssr"


logging.basicConfig(level=os.getenv("LOGLEVEL", "INFO").upper())


def parse_unit_id(nt: str) -> Residue:
    """Parse FR3D unit ID format into a Residue object."""
    fields = nt.split("|")
    icode = fields[7] if len(fields) >= 8 and fields[7] != "" else None
    auth = ResidueAuth(fields[2], int(fields[4]), icode, fields[3])
    return Residue(None, auth)


def unify_classification(fr3d_name: str) -> tuple:
    """Convert FR3D classification to internal format."""
    original_name = fr3d_name  # Keep for logging

    # Handle 'n' prefix (e.g., ncWW -> cWW, ns55 -> s55)
    if fr3d_name.startswith("n"):
        fr3d_name = fr3d_name[1:]
        logging.debug(
            f"Detected 'n' prefix: removed from {original_name} -> {fr3d_name}"
        )

    # Handle alternative base pairs with 'a' suffix (e.g., cWWa -> cWW)
    if len(fr3d_name) >= 3 and fr3d_name.endswith("a"):
        fr3d_name = fr3d_name[:-1]  # Remove the 'a' suffix
        logging.debug(
            f"Detected alternative base pair: removed 'a' suffix from {original_name} -> {fr3d_name}"
        )

    # Handle backbone interactions: 0BR, 1BR, ... 9BR for base-ribose
    if len(fr3d_name) == 3 and fr3d_name[1:] == "BR" and fr3d_name[0].isdigit():
        try:
            br_type = f"_{fr3d_name[0]}"
            return ("base-ribose", BR[br_type])
        except (ValueError, KeyError):
            logging.debug(f"Unknown base-ribose interaction: {original_name}")
            return ("other", None)

    # Handle backbone interactions: 0BPh, 1BPh, ... 9BPh for base-phosphate
    if len(fr3d_name) == 4 and fr3d_name[1:] == "BPh" and fr3d_name[0].isdigit():
        try:
            bph_type = f"_{fr3d_name[0]}"
            return ("base-phosphate", BPh[bph_type])
        except (ValueError, KeyError):
            logging.debug(f"Unknown base-phosphate interaction: {original_name}")
            return ("other", None)

    # Handle the stacking notation from direct FR3D service (s33, s35, s53, s55)
    if (
        len(fr3d_name) == 3
        and fr3d_name.startswith("s")
        and fr3d_name[1] in ("3", "5")
        and fr3d_name[2] in ("3", "5")
    ):
        if fr3d_name == "s33":
            return ("stacking", StackingTopology.downward)
        if fr3d_name == "s55":
            return ("stacking", StackingTopology.upward)
        if fr3d_name == "s35":
            return ("stacking", StackingTopology.outward)
        if fr3d_name == "s53":
            return ("stacking", StackingTopology.inward)

    # Handle the cWW style notation from direct FR3D service output
    # Support both uppercase and lowercase edge names (e.g., cWW, cww, tHS, ths, tSs, etc.)
    if len(fr3d_name) == 3 and fr3d_name[0].lower() in ("c", "t"):
        try:
            # Convert to the format expected by LeontisWesthof
            edge_type = fr3d_name[0].lower()  # c or t
            edge1 = fr3d_name[1].upper()  # W, H, S (convert to uppercase)
            edge2 = fr3d_name[2].upper()  # W, H, S (convert to uppercase)

            lw_format = f"{edge_type}{edge1}{edge2}"
            return ("base-pair", LeontisWesthof[lw_format])
        except KeyError:
            logging.debug(
                f"Fr3d unknown interaction from service: {original_name} -> {fr3d_name}"
            )
            return ("other", None)

    # Handle other classifications with different formatting
    logging.debug(f"Fr3d unknown interaction: {fr3d_name}")
    return ("other", None)


def _process_interaction_line(
    line: str,
    interactions_data: Dict[str, list],
):
    """
    Process a single interaction line and add it to the appropriate list.

    Args:
        line: The tab-separated interaction line
        interactions_data: Dictionary containing all interaction lists

    Returns:
        True if successfully processed, False otherwise
    """
    try:
        # Split by tabs and get the first three fields
        parts = line.split("\t")
        if len(parts) < 3:
            logging.warning(f"Invalid interaction line format: {line}")
            return False

        nt1 = parts[0]
        interaction_type = parts[1]
        nt2 = parts[2]

        nt1_residue = parse_unit_id(nt1)
        nt2_residue = parse_unit_id(nt2)

        # Convert the interaction type to our internal format
        interaction_category, classification = unify_classification(interaction_type)

        # Add to the appropriate list based on the interaction category
        if interaction_category == "base-pair":
            interactions_data["base_pairs"].append(
                BasePair(nt1_residue, nt2_residue, classification, None)
            )
        elif interaction_category == "stacking":
            interactions_data["stackings"].append(
                Stacking(nt1_residue, nt2_residue, classification)
            )
        elif interaction_category == "base-ribose":
            interactions_data["base_ribose_interactions"].append(
                BaseRibose(nt1_residue, nt2_residue, classification)
            )
        elif interaction_category == "base-phosphate":
            interactions_data["base_phosphate_interactions"].append(
                BasePhosphate(nt1_residue, nt2_residue, classification)
            )
        elif interaction_category == "other":
            interactions_data["other_interactions"].append(
                OtherInteraction(nt1_residue, nt2_residue)
            )

        return True
    except (ValueError, IndexError) as e:
        logging.warning(f"Error parsing interaction: {e}")
        return False


def match_dssr_name_to_residue(
    structure3d: Structure3D, nt_id: Optional[str]
) -> Optional[Residue]:
    if nt_id is not None:
        nt_id = nt_id.split(":")[-1]
        for residue in structure3d.residues:
            if residue.full_name == nt_id:
                return residue
        logging.warning(f"Failed to find residue {nt_id}")
    return None


def match_dssr_lw(lw: Optional[str]) -> Optional[LeontisWesthof]:
    return LeontisWesthof[lw] if lw in LeontisWesthof.__members__ else None


def parse_dssr_output(
    file_path: str, structure3d: Structure3D, model: Optional[int] = None
) -> BaseInteractions:
    """
    Parse DSSR JSON output and convert to BaseInteractions.

    Args:
        file_path: Path to DSSR JSON output file
        structure3d: The 3D structure parsed from PDB/mmCIF
        model: Model number to use (if None, use first model)

    Returns:
        BaseInteractions object containing the interactions found by DSSR
    """
    base_pairs: List[BasePair] = []
    stackings: List[Stacking] = []

    with open(file_path) as f:
        dssr = orjson.loads(f.read())

    # Handle multi-model files
    if "models" in dssr:
        if model is None and dssr.get("models"):
            # If model is None, use the first model
            dssr = dssr.get("models")[0].get("parameters", {})
        else:
            # Otherwise find the specified model
            for result in dssr.get("models", []):
                if result.get("model", None) == model:
                    dssr = result.get("parameters", {})
                    break

    for pair in dssr.get("pairs", []):
        nt1 = match_dssr_name_to_residue(structure3d, pair.get("nt1", None))
        nt2 = match_dssr_name_to_residue(structure3d, pair.get("nt2", None))
        lw = match_dssr_lw(pair.get("LW", None))

        if nt1 is not None and nt2 is not None and lw is not None:
            base_pairs.append(BasePair(nt1, nt2, lw, None))

    for stack in dssr.get("stacks", []):
        nts = [
            match_dssr_name_to_residue(structure3d, nt)
            for nt in stack.get("nts_long", "").split(",")
        ]
        for i in range(1, len(nts)):
            nt1 = nts[i - 1]
            nt2 = nts[i]
            if nt1 is not None and nt2 is not None:
                stackings.append(Stacking(nt1, nt2, None))

    return BaseInteractions(base_pairs, stackings, [], [], [])


def parse_external_output(
    file_path: str, tool: ExternalTool, structure3d: Structure3D
) -> BaseInteractions:
    """
    Parse the output from an external tool (FR3D, DSSR, etc.) and convert it to BaseInteractions.

    Args:
        file_path: Path to the external tool output file
        tool: The external tool that generated the output
        structure3d: The 3D structure parsed from PDB/mmCIF

    Returns:
        BaseInteractions object containing the interactions found by the external tool
    """
    if tool == ExternalTool.FR3D:
        return parse_fr3d_output(file_path)
    elif tool == ExternalTool.DSSR:
        return parse_dssr_output(file_path, structure3d)
    else:
        raise ValueError(f"Unsupported external tool: {tool}")


def parse_fr3d_output(file_path: str) -> BaseInteractions:
    """
    Parse FR3D output file and convert to BaseInteractions.

    Args:
        file_path: Path to a concatenated FR3D output file containing basepair, stacking,
                  and backbone interactions

    Returns:
        BaseInteractions object containing the interactions found by FR3D
    """
    # Initialize the interaction data dictionary
    interactions_data = {
        "base_pairs": [],
        "stackings": [],
        "base_ribose_interactions": [],
        "base_phosphate_interactions": [],
        "other_interactions": [],
    }

    # Process the concatenated file
    with open(file_path, "r") as f:
        for line in f:
            line = line.strip()
            if not line or line.startswith("#"):
                continue

            # Process every non-empty, non-comment line
            _process_interaction_line(line, interactions_data)

    # Return a BaseInteractions object with all the processed interactions
    return BaseInteractions(
        interactions_data["base_pairs"],
        interactions_data["stackings"],
        interactions_data["base_ribose_interactions"],
        interactions_data["base_phosphate_interactions"],
        interactions_data["other_interactions"],
    )


def process_external_tool_output(
    structure3d: Structure3D,
    external_file_path: str,
    tool: ExternalTool,
    model: Optional[int] = None,
    find_gaps: bool = False,
    all_dot_brackets: bool = False,
) -> Tuple[Structure2D, List[str], Mapping2D3D]:  # Added Mapping2D3D to return tuple
    """
    Process external tool output and create a secondary structure representation.

    This function can be used from other code to process external tool outputs
    and get a Structure2D object with the secondary structure information.

    Args:
        structure3d: The 3D structure parsed from PDB/mmCIF
        external_file_path: Path to the external tool output file
        tool: The external tool that generated the output (FR3D, DSSR, etc.)
        model: Model number to use (if None, use first model)
        find_gaps: Whether to detect gaps in the structure
        all_dot_brackets: Whether to return all possible dot-bracket notations

    Returns:
        A tuple containing the Structure2D object, a list of dot-bracket notations,
        and the Mapping2D3D object.
    """
    # Parse external tool output
    base_interactions = parse_external_output(external_file_path, tool, structure3d)

    # Extract secondary structure using the external tool's interactions
    return extract_secondary_structure_from_external(
        structure3d, base_interactions, model, find_gaps, all_dot_brackets
    )


def extract_secondary_structure_from_external(
    tertiary_structure: Structure3D,
    base_interactions: BaseInteractions,
    model: Optional[int] = None,
    find_gaps: bool = False,
    all_dot_brackets: bool = False,
) -> Tuple[Structure2D, List[str], Mapping2D3D]:  # Added Mapping2D3D to return tuple
    """
    Create a secondary structure representation using interactions from an external tool.

    Args:
        tertiary_structure: The 3D structure parsed from PDB/mmCIF
        base_interactions: Interactions parsed from external tool output
        model: Model number to use (if None, use all models)
        find_gaps: Whether to detect gaps in the structure
        all_dot_brackets: Whether to return all possible dot-bracket notations

    Returns:
        A tuple containing the Structure2D object, a list of dot-bracket notations,
        and the Mapping2D3D object.
    """
    mapping = Mapping2D3D(
        tertiary_structure,
        base_interactions.basePairs,
        base_interactions.stackings,
        find_gaps,
    )
    stems, single_strands, hairpins, loops = mapping.bpseq.elements

    # Calculate inter-stem parameters using the helper function
    inter_stem_params = calculate_all_inter_stem_parameters(mapping)

    structure2d = Structure2D(
        base_interactions,
        str(mapping.bpseq),
        mapping.dot_bracket,
        mapping.extended_dot_bracket,
        stems,
        single_strands,
        hairpins,
        loops,
        inter_stem_params,  # Added inter-stem parameters
    )
    if all_dot_brackets:
        return structure2d, mapping.all_dot_brackets, mapping  # Return mapping
    else:
        return structure2d, [structure2d.dotBracket], mapping  # Return mapping


# Removed duplicate functions - now imported from annotator


def main():
    parser = argparse.ArgumentParser()
    parser.add_argument("input", help="Path to PDB or mmCIF file")
    parser.add_argument(
        "--external",
        required=True,
        help="Path to external tool output file (FR3D, DSSR, etc.)",
    )
    parser.add_argument(
        "--tool",
        choices=[t.value for t in ExternalTool],
        required=True,
        help="External tool that generated the output file",
    )
    parser.add_argument(
        "-f",
        "--find-gaps",
        action="store_true",
        help="(optional) if set, the program will detect gaps and break the PDB chain into two or more strands",
    )
    add_common_output_arguments(parser)
    # The --inter-stem-csv and --stems-csv arguments are now added by add_common_output_arguments
    args = parser.parse_args()

    file = handle_input_file(args.input)
    structure3d = read_3d_structure(file, None)

    # Process external tool output and get secondary structure
    structure2d, dot_brackets, mapping = process_external_tool_output(
        structure3d,
        args.external,
        ExternalTool(args.tool),
        None,
        args.find_gaps,
        args.all_dot_brackets,
    )

    handle_output_arguments(args, structure2d, dot_brackets, mapping, args.input)


if __name__ == "__main__":
    main()
