#! /usr/bin/env python
import argparse
import gzip
import os
import re
import shutil
import subprocess
import sys
import tempfile
import threading
from concurrent.futures import ThreadPoolExecutor
from typing import List

import appdirs
import requests
import RNA
from rnapolis.common import BpSeq, DotBracket

COMBINED_CM = "https://ftp.ebi.ac.uk/pub/databases/Rfam/CURRENT/Rfam.cm.gz"
SEPARATE_CM = "https://ftp.ebi.ac.uk/pub/databases/Rfam/CURRENT/Rfam.tar.gz"


class FASTA:
    header: str
    sequence: str

    def __init__(self, header: str, sequence: str):
        self.header = header
        self.sequence = sequence.upper().replace("T", "U")

    def __str__(self):
        return f">{self.header}\n{self.sequence}"


def parse_fasta(fasta_path: str) -> List[FASTA]:
    """
    Read FASTA entries from a file.

    Args:
        fasta_path (str): The path to the FASTA file.

    Returns:
        List[Fasta]: A list of FASTA objects representing the entries in the file.
    """
    with open(fasta_path) as f:
        content = f.read()

    entries = content.split(">")[1:]
    fastas = []

    for entry in entries:
        lines = entry.splitlines()
        header = lines[0]
        sequence = "".join(lines[1:])
        fastas.append(FASTA(header, sequence))

    return fastas


def ensure_cm(family: str = None):
    if not os.path.exists(appdirs.user_data_dir("rnapolis")):
        os.makedirs(appdirs.user_data_dir("rnapolis"))

    if family is None:
        cm_gz_path = appdirs.user_data_dir("rnapolis") + "/Rfam.cm.gz"
        cm_path = appdirs.user_data_dir("rnapolis") + "/Rfam.cm"

        if not os.path.exists(cm_gz_path):
            response = requests.get(COMBINED_CM)

            with open(cm_gz_path, "wb") as f:
                f.write(response.content)

        if not os.path.exists(cm_path):
            with gzip.open(cm_gz_path, "rb") as f_in, open(cm_path, "wb") as f_out:
                f_out.write(f_in.read())
    else:
        cm_gz_path = appdirs.user_data_dir("rnapolis") + "/Rfam.tar.gz"
        cm_path = appdirs.user_data_dir("rnapolis") + f"/{family}.cm"

        if not os.path.exists(cm_gz_path):
            response = requests.get(SEPARATE_CM)

            with open(cm_gz_path, "wb") as f:
                f.write(response.content)

        if not os.path.exists(cm_path):
            shutil.unpack_archive(cm_gz_path, appdirs.user_data_dir("rnapolis"))

            if not os.path.exists(cm_path):
                raise RuntimeError(
                    f"Failed to find covariance model for {family} from Rfam."
                )

    if any(
        not os.path.exists(cm_path + extension)
        for extension in [".i1m", ".i1i", ".i1p", ".i1f"]
    ):
        for extension in [".i1m", ".i1i", ".i1p", ".i1f"]:
            if os.path.exists(cm_path + extension):
                os.remove(cm_path + extension)
        try:
            subprocess.run(["cmpress", cm_path], check=True, capture_output=True)
        except subprocess.CalledProcessError as e:
            print("Failed to run cmpress", file=sys.stderr)
            print(e.stdout.decode(), file=sys.stderr)
            print(e.stderr.decode(), file=sys.stderr)
            raise e

    return cm_path


def analyze_cmsearch(cmsearch: str, fasta: FASTA, count: int = 1):
    result = []
    lines = cmsearch.splitlines()
    begins = [i for i, line in enumerate(lines) if line.startswith(">>")]

    for i, begin in enumerate(begins):
        nc_index, cs_index = None, None

        for j in range(begin, begins[i + 1] if i + 1 < len(begins) else len(lines)):
            if lines[j].endswith(" NC"):
                nc_index = j
            if lines[j].endswith(" CS"):
                cs_index = j

        assert len(lines[cs_index].split()) == 2

        structure = lines[cs_index]
        sequence = lines[cs_index + 3]

        match = re.match(r"\s*.+?\s+(\d+)\s+.+\s+(\d+)", sequence)
        assert match is not None, sequence
        first, last = int(match.group(1)), int(match.group(2))

        for i in range(len(structure)):
            if structure[i] != " ":
                break

        j = structure.find(" CS")
        while structure[j] == " ":
            j -= 1
        j += 1

        structure = structure[i:j]
        sequence = sequence[i:j].upper()

        # remove pairs which did not match to consensus
        if nc_index is not None:
            non_canonical = lines[nc_index][i:j]
            for match in re.finditer(r"[v?]", non_canonical):
                i = match.start()
                structure = structure[:i] + "." + structure[i + 1 :]

        # replace *[n]* placeholders
        while True:
            match = re.search(r"[<*]\[ *(\d+)\][*>]", sequence)

            if match is None:
                break

            i, j = match.start(), match.end()
            n = int(match.group(1))
            sequence = sequence[:i] + "." * n + sequence[j:]
            structure = structure[:i] + "." * n + structure[j:]

        # replace gaps
        while True:
            match = re.search(r"-+", sequence)

            if match is None:
                break

            i, j = match.start(), match.end()
            sequence = sequence[:i] + sequence[j:]
            structure = structure[:i] + structure[j:]

        assert len(sequence) == len(structure)

        if first > last:
            # https://en.wikipedia.org/wiki/Nucleic_acid_notation
            complementary = {
                "A": "U",
                "C": "G",
                "G": "C",
                "U": "A",
                "W": "W",
                "S": "S",
                "M": "K",
                "K": "M",
                "R": "Y",
                "Y": "R",
                "B": "V",
                "D": "H",
                "H": "D",
                "V": "B",
                "N": "N",
                ".": ".",
            }
            assert set(sequence) <= set(complementary.keys()), (
                set(sequence) - set(complementary.keys()),
                sequence,
            )
            sequence_comp = "".join([complementary[c] for c in sequence[::-1]])
            match = re.search(sequence_comp, fasta.sequence)
            assert match is not None, (sequence, fasta.sequence)
            sequence = match.group()
        else:
            match = re.search(sequence, fasta.sequence)
            assert match is not None, (sequence, fasta.sequence)
            sequence = match.group()

        assert len(sequence) == len(structure)

        i = fasta.sequence.find(sequence)
        assert i != -1

        structure = (
            "." * i + structure + "." * (len(fasta.sequence) - len(sequence) - i)
        )
        sequence = fasta.sequence

        assert len(sequence) == len(structure)
        assert len(sequence) == len(fasta.sequence)

        structure = (
            structure.replace(":", ".")
            .replace("-", ".")
            .replace("_", ".")
            .replace(",", ".")
            .replace("~", ".")
        )
        if set(structure) == {"."}:
            continue

        dot_bracket = DotBracket.from_string("N" * len(structure), structure)
        structure = BpSeq.from_dotbracket(dot_bracket).dot_bracket.structure
        result.append([sequence, structure])

        if len(result) >= count:
            break

    if result == []:
        result.append([fasta.sequence, "." * len(fasta.sequence)])

    return result


def generate_consensus_secondary_structure(
    fasta: FASTA,
    family: str = None,
    fold: bool = True,
    count: int = 1,
    no_rfam_defaults: bool = False,
    lock: threading.Lock = None,
):
    if shutil.which("cmpress") is None or shutil.which("cmsearch") is None:
        raise RuntimeError(
            "cmpress/cmsearch not found in PATH, please install Infernal first."
        )

    if lock is not None:
        lock.acquire()

    cm_path = ensure_cm(family)

    if lock is not None:
        lock.release()

    with tempfile.NamedTemporaryFile(suffix=".fa") as fin:
        fin.write(str(fasta).encode())
        fin.seek(0)

        try:
            command = ["cmsearch", "--notextw"]
            if not no_rfam_defaults:
                command += ["--nohmmonly", "--rfam", "--cut_ga"]
            command += [cm_path, fin.name]
            completed = subprocess.run(
                command,
                check=True,
                capture_output=True,
            )
        except subprocess.CalledProcessError as e:
            print("Failed to run cmsearch", file=sys.stderr)
            print(e.stdout.decode(), file=sys.stderr)
            print(e.stderr.decode(), file=sys.stderr)
            raise e

    results = analyze_cmsearch(completed.stdout.decode(), fasta, count)

    if fold:
        for i in range(len(results)):
            RNAfold = RNA.fold_compound(results[i][0])
            RNAfold.hc_add_from_db(results[i][1])
            structure, _ = RNAfold.mfe()
            results[i][1] = structure

    return [
        f">{fasta.header}\n{sequence}\n{structure}" for sequence, structure in results
    ]


def main():
    parser = argparse.ArgumentParser(
        description="Generate consensus secondary structure for a given sequence. IMPORTANT! You need to have Infernal software installed to use this script."
    )
    parser.add_argument(
        "sequence",
        type=str,
        help="an RNA sequence or a path to FASTA file, possibly containing multiple sequences",
    )
    parser.add_argument(
        "--family",
        type=str,
        help="(optional) name of the Rfam family to use, if not given, the whole Rfam will be checked for the given sequence",
    )
    parser.add_argument(
        "--no-fold",
        action="store_true",
        help="(optional) whether to disable folding of the consensus secondary structure by RNAfold with constraints",
    )
    parser.add_argument(
        "--count",
        type=int,
        default=1,
        help="(optional) maximum number of consensus secondary structures to generate per sequence, default is 1",
    )
    parser.add_argument(
        "--no-rfam-defaults",
        action="store_true",
        help="Infernal will be run with Rfam defaults (cmsearch --nohmmonly --rfam --cut_ga CM FASTA), "
        + "but if this is set then Infernal will be run with global defaults (cmsearch CM FASTA)",
    )

    args = parser.parse_args()

    if os.path.exists(args.sequence):
        fastas = parse_fasta(args.sequence)
    else:
        fastas = [FASTA("header", args.sequence)]

    lock = threading.Lock()

    with ThreadPoolExecutor() as executor:
        all_results = executor.map(
            lambda fasta: generate_consensus_secondary_structure(
                fasta,
                args.family,
                not args.no_fold,
                args.count,
                args.no_rfam_defaults,
                lock,
            ),
            fastas,
        )
        for per_fasta_results in all_results:
            for result in per_fasta_results:
                print(result)


if __name__ == "__main__":
    main()
